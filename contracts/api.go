//go:build verif

package api

// Contracts for package api (properties C01, C06, C16).

//@ spec func blocked(r) = r != nil && r.status == base.ResultStatusBlocked

// sync.Pool ownership: objects in the options pool are as left by New / Reset and held by nobody else
// (every default an Entry call without the corresponding option relies on: outbound traffic, common resource type,
// batch 1, no flag, the global chain, no arguments, no attachments)
//@ poolinv "*api.EntryOptions": it.slotChain == nil && len(it.args) == 0 && it.batchCount == 1 && it.entryType == base.Outbound && it.resourceType == base.ResTypeCommon && it.flag == 0 && it.attachments == nil

//@ func entry(resource, options) (e, b)
//@   props C01, C06, C16
//@   requires options != nil && (options.slotChain != nil ==> options.slotChain.ctxPool != nil)
//@   panics never
//@   let sc = options.slotChain
//@   let a0 = gPassN
//@   let k0 = gBlkN
//@   let c0 = gCompN
//@   ensures[one-outcome] (e == nil) != (b == nil)
//@   ensures[no-chain-passes] sc == nil ==> e != nil && e.ctx == nil && fresh(e)
//@   ensures[block-error-is-a-copy] b != nil ==> fresh(b) && b.blockType == old(b.blockType)
//@   ensures[passed-told-once] e != nil && sc != nil && e.ctx != nil && e.ctx.err == nil ==> gPassN == a0 + len(sc.stats) && gBlkN == k0 && gCompN == c0
//@   ensures[no-completion-at-entry] gCompN == c0
//@   ensures[passed-is-counted-after-contained-panic]{C01} e != nil && sc != nil && e.ctx != nil && e.ctx.err != nil ==> gPassN == a0 + len(sc.stats)
//@   ensures[blocked-told-once-no-completion] b != nil ==> gBlkN == k0 + len(sc.stats) && gPassN == a0 && gCompN == c0
//@   modifies gPrepN, gPrepRecv, gChkN, gChkRecv, gChkRes, gChkBlocked, gPassN, gPassRecv, gBlkN, gBlkRecv, gBlkErr, gCompN, gCompRecv, gHandlerN, gAdded, gConc, allfields(base.EntryContext), allfields(base.SentinelInput), allfields(base.TokenResult)
//@   ensures[args-not-shared-with-options]{C01,C06} e != nil && e.ctx != nil && len(e.ctx.Input.Args) > 0 ==> base(e.ctx.Input.Args) != base(options.args)
//@   witness nothing = 0
//@   replay api_panicking_slot for passed-is-counted-after-contained-panic
//@   replay api_args_alias for args-not-shared
//@   replay api_entry_carries_request for entry-carries-request
//@   ensures[entry-carries-request] e != nil && sc != nil ==> fresh(e) && e.ctx != nil && e.ctx.entry == e && e.sc == sc && e.ctx.Input.BatchCount == options.batchCount && e.ctx.Resource != nil && e.ctx.Resource.name == resource && e.ctx.Resource.flowType == options.entryType

// the attachments of an entry are the entry's own copy: the map the caller handed in is never kept (a caller that reuses
// its map for the next request must not change what a live entry carries — the hot-parameter slots re-read the attached
// value when the entry exits)
//@ func WithAttachments$1(opts)
//@   props C06
//@   requires opts != nil && (opts.attachments == nil || opts.attachments != data)
//@   ensures[the-callers-map-is-copied-not-kept] opts.attachments != nil && (data != nil ==> opts.attachments != data)
//@   ensures[same-map-object-or-a-new-one] opts.attachments == old(opts.attachments) || fresh(opts.attachments)
//@   modifies opts.attachments, mapof(opts.attachments)
//@   loop 1:
//@     invariant[own-map] opts.attachments != nil && (data != nil ==> opts.attachments != data) && (opts.attachments == old(opts.attachments) || fresh(opts.attachments))
//@     invariant[only-the-own-map-is-written] frame(mapof(opts.attachments), opts.attachments)

// user options only write the options object they are applied to (and append to its argument list)
//@ callback EntryOption(opts)
//@   ensures opts.slotChain != nil ==> opts.slotChain.ctxPool != nil
//@   modifies fields(opts)

// gLastPooled: the object most recently handed back to a sync.Pool by the function under verification
//@ ghost var gLastPooled Int

//@ func Entry(resource, opts) (e, b)
//@   props C01, C06, C16
//@   requires[options-not-nil] forall k Int :: 0 <= k && k < len(opts) ==> opts[k] != nil
//@   requires entryOptsPool != nil && pooltype(entryOptsPool, "*api.EntryOptions") && (globalSlotChain != nil ==> globalSlotChain.ctxPool != nil)
//@   panics never
//@   let a0 = gPassN
//@   let k0 = gBlkN
//@   let c0 = gCompN
//@   ensures[one-outcome] (e == nil) != (b == nil)
//@   ensures[block-error-fresh] b != nil ==> fresh(b)
//@   ensures[blocked-no-completion] b != nil ==> gPassN == a0 && gCompN == c0
//@   ensures[passed-not-completed-yet] e != nil ==> gCompN == c0
//@   ensures[options-returned-to-pool] gLastPooled != 0
//@   loop 1:
//@     invariant[options-live] options != nil && allocated(options)
//@     invariant[chains-have-pools] options.slotChain != nil ==> options.slotChain.ctxPool != nil

//@ func TraceError(entry, err)
//@   props C01
//@   panics never
//@   objinv entry != nil && oncedone(entry.exitCtl) ==> entry.exited != 0
//@   ensures[recorded] entry != nil && err != nil && entry.ctx != nil && entry.exited == 0 ==> entry.ctx.err == err
//@   ensures[ignored] (entry == nil || err == nil) ==> frame()
//@   ensures[late-call-changes-nothing] entry != nil && oncedone(entry.exitCtl) ==> frame()
//@   modifies entry.ctx.err
