//go:build verif

package hotspot

// Contracts for core/hotspot (properties C05, C06, C13, C14).

//@ spec func blocked(r) = r != nil && r.status == base.ResultStatusBlocked
//@ spec func cellOf(c, k) = sel(sel(gCache, dynptr(c)), k)
//@ spec func thrOf(c, arg) = has(c.specificItems, arg) ? c.specificItems[arg] : c.threshold

// ---- C06: per-value concurrency
//@ func (c *baseTrafficShapingController) performCheckingForConcurrencyMetric(arg) r
//@   props C06
//@   requires c != nil && c.metric != nil && c.metric.ConcurrencyCounter != nil
//@   let cnt = c.metric.ConcurrencyCounter
//@   let cellp = cellOf(cnt, arg)
//@   let live = cellp == 0 ? 0 : cell(cellp)
//@   requires cellp != 0 ==> allocated(cellp) && 0 <= cell(cellp) && cell(cellp) < 4611686018427387904
//@   case seen: cellp != 0
//@   case first-sight: cellp == 0
//@   ensures[admit-iff] !blocked(r) <==> live + 1 <= thrOf(c, arg)
//@   ensures[pass-is-nil] !blocked(r) ==> r == nil
//@   ensures[counter-untouched] cellp != 0 ==> cell(cellp) == old(cell(cellp)) && gCache == old(gCache)
//@   ensures[cell-created-zero] cellp == 0 ==> cellOf(cnt, arg) != 0 && cell(cellOf(cnt, arg)) == 0 && fresh(cellOf(cnt, arg))
//@   ensures[other-values-untouched] forall k Iface :: k != arg ==> cellOf(cnt, k) == old(cellOf(cnt, k))
//@   modifies gCache
//@   witness threshold = c.threshold
//@   replay hotspot_concurrency_first

// ---- argument selection: attachment key first, then index (negative from the end), nil when absent
//@ func (c *baseTrafficShapingController) ExtractArgs(ctx) value
//@   props C05, C06
//@   requires c != nil ==> ctx != nil && ctx.Input != nil
//@   let att = ctx.Input.Attachments
//@   let args = ctx.Input.Args
//@   let key = asiface(c.paramKey)
//@   let idx = c.paramIndex < 0 ? len(args) + c.paramIndex : c.paramIndex
//@   let keyed = c != nil && att != nil && c.paramKey != "" && att[key] != nil
//@   ensures[nil-controller] c == nil ==> value == nil
//@   ensures[key-first] keyed ==> value == att[key]
//@   ensures[then-index] c != nil && !keyed && 0 <= idx && idx < len(args) ==> value == args[idx]
//@   ensures[absent] c != nil && !keyed && !(0 <= idx && idx < len(args)) ==> value == nil
//@   modifies nothing

// ---- controllers are consulted through their interface; their rule, metric and parameter selection are fixed at
// construction, and the request context is not modified while a slot runs (stable reads)
//@ iface TrafficShapingController.BoundRule() r
//@   stable
//@ iface TrafficShapingController.ExtractArgs(ctx) r
//@   stable
//@ iface TrafficShapingController.BoundMetric() r
//@   stable
//@ iface TrafficShapingController.BoundParamIndex() r
//@   stable

// ---- C06: every admitted entry occupies exactly one unit of the value it was admitted with, released on exit
//@ spec func counterOf(tc, ctx) = cellOf(tc.BoundMetric().ConcurrencyCounter, tc.ExtractArgs(ctx))
//@ spec func counts(tc, ctx) = tc.BoundRule().MetricType == Concurrency && tc.ExtractArgs(ctx) != nil && counterOf(tc, ctx) != 0
//@ spec func tcsOK(tcs, ctx) = (forall k Int :: 0 <= k && k < len(tcs) ==> tcs[k] != nil && tcs[k].BoundRule() != nil && (tcs[k].BoundRule().MetricType == Concurrency ==> tcs[k].BoundMetric() != nil && tcs[k].BoundMetric().ConcurrencyCounter != nil)) && (forall k Int :: 0 <= k && k < len(tcs) && counts(tcs[k], ctx) ==> allocated(counterOf(tcs[k], ctx)) && 0 - 4611686018427387904 < cell(counterOf(tcs[k], ctx)) && cell(counterOf(tcs[k], ctx)) < 4611686018427387904) && (forall j Int :: forall k Int :: 0 <= j && j < k && k < len(tcs) && counts(tcs[j], ctx) && counts(tcs[k], ctx) ==> counterOf(tcs[j], ctx) != counterOf(tcs[k], ctx))

//@ func (c *ConcurrencyStatSlot) OnEntryPassed(ctx)
//@   props C06
//@   requires ctx != nil && ctx.Resource != nil
//@   let tcs = tcMap[ctx.Resource.name]
//@   requires tcsOK(tcs, ctx)
//@   ensures[one-unit-per-rule] forall k Int :: 0 <= k && k < len(tcs) && counts(tcs[k], ctx) ==> cell(counterOf(tcs[k], ctx)) == old(cell(counterOf(tcs[k], ctx))) + 1
//@   ensures[nothing-else] forall p Int :: old(allocated(p)) && (forall k Int :: 0 <= k && k < len(tcs) && counts(tcs[k], ctx) ==> p != counterOf(tcs[k], ctx)) ==> cell(p) == old(cell(p))
//@   ensures[cache-untouched] gCache == old(gCache)
//@   loop 1:
//@     invariant[done] forall k Int :: 0 <= k && k < #i && counts(tcs[k], ctx) ==> cell(counterOf(tcs[k], ctx)) == old(cell(counterOf(tcs[k], ctx))) + 1
//@     invariant[todo] forall k Int :: #i <= k && k < len(tcs) && counts(tcs[k], ctx) ==> cell(counterOf(tcs[k], ctx)) == old(cell(counterOf(tcs[k], ctx)))
//@     invariant[others] forall p Int :: old(allocated(p)) && (forall k Int :: 0 <= k && k < len(tcs) && counts(tcs[k], ctx) ==> p != counterOf(tcs[k], ctx)) ==> cell(p) == old(cell(p))
//@     invariant[cache] gCache == old(gCache)

//@ func (c *ConcurrencyStatSlot) OnCompleted(ctx)
//@   props C06
//@   requires ctx != nil && ctx.Resource != nil
//@   let tcs = tcMap[ctx.Resource.name]
//@   requires tcsOK(tcs, ctx)
//@   ensures[unit-released-per-rule] forall k Int :: 0 <= k && k < len(tcs) && counts(tcs[k], ctx) ==> cell(counterOf(tcs[k], ctx)) == old(cell(counterOf(tcs[k], ctx))) - 1
//@   ensures[nothing-else] forall p Int :: old(allocated(p)) && (forall k Int :: 0 <= k && k < len(tcs) && counts(tcs[k], ctx) ==> p != counterOf(tcs[k], ctx)) ==> cell(p) == old(cell(p))
//@   ensures[cache-untouched] gCache == old(gCache)
//@   loop 1:
//@     invariant[done] forall k Int :: 0 <= k && k < #i && counts(tcs[k], ctx) ==> cell(counterOf(tcs[k], ctx)) == old(cell(counterOf(tcs[k], ctx))) - 1
//@     invariant[todo] forall k Int :: #i <= k && k < len(tcs) && counts(tcs[k], ctx) ==> cell(counterOf(tcs[k], ctx)) == old(cell(counterOf(tcs[k], ctx)))
//@     invariant[others] forall p Int :: old(allocated(p)) && (forall k Int :: 0 <= k && k < len(tcs) && counts(tcs[k], ctx) ==> p != counterOf(tcs[k], ctx)) ==> cell(p) == old(cell(p))
//@     invariant[cache] gCache == old(gCache)

// ---- C05: reject-mode token bucket of one argument value (sequential clause set).  time / tokens are the two cells
// bound to the value in the rule's caches; nothing of any other value is read or written.
//@ spec func small40(v) = 0 - 1099511627776 < v && v < 1099511627776
//@ func (c *rejectTrafficShapingController) PerformChecking(arg, batchCount) r
//@   props C05
//@   requires c != nil && c.metricType == QPS && c.metric != nil && c.metric.RuleTimeCounter != nil && c.metric.RuleTokenCounter != nil && dynptr(c.metric.RuleTimeCounter) != dynptr(c.metric.RuleTokenCounter)
//@   let tc = c.metric.RuleTimeCounter
//@   let kc = c.metric.RuleTokenCounter
//@   let T = thrOf(c.baseTrafficShapingController, arg)
//@   let max = T + c.burstCount
//@   let D = c.durationInSec * 1000
//@   let tcell = cellOf(tc, arg)
//@   let kcell = cellOf(kc, arg)
//@   requires c.durationInSec > 0 && c.durationInSec < 1048576 && T < 1048576 && 0 - 1048576 < T && small40(c.burstCount) && c.burstCount >= 0 && small40(batchCount) && batchCount >= 0 && clock_ms > 0
//@   requires (tcell != 0 ==> allocated(tcell) && 0 <= cell(tcell) && cell(tcell) <= clock_ms) && (kcell != 0 ==> allocated(kcell) && small40(cell(kcell))) && tcell != kcell || tcell == 0
//@   let time0 = cell(tcell)
//@   let rest0 = cell(kcell)
//@   let valid = T > 0 && batchCount <= max
//@   ensures[bad-threshold] T <= 0 ==> blocked(r) && gCache == old(gCache)
//@   ensures[batch-above-capacity] T > 0 && batchCount > max ==> blocked(r) && gCache == old(gCache)
//@   ensures[first-sight] valid && tcell == 0 ==> !blocked(r) && cellOf(tc, arg) != 0 && cell(cellOf(tc, arg)) == clock_ms && (kcell == 0 ==> cell(cellOf(kc, arg)) == max - batchCount)
//@   ensures[refill] forall pt Int :: forall add Int :: pt == clock_ms - time0 && add == pt * T / D && valid && tcell != 0 && kcell != 0 && pt > D ==> (blocked(r) <==> min(rest0 + add, max) - batchCount < 0) && (!blocked(r) ==> cell(kcell) == min(rest0 + add, max) - batchCount && cell(tcell) == clock_ms && 0 <= cell(kcell) && cell(kcell) <= max) && (blocked(r) ==> cell(kcell) == rest0 && cell(tcell) == time0)
//@   ensures[within-duration] valid && tcell != 0 && kcell != 0 && clock_ms - time0 <= D ==> (blocked(r) <==> rest0 - batchCount < 0) && cell(tcell) == time0 && cell(kcell) == (blocked(r) ? rest0 : rest0 - batchCount)
//@   ensures[other-values-untouched] forall k Iface :: k != arg ==> cellOf(tc, k) == old(cellOf(tc, k)) && cellOf(kc, k) == old(cellOf(kc, k))
//@   ensures[pass-is-nil] !blocked(r) ==> r == nil
//@   loop 1:
//@     invariant[untouched-so-far] gCache == old(gCache) && frame()

// ---- C05: throttling mode of one argument value (sequential clause set)
//@ spec func waiting(r) = r != nil && r.status == base.ResultStatusShouldWait
//@ func (c *throttlingTrafficShapingController) PerformChecking(arg, batchCount) r
//@   props C05
//@   requires c != nil && c.metricType == QPS && c.metric != nil && c.metric.RuleTimeCounter != nil && c.metric.RuleTokenCounter != nil
//@   let tc = c.metric.RuleTimeCounter
//@   let T = thrOf(c.baseTrafficShapingController, arg)
//@   let tcell = cellOf(tc, arg)
//@   let last = cell(tcell)
//@   requires c.durationInSec > 0 && c.durationInSec < 1048576 && T < 1048576 && 0 - 1048576 < T && 0 <= batchCount && batchCount < 1048576 && 0 <= c.maxQueueingTimeMs && c.maxQueueingTimeMs < 1099511627776
//@   requires tcell != 0 ==> allocated(tcell) && 0 <= cell(tcell) && cell(tcell) < 4398046511104
//@   let interval = batchCount * c.durationInSec * 1000 / T
//@   ensures[bad-threshold] T <= 0 ==> blocked(r) && gCache == old(gCache)
//@   ensures[first-sight] T > 0 && tcell == 0 ==> r == nil && cellOf(tc, arg) != 0 && cell(cellOf(tc, arg)) == clock_ms
//@   ensures[reject-iff] T > 0 && tcell != 0 ==> (blocked(r) <==> last + interval > clock_ms && last + interval - clock_ms >= c.maxQueueingTimeMs)
//@   ensures[reject-unchanged] T > 0 && tcell != 0 && blocked(r) ==> cell(tcell) == last
//@   ensures[pass-time] T > 0 && tcell != 0 && !blocked(r) ==> cell(tcell) == max(last + interval, clock_ms)
//@   ensures[wait] T > 0 && tcell != 0 && !blocked(r) ==> (last + interval <= clock_ms ==> r == nil) && (last + interval > clock_ms ==> waiting(r) && r.nanosToWait == (last + interval - clock_ms) * 1000000 && last + interval - clock_ms < c.maxQueueingTimeMs)
//@   ensures[spacing-of-scheduled-passes] T > 0 && tcell != 0 && !blocked(r) ==> cell(tcell) >= last + interval
//@   ensures[spacing-at-least-exact-quotient] T > 0 && tcell != 0 && !blocked(r) ==> R(cell(tcell) - last) * R(T) >= R(batchCount * c.durationInSec * 1000)
//@   witness T = thrOf(c.baseTrafficShapingController, arg)
//@   witness batch = batchCount
//@   witness dur = c.durationInSec
//@   replay hotspot_throttling_spacing for spacing
//@   ensures[other-values-untouched] forall k Iface :: k != arg ==> cellOf(tc, k) == old(cellOf(tc, k))
//@   loop 1:
//@     invariant[untouched-so-far] gCache == old(gCache) && frame()

// ---- the hotspot rule-check slot: requests without the selected argument are never limited; otherwise the
// controllers of the resource are consulted in order until the first block
//@ ghost var gHotN Int
//@ ghost var gHotRecv (Array Int Int)
//@ ghost var gHotArg (Array Int Iface)
//@ ghost var gHotBatch (Array Int Int)
//@ ghost var gHotRes (Array Int Int)
//@ ghost var gHotBlocked (Array Int Bool)
// the wait each check asked for and the ghost total of nanoseconds slept (slept_ns) at the moment of each check
//@ ghost var gHotWait (Array Int Int)
//@ ghost var gHotSlept (Array Int Int)
//@ spec func waitOf(r) = (r != nil && r.status == base.ResultStatusShouldWait && r.nanosToWait > 0) ? r.nanosToWait : 0
//@ iface TrafficShapingController.PerformChecking(arg, batchCount) r
//@   ensures gHotN == old(gHotN) + 1 && gHotRecv == upd(old(gHotRecv), old(gHotN), dynptr(this)) && gHotArg == upd(old(gHotArg), old(gHotN), arg) && gHotBatch == upd(old(gHotBatch), old(gHotN), batchCount)
//@   ensures gHotRes == upd(old(gHotRes), old(gHotN), r) && gHotBlocked == upd(old(gHotBlocked), old(gHotN), blocked(r))
//@   ensures gHotWait == upd(old(gHotWait), old(gHotN), waitOf(r)) && gHotSlept == upd(old(gHotSlept), old(gHotN), slept_ns)
//@   ensures r != nil ==> fresh(r)
//@   modifies gHotN, gHotRecv, gHotArg, gHotBatch, gHotRes, gHotBlocked, gHotWait, gHotSlept, gCache, cells(int64)

//@ func (s *Slot) Check(ctx) r
//@   props C05
//@   requires ctx != nil && ctx.Resource != nil && ctx.Input != nil && !blocked(ctx.RuleCheckResult)
//@   let tcs = tcMap[ctx.Resource.name]
//@   let n0 = gHotN
//@   requires forall k Int :: 0 <= k && k < len(tcs) ==> tcs[k] != nil
//@   ensures[only-with-argument] forall j Int :: n0 <= j && j < gHotN ==> sel(gHotArg, j) != nil && sel(gHotBatch, j) == ctx.Input.BatchCount
//@   ensures[no-argument-never-limited] (forall k Int :: 0 <= k && k < len(tcs) ==> tcs[k].ExtractArgs(ctx) == nil) ==> gHotN == n0 && r == old(ctx.RuleCheckResult)
//@   ensures[first-block] blocked(r) ==> gHotN > n0 && r == sel(gHotRes, gHotN - 1) && sel(gHotBlocked, gHotN - 1)
//@   ensures[none-earlier] forall j Int :: n0 <= j && j < gHotN - (blocked(r) ? 1 : 0) ==> !sel(gHotBlocked, j)
//@   ensures[pass-unchanged] !blocked(r) ==> r == old(ctx.RuleCheckResult)
// every rule of the resource whose selected argument is present is consulted, in order, unless an earlier one blocked:
// a rule without its argument is skipped, it does not end the checking of the rules after it
//@   let hasArg = seqof(k, 0 <= k && k < len(tcs) && tcs[k].ExtractArgs(ctx) != nil)
//@   ensures[every-rule-with-an-argument-consulted] !blocked(r) ==> gHotN == n0 + countTrue(hasArg, len(tcs))
//@   ensures[sleeps-exactly-the-wait] forall j Int :: n0 <= j && j < gHotN ==> (j + 1 < gHotN ? sel(gHotSlept, j + 1) : slept_ns) == sel(gHotSlept, j) + sel(gHotWait, j)
//@   ensures[no-other-sleep] (gHotN == n0 ==> slept_ns == old(slept_ns)) && (gHotN > n0 ==> sel(gHotSlept, n0) == old(slept_ns))
//@   loop 1:
//@     invariant[count] n0 <= gHotN && gHotN <= n0 + #i
//@     invariant[consulted-count] gHotN == n0 + countTrue(hasArg, #i) && 0 <= countTrue(hasArg, #i)
//@     invariant[consulted-in-rule-order] forall k Int :: 0 <= k && k < #i && sel(hasArg, k) ==> sel(gHotRecv, n0 + countTrue(hasArg, k)) == dynptr(tcs[k]) && sel(gHotArg, n0 + countTrue(hasArg, k)) == tcs[k].ExtractArgs(ctx) && 0 <= countTrue(hasArg, k) && countTrue(hasArg, k) < countTrue(hasArg, #i)
//@     invariant[slept] forall j Int :: n0 <= j && j < gHotN ==> (j + 1 < gHotN ? sel(gHotSlept, j + 1) : slept_ns) == sel(gHotSlept, j) + sel(gHotWait, j)
//@     invariant[slept-first] (gHotN == n0 ==> slept_ns == old(slept_ns)) && (gHotN > n0 ==> sel(gHotSlept, n0) == old(slept_ns))
//@     invariant[no-block-yet] forall j Int :: n0 <= j && j < gHotN ==> !sel(gHotBlocked, j) && sel(gHotArg, j) != nil && sel(gHotBatch, j) == ctx.Input.BatchCount
//@     invariant[skipped-without-argument] (forall k Int :: 0 <= k && k < #i ==> tcs[k].ExtractArgs(ctx) == nil) ==> gHotN == n0

// ---- C14: which old controller is kept for a reloaded rule (reflect.DeepEqual on the specific items: uninterpreted, reflexive)
//@ spec func itemsEq(a, b) = (len(a.SpecificItems) == 0 && len(b.SpecificItems) == 0) || deepequal(asiface(a.SpecificItems), asiface(b.SpecificItems))
//@ spec func baseEq(a, b) = a.Resource == b.Resource && a.MetricType == b.MetricType && a.ControlBehavior == b.ControlBehavior && a.ParamsMaxCapacity == b.ParamsMaxCapacity && a.ParamIndex == b.ParamIndex && a.ParamKey == b.ParamKey && a.Threshold == b.Threshold && a.DurationInSec == b.DurationInSec && itemsEq(a, b)
//@ spec func eqRule(a, b) = baseEq(a, b) && ((a.ControlBehavior == Reject && a.BurstCount == b.BurstCount) || (a.ControlBehavior == Throttling && a.MaxQueueingTimeMs == b.MaxQueueingTimeMs))
//@ spec func statReusable(a, b) = a.Resource == b.Resource && a.ControlBehavior == b.ControlBehavior && a.ParamsMaxCapacity == b.ParamsMaxCapacity && a.DurationInSec == b.DurationInSec && a.MetricType == b.MetricType

//@ func (r *Rule) Equals(newRule) res
//@   props C14, C13
//@   requires r != nil && newRule != nil
//@   ensures[def] res <==> eqRule(r, newRule)
//@   ensures[a-rule-without-specific-items-equals-its-reloaded-copy] len(r.SpecificItems) == 0 && len(newRule.SpecificItems) == 0 && r.Resource == newRule.Resource && r.MetricType == newRule.MetricType && r.ControlBehavior == newRule.ControlBehavior && r.ParamsMaxCapacity == newRule.ParamsMaxCapacity && r.ParamIndex == newRule.ParamIndex && r.ParamKey == newRule.ParamKey && r.Threshold == newRule.Threshold && r.DurationInSec == newRule.DurationInSec && r.BurstCount == newRule.BurstCount && r.MaxQueueingTimeMs == newRule.MaxQueueingTimeMs && (r.ControlBehavior == Reject || r.ControlBehavior == Throttling) ==> res
//@   modifies nothing

// (under C05 and C06 too: taking over the counters of a rule with another metric type, parameter or duration lets one
// rule's per-value state shape another rule's traffic)
//@ func (r *Rule) IsStatReusable(newRule) res
//@   props C14, C05, C06
//@   requires r != nil && newRule != nil
//@   ensures[def] res <==> statReusable(r, newRule)
//@   modifies nothing

// equalIdx is the first old controller whose rule equals r (else -1); reuseStatIdx the first statistic-compatible one before it (else -1)
//@ func calculateReuseIndexFor(r, oldResTcs) (equalIdx, reuseStatIdx)
//@   props C14, C13
//@   requires r != nil && (forall j Int :: 0 <= j && j < len(oldResTcs) ==> oldResTcs[j] != nil && oldResTcs[j].BoundRule() != nil)
//@   let n = len(oldResTcs)
//@   ensures[ranges] 0 - 1 <= equalIdx && equalIdx < n && 0 - 1 <= reuseStatIdx && reuseStatIdx < n
//@   ensures[first-equal] equalIdx >= 0 ==> eqRule(oldResTcs[equalIdx].BoundRule(), r) && (forall j Int :: 0 <= j && j < equalIdx ==> !eqRule(oldResTcs[j].BoundRule(), r))
//@   ensures[none-equal] equalIdx < 0 ==> (forall j Int :: 0 <= j && j < n ==> !eqRule(oldResTcs[j].BoundRule(), r))
//@   ensures[first-stat-reusable] reuseStatIdx >= 0 ==> statReusable(oldResTcs[reuseStatIdx].BoundRule(), r) && (forall j Int :: 0 <= j && j < reuseStatIdx ==> !statReusable(oldResTcs[j].BoundRule(), r))
//@   modifies nothing
//@   loop 1:
//@     invariant[no-equal-yet] equalIdx == 0 - 1 && (forall j Int :: 0 <= j && j < #i ==> !eqRule(oldResTcs[j].BoundRule(), r))
//@     invariant[stat-idx] 0 - 1 <= reuseStatIdx && reuseStatIdx < #i && (reuseStatIdx >= 0 ==> statReusable(oldResTcs[reuseStatIdx].BoundRule(), r) && (forall j Int :: 0 <= j && j < reuseStatIdx ==> !statReusable(oldResTcs[j].BoundRule(), r)))
//@     invariant[no-stat-yet] reuseStatIdx < 0 ==> (forall j Int :: 0 <= j && j < #i ==> !statReusable(oldResTcs[j].BoundRule(), r))

// the metric handed to a new / modified rule never comes from a controller that an unchanged rule further down the
// list is going to keep; among the others it is the first statistic-compatible one
//@ func statReuseIndexFor(r, oldResTcs, laterRules) idx
//@   props C14
//@   requires r != nil && (forall j Int :: 0 <= j && j < len(oldResTcs) ==> oldResTcs[j] != nil && oldResTcs[j].BoundRule() != nil) && (forall k Int :: 0 <= k && k < len(laterRules) ==> laterRules[k] != nil)
//@   let n = len(oldResTcs)
//@   ensures[range] 0 - 1 <= idx && idx < n
//@   ensures[stat-compatible] idx >= 0 ==> statReusable(oldResTcs[idx].BoundRule(), r)
//@   ensures[never-a-controller-kept-by-a-later-rule] idx >= 0 ==> (forall k Int :: 0 <= k && k < len(laterRules) ==> !eqRule(oldResTcs[idx].BoundRule(), laterRules[k]))
//@   ensures[first-such] forall j Int :: 0 <= j && j < (idx >= 0 ? idx : n) && statReusable(oldResTcs[j].BoundRule(), r) ==> (exists k Int :: 0 <= k && k < len(laterRules) && eqRule(oldResTcs[j].BoundRule(), laterRules[k]))
//@   modifies nothing
//@   loop 1:
//@     invariant[skipped-are-incompatible-or-kept] forall j Int :: 0 <= j && j < #i && statReusable(oldResTcs[j].BoundRule(), r) ==> (exists k Int :: 0 <= k && k < len(laterRules) && eqRule(oldResTcs[j].BoundRule(), laterRules[k]))
//@   loop 2:
//@     invariant[not-kept-so-far] !kept && (forall k Int :: 0 <= k && k < #i ==> !eqRule(oldRule, laterRules[k]))

// ---- C13: whole-set load. The grouping loop must cope with any element, including nil; the rebuild itself
// (onRuleUpdate) is under a separate contract.
// logging only
//@ func logRuleUpdate(m)
//@   assumed
//@   panics never
//@   modifies nothing

// Whole-set load, called by LoadRules with the update lock held: a NEW table is built and swapped in; nothing that
// existed before — the old table, the lists published in it, the caller's raw lists — is written; the raw map is recorded.
//@ spec func allValidLists(m) = (forall r Str :: has(m, r) ==> allocated(base(m[r]))) && (forall r Str :: forall k Int :: has(m, r) && 0 <= k && k < len(m[r]) ==> validRule(m[r][k]))
//@ func onRuleUpdate(rawResRulesMap) err
//@   props C13, C14
//@   requires[holds-the-update-lock]{C15} wlockcount(updateRuleMux) > 0
//@   requires tcMap != nil && allocated(tcMap)
//@   ensures[raw-recorded] err == nil ==> currentRules == rawResRulesMap
//@   ensures[new-table-swapped-in] err == nil ==> tcMap != nil && fresh(tcMap)
//@   let pub = tcMap
//@   ensures[published-lists-not-rewritten]{C13,C15} forall r Str :: forall k Int :: old(has(pub, r)) && old(allocated(base(pub[r]))) && 0 <= k && k < len(old(pub[r])) ==> old(pub[r])[k] == old(pub[r][k])
//@   modifies tcMap, currentRules
//@   loop 1:
//@     invariant[valid-map-is-new] validResRulesMap != nil && fresh(validResRulesMap) && allValidLists(validResRulesMap)
//@     invariant[nothing-else-written]{seq} frame()
//@     invariant[published-lists-untouched]{conc} forall r Str :: forall k Int :: old(has(pub, r)) && old(allocated(base(pub[r]))) && 0 <= k && k < len(old(pub[r])) ==> old(pub[r])[k] == old(pub[r][k])
//@   loop 2:
//@     invariant[valid-map-is-new] validResRulesMap != nil && fresh(validResRulesMap) && allValidLists(validResRulesMap)
//@     invariant[valid-list-is-new] (cap(validResRules) == 0 || fresh(base(validResRules))) && (forall k Int :: 0 <= k && k < len(validResRules) ==> validRule(validResRules[k]))
//@     invariant[valid-list-is-not-in-the-map-yet] forall r Str :: has(validResRulesMap, r) ==> base(validResRulesMap[r]) != base(validResRules)
//@     invariant[nothing-else-written]{seq} frame()
//@     invariant[published-lists-untouched]{conc} forall r Str :: forall k Int :: old(has(pub, r)) && old(allocated(base(pub[r]))) && 0 <= k && k < len(old(pub[r])) ==> old(pub[r])[k] == old(pub[r][k])
//@   loop 3:
//@     invariant[clone-is-new] tcMapClone != nil && fresh(tcMapClone) && (forall r Str :: has(tcMapClone, r) ==> fresh(base(tcMapClone[r])))
//@     invariant[clone-lists-allocated] forall r Str :: has(tcMapClone, r) ==> allocated(base(tcMapClone[r])) && base(tcMapClone[r]) != 0
//@     invariant[clone-domain] forall r Str :: has(tcMapClone, r) ==> has(tcMap, r) && sel(#seen, r) && len(tcMapClone[r]) == len(tcMap[r])
//@     invariant[clone-is-complete-so-far] forall r Str :: has(tcMap, r) && sel(#seen, r) ==> has(tcMapClone, r)
//@     invariant[clone-lists-are-separate] forall r Str :: forall q Str :: has(tcMapClone, r) && has(tcMapClone, q) && r != q && allocated(base(tcMapClone[r])) && allocated(base(tcMapClone[q])) ==> base(tcMapClone[r]) != base(tcMapClone[q])
//@     invariant[valid-lists] allValidLists(validResRulesMap)
//@     invariant[nothing-else-written]{seq} frame()
//@     invariant[published-lists-untouched]{conc} forall r Str :: forall k Int :: old(has(pub, r)) && old(allocated(base(pub[r]))) && 0 <= k && k < len(old(pub[r])) ==> old(pub[r])[k] == old(pub[r][k])
//@   loop 4:
//@     invariant[new-table] m != nil && fresh(m)
//@     invariant[clone-lists-are-private] forall r Str :: has(tcMapClone, r) ==> fresh(base(tcMapClone[r]))
//@     invariant[clone-lists-allocated] forall r Str :: has(tcMapClone, r) ==> allocated(base(tcMapClone[r])) && base(tcMapClone[r]) != 0
//@     invariant[clone-lists-are-separate] forall r Str :: forall q Str :: has(tcMapClone, r) && has(tcMapClone, q) && r != q && allocated(base(tcMapClone[r])) && allocated(base(tcMapClone[q])) ==> base(tcMapClone[r]) != base(tcMapClone[q])
//@     invariant[clone-domain] forall r Str :: (has(tcMapClone, r) <==> has(tcMap, r)) && (has(tcMap, r) ==> len(tcMapClone[r]) == len(tcMap[r]))
//@     invariant[valid-lists] allValidLists(validResRulesMap)
//@     invariant[nothing-else-written]{seq} frame()
//@     invariant[published-lists-untouched]{conc} forall r Str :: forall k Int :: old(has(pub, r)) && old(allocated(base(pub[r]))) && 0 <= k && k < len(old(pub[r])) ==> old(pub[r])[k] == old(pub[r][k])
//@ func LoadRules(rules) (changed, err)
//@   props C13
//@   objinv tcMap != nil && allocated(tcMap)
//@   panics never
//@   sets gHotLoadN = old(gHotLoadN) + 1
//@   sets gHotLoadArg = rules
//@   ensures[recorded] gHotLoadN == old(gHotLoadN) + 1 && gHotLoadArg == rules
//@   modifies heap, gHotLoadN, gHotLoadArg
//@   witness n = len(rules)
//@   replay loadrules_nil

// ---- loader entry points as seen by the datasource layer (C18): calls are recorded
//@ ghost var gHotLoadN Int
//@ ghost var gHotLoadArg Slice
//@ ghost var gHotClearN Int
//@ func ClearRules() err
//@   assumed
//@   ensures gHotClearN == old(gHotClearN) + 1
//@   modifies gHotClearN

// ---- C15: lock discipline of the rule tables (a load, store or use of the variable outside its lock is a data race)
//@ guarded tcMap by tcMux {C15}
//@ guarded currentRules by updateRuleMux {C15}

// The validator and the controller builder are not under contract here (user-registered generator functions):
// assumed not to write anything that existed before, except that the builder edits the list it is GIVEN in place.
// the validator, field by field
//@ spec func validRule(r) = r != nil && len(r.Resource) > 0 && r.Threshold >= 0 && r.MetricType >= 0 && r.ControlBehavior >= 0 && !(r.MetricType == QPS && r.DurationInSec <= 0) && !(r.ParamIndex > 0 && r.ParamKey != "") && (r.ControlBehavior == Reject ==> r.BurstCount >= 0) && (r.ControlBehavior == Throttling ==> r.MaxQueueingTimeMs >= 0)
//@ func checkControlBehaviorField(rule) err
//@   props C13
//@   requires rule != nil
//@   ensures[iff] err == nil <==> (rule.ControlBehavior == Reject ==> rule.BurstCount >= 0) && (rule.ControlBehavior == Throttling ==> rule.MaxQueueingTimeMs >= 0)
//@   modifies nothing
//@ func IsValidRule(rule) err
//@   props C13
//@   panics never
//@   ensures[iff] err == nil <==> validRule(rule)
//@   modifies nothing
// the controller constructor copies the rule's parameters and leaves the rule object as the caller passed it: the
// loaded rules are recorded (currentRules) and compared with the next load, so a constructor that "normalises" a
// field of the rule makes an identical reload look changed (the pinned tree did: repaired, 53030b8)
// (under C05 and C06 too: the per-value thresholds and the general threshold the checkers read are the ones this
// constructor puts into the controller — a constructor that filters or rewrites them changes what is enforced)
//@ func newBaseTrafficShapingControllerWithMetric(r, metric) c
//@   props C13, C14, C05, C06
//@   requires r != nil
//@   ensures[fresh-controller] c != nil && fresh(c) && c.r == r && c.metric == metric && c.threshold == r.Threshold && c.paramIndex == r.ParamIndex && c.paramKey == r.ParamKey && c.durationInSec == r.DurationInSec && c.metricType == r.MetricType
//@   ensures[specific-items-of-the-rule] r.SpecificItems != nil ==> c.specificItems == r.SpecificItems
//@   ensures[specific-items-never-nil] c.specificItems != nil
//@   ensures[loaded-rule-left-untouched] frame()
//@   modifies nothing

// the controller builder (user-registered generator functions): assumed; it is only ever handed validated rules, and
// it edits the list it is GIVEN in place
//@ func buildResourceTrafficShapingController(res, resRules, oldResTcs) r
//@   assumed
//@   requires[all-valid] forall k Int :: 0 <= k && k < len(resRules) ==> validRule(resRules[k])
//@   panics may
//@   ensures cap(r) == 0 || fresh(base(r))
//@   modifies elems(oldResTcs)

// Per-resource load, called by LoadRulesOfResource with the update lock held: the raw list is recorded whatever it
// contains (so that reported = what was loaded and an identical reload is recognised), a list already published in
// tcMap is never edited again, other resources' entries stay as they are.
//@ func onResourceRuleUpdate(res, rawResRules) err
//@   props C13
//@   requires[holds-the-update-lock]{C15} wlockcount(updateRuleMux) > 0
//@   requires tcMap != nil && currentRules != nil && tcMap != currentRules && allocated(base(tcMap[res]))
//@   let published = tcMap[res]
//@   ensures[published-list-not-rewritten]{C13,C15} forall k Int :: 0 <= k && k < len(published) ==> published[k] == old(published[k])
//@   ensures[raw-recorded] err == nil ==> currentRules[res] == rawResRules
//@   ensures[other-resources-untouched] forall s Str :: s != res ==> has(tcMap, s) == old(has(tcMap, s)) && tcMap[s] == old(tcMap[s])
//@   modifies mapof(tcMap), mapof(currentRules)
//@   loop 1:
//@     invariant[valid-list-is-private] cap(validResRules) == 0 || fresh(base(validResRules))
//@     invariant[only-valid-rules-kept] forall k Int :: 0 <= k && k < len(validResRules) ==> validRule(validResRules[k])
//@     invariant[nothing-written] frame()
//@ lockorder updateRuleMux tcMux {C15}
