//go:build verif

package hotspot

// Contracts for core/hotspot (properties C05, C06, C13, C14).

//@ spec func blocked(r) = r != nil && r.status == base.ResultStatusBlocked
//@ spec func cellOf(c, k) = sel(sel(gCache, dynptr(c)), k)
//@ spec func thrOf(c, arg) = has(c.specificItems, arg) ? c.specificItems[arg] : c.threshold

// ---- C06: per-value concurrency
//@ func (c *baseTrafficShapingController) performCheckingForConcurrencyMetric(arg) r
//@   props C06
//@   requires c != nil && c.metric != nil && c.metric.ConcurrencyCounter != nil
//@   let cnt = c.metric.ConcurrencyCounter
//@   let cellp = cellOf(cnt, arg)
//@   let live = cellp == 0 ? 0 : cell(cellp)
//@   requires cellp != 0 ==> allocated(cellp) && 0 <= cell(cellp) && cell(cellp) < 4611686018427387904
//@   case seen: cellp != 0
//@   case first-sight: cellp == 0
//@   ensures[admit-iff] !blocked(r) <==> live + 1 <= thrOf(c, arg)
//@   ensures[pass-is-nil] !blocked(r) ==> r == nil
//@   ensures[counter-untouched] cellp != 0 ==> cell(cellp) == old(cell(cellp)) && gCache == old(gCache)
//@   ensures[cell-created-zero] cellp == 0 ==> cellOf(cnt, arg) != 0 && cell(cellOf(cnt, arg)) == 0 && fresh(cellOf(cnt, arg))
//@   ensures[other-values-untouched] forall k Iface :: k != arg ==> cellOf(cnt, k) == old(cellOf(cnt, k))
//@   modifies gCache
//@   witness threshold = c.threshold
//@   replay hotspot_concurrency_first
