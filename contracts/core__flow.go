//go:build verif

package flow

// Contracts for core/flow (properties C02, C10, C11, C13, C14).

//@ spec func blocked(r) = r != nil && r.status == base.ResultStatusBlocked

//@ func (d *RejectTrafficShapingChecker) DoCheck(resStat, batchCount, threshold) r
//@   props C02
//@   requires d != nil && d.owner != nil
//@   let m = d.owner.boundStat.readOnlyMetric
//@   ensures[nil-stat] m == nil ==> r == nil
//@   ensures[admit-iff] m != nil ==> (blocked(r) <==> R(old(m.GetSum(base.MetricEventPass))) + R(batchCount) > threshold)
//@   ensures[pass-is-nil] !blocked(r) ==> r == nil
//@   ensures[cause] blocked(r) ==> r.blockErr != nil && r.blockErr.blockType == base.BlockTypeFlow && dynptr(r.blockErr.rule) == ref(d.rule) && fresh(r) && fresh(r.blockErr)
//@   modifies nothing

// ---- protocol ghost state: the sequence of calculator / checker invocations (updated only through interface contracts)
//@ ghost var gCalcN Int
//@ ghost var gCalcRecv (Array Int Int)
//@ ghost var gCalcBatch (Array Int Int)
//@ ghost var gCalcFlag (Array Int Int)
//@ ghost var gCalcRes (Array Int Real)
//@ ghost var gChkN Int
//@ ghost var gChkRecv (Array Int Int)
//@ ghost var gChkStat (Array Int Iface)
//@ ghost var gChkBatch (Array Int Int)
//@ ghost var gChkThr (Array Int Real)
//@ ghost var gChkRes (Array Int Int)
//@ ghost var gChkBlocked (Array Int Bool)
// the wait each check asked for (0 unless its result is "should wait" with a positive wait) and the ghost total of
// nanoseconds slept (slept_ns) at the moment of each check: together they pin down what the slot sleeps between checks
//@ ghost var gChkWait (Array Int Int)
//@ ghost var gChkSlept (Array Int Int)
//@ spec func waitOf(r) = (r != nil && r.status == base.ResultStatusShouldWait && r.nanosToWait > 0) ? r.nanosToWait : 0

//@ iface TrafficShapingCalculator.CalculateAllowedTokens(batchCount, flag) r
//@   ensures gCalcN == old(gCalcN) + 1
//@   ensures gCalcRecv == upd(old(gCalcRecv), old(gCalcN), dynptr(this)) && gCalcBatch == upd(old(gCalcBatch), old(gCalcN), batchCount)
//@   ensures gCalcFlag == upd(old(gCalcFlag), old(gCalcN), flag) && gCalcRes == upd(old(gCalcRes), old(gCalcN), r)
//@   modifies gCalcN, gCalcRecv, gCalcBatch, gCalcFlag, gCalcRes, all(WarmUpTrafficShapingCalculator.storedTokens), all(WarmUpTrafficShapingCalculator.lastFilledTime)

//@ iface TrafficShapingChecker.DoCheck(resStat, batchCount, threshold) r
//@   ensures gChkN == old(gChkN) + 1
//@   ensures gChkRecv == upd(old(gChkRecv), old(gChkN), dynptr(this)) && gChkStat == upd(old(gChkStat), old(gChkN), resStat)
//@   ensures gChkBatch == upd(old(gChkBatch), old(gChkN), batchCount) && gChkThr == upd(old(gChkThr), old(gChkN), threshold)
//@   ensures gChkRes == upd(old(gChkRes), old(gChkN), r) && gChkBlocked == upd(old(gChkBlocked), old(gChkN), blocked(r))
//@   ensures gChkWait == upd(old(gChkWait), old(gChkN), waitOf(r)) && gChkSlept == upd(old(gChkSlept), old(gChkN), slept_ns)
//@   ensures r != nil ==> fresh(r)
//@   modifies gChkN, gChkRecv, gChkStat, gChkBatch, gChkThr, gChkRes, gChkBlocked, gChkWait, gChkSlept, all(ThrottlingChecker.lastPassedTime)

//@ func (t *TrafficShapingController) PerformChecking(resStat, batchCount, flag) r
//@   props C02, C10, C11
//@   requires t != nil && t.rule != nil
//@   ensures[one-calc]  gCalcN == old(gCalcN) + 1 && gCalcRecv == upd(old(gCalcRecv), old(gCalcN), dynptr(old(t.flowCalculator))) && gCalcBatch == upd(old(gCalcBatch), old(gCalcN), batchCount) && gCalcFlag == upd(old(gCalcFlag), old(gCalcN), flag)
//@   ensures[calc-frame] forall j Int :: j != old(gCalcN) ==> sel(gCalcRes, j) == sel(old(gCalcRes), j)
//@   ensures[one-check] gChkN == old(gChkN) + 1 && gChkRecv == upd(old(gChkRecv), old(gChkN), dynptr(old(t.flowChecker))) && gChkBatch == upd(old(gChkBatch), old(gChkN), batchCount) && gChkStat == upd(old(gChkStat), old(gChkN), resStat)
//@   ensures[threshold-is-calculated] gChkThr == upd(old(gChkThr), old(gChkN), sel(gCalcRes, old(gCalcN)))
//@   ensures[result-is-checkers] gChkRes == upd(old(gChkRes), old(gChkN), r) && gChkBlocked == upd(old(gChkBlocked), old(gChkN), blocked(r))
//@   ensures[wait-logged] gChkWait == upd(old(gChkWait), old(gChkN), waitOf(r)) && gChkSlept == upd(old(gChkSlept), old(gChkN), slept_ns)
//@   ensures[fresh-result] r != nil ==> fresh(r)
//@   modifies gCalcN, gCalcRecv, gCalcBatch, gCalcFlag, gCalcRes, all(WarmUpTrafficShapingCalculator.storedTokens), all(WarmUpTrafficShapingCalculator.lastFilledTime), gChkN, gChkRecv, gChkStat, gChkBatch, gChkThr, gChkRes, gChkBlocked, gChkWait, gChkSlept, all(ThrottlingChecker.lastPassedTime)

//@ func (d *DirectTrafficShapingCalculator) CalculateAllowedTokens(batchCount, flag) r
//@   props C02
//@   requires d != nil
//@   ensures[is-threshold] r == d.threshold
//@   modifies nothing

//@ func (s *Slot) Check(ctx) r
//@   props C02, C10
//@   requires ctx != nil && ctx.Resource != nil && ctx.Input != nil && ctx.StatNode != nil && !blocked(ctx.RuleCheckResult)
//@   let tcs = tcMap[ctx.Resource.name]
//@   let n0 = gChkN
//@   requires forall k Int :: 0 <= k && k < len(tcs) ==> tcs[k] != nil && tcs[k].rule != nil
//@   ensures[first-block] blocked(r) ==> gChkN > n0 && r == sel(gChkRes, gChkN - 1) && sel(gChkBlocked, gChkN - 1)
//@   ensures[none-earlier] forall j Int :: n0 <= j && j < gChkN - (blocked(r) ? 1 : 0) ==> !sel(gChkBlocked, j)
//@   ensures[all-consulted] !blocked(r) ==> r == old(ctx.RuleCheckResult) && gChkN == n0 + len(tcs)
//@   ensures[in-order] forall j Int :: n0 <= j && j < gChkN ==> sel(gChkRecv, j) == dynptr(tcs[j - n0].flowChecker) && sel(gChkBatch, j) == ctx.Input.BatchCount
//@   ensures[sleeps-exactly-the-wait]{C10} forall j Int :: n0 <= j && j < gChkN ==> (j + 1 < gChkN ? sel(gChkSlept, j + 1) : slept_ns) == sel(gChkSlept, j) + sel(gChkWait, j)
//@   ensures[no-other-sleep]{C10} (gChkN == n0 ==> slept_ns == old(slept_ns)) && (gChkN > n0 ==> sel(gChkSlept, n0) == old(slept_ns))
//@   loop 1:
//@     invariant[count] gChkN == n0 + #i && #i <= len(tcs)
//@     invariant[no-block-yet] forall j Int :: n0 <= j && j < gChkN ==> !sel(gChkBlocked, j)
//@     invariant[in-order] forall j Int :: n0 <= j && j < gChkN ==> sel(gChkRecv, j) == dynptr(tcs[j - n0].flowChecker) && sel(gChkBatch, j) == ctx.Input.BatchCount
//@     invariant[slept] forall j Int :: n0 <= j && j < gChkN ==> (j + 1 < gChkN ? sel(gChkSlept, j + 1) : slept_ns) == sel(gChkSlept, j) + sel(gChkWait, j)
//@     invariant[slept-first] (gChkN == n0 ==> slept_ns == old(slept_ns)) && (gChkN > n0 ==> sel(gChkSlept, n0) == old(slept_ns))

// ---- which statistic a rule is bound to (C02: "the tokens already admitted in the current bucket-aligned statistic
// window" of interval I, of the rule's own resource or of the referenced resource for an associated rule)
//@ spec func needStat(r) = r.TokenCalculateStrategy == WarmUp || r.ControlBehavior == Reject
// a window of length I slides by the global bucket length whenever I is a whole number of global buckets within the
// global span; otherwise it is one bucket of length I
//@ spec func slidingSamples(I) = (I <= config.GlobalStatisticIntervalMsTotal() && I >= config.GlobalStatisticBucketLengthInMs() && I % config.GlobalStatisticBucketLengthInMs() == 0) ? I / config.GlobalStatisticBucketLengthInMs() : 1
//@ func generateStatFor(rule) (r, err)
//@   props C02
//@   requires rule != nil && nopStat != nil && base.IllegalStatisticParamsError != nil && base.IllegalGlobalStatisticParamsError != nil && base.GlobalStatisticNonReusableError != nil && base.IllegalStatisticParamsError != base.GlobalStatisticNonReusableError && base.IllegalGlobalStatisticParamsError != base.GlobalStatisticNonReusableError
//@   let I = rule.StatIntervalInMs
//@   let dflt = I == 0 || I == config.MetricStatisticIntervalMs()
//@   ensures[no-statistic-needed] !needStat(rule) ==> r == nopStat && err == nil
//@   ensures[result-or-error] needStat(rule) ==> ((r == nil) <==> (err != nil)) && (r != nil ==> fresh(r))
//@   ensures[default-interval-reads-the-resources-own-metric] needStat(rule) && dflt ==> err == nil && r.reuseResourceStat && dynptr(r.readOnlyMetric) == ref(stat.resNodeMap[rule.RelationStrategy == AssociatedResource ? rule.RefResource : rule.Resource].metric)
//@   ensures[shared-window-is-a-view-of-that-resources-array] needStat(rule) && !dflt && err == nil && r.reuseResourceStat ==> cast(dynptr(r.readOnlyMetric), stat_base.SlidingWindowMetric).real == stat.resNodeMap[rule.RelationStrategy == AssociatedResource ? rule.RefResource : rule.Resource].arr && cast(dynptr(r.readOnlyMetric), stat_base.SlidingWindowMetric).intervalInMs == I && cast(dynptr(r.readOnlyMetric), stat_base.SlidingWindowMetric).sampleCount == slidingSamples(I)
//@   ensures[standalone-window-slides-by-global-buckets] needStat(rule) && !dflt && err == nil && !r.reuseResourceStat ==> typeis(r.writeOnlyMetric, "*core/stat/base.BucketLeapArray") && cast(dynptr(r.writeOnlyMetric), stat_base.BucketLeapArray).data.intervalInMs == I && cast(dynptr(r.writeOnlyMetric), stat_base.BucketLeapArray).data.sampleCount == slidingSamples(I) && cast(dynptr(r.readOnlyMetric), stat_base.SlidingWindowMetric).real == cast(dynptr(r.writeOnlyMetric), stat_base.BucketLeapArray) && cast(dynptr(r.readOnlyMetric), stat_base.SlidingWindowMetric).intervalInMs == I

//@ spec func independent(tc) = !tc.boundStat.reuseResourceStat && tc.boundStat.writeOnlyMetric != nil
//@ spec func added(g, m, e) = sel(sel(g, dynptr(m)), e)

//@ func (s StandaloneStatSlot) OnEntryPassed(ctx)
//@   props C02
//@   requires ctx != nil && ctx.Resource != nil && ctx.Input != nil
//@   let tcs = tcMap[ctx.Resource.name]
//@   let b = ctx.Input.BatchCount
//@   requires forall k Int :: 0 <= k && k < len(tcs) ==> tcs[k] != nil
//@   requires[distinct-stats] forall j Int :: forall k Int :: 0 <= j && j < k && k < len(tcs) && independent(tcs[j]) && independent(tcs[k]) ==> dynptr(tcs[j].boundStat.writeOnlyMetric) != dynptr(tcs[k].boundStat.writeOnlyMetric)
//@   ensures[feeds-batch] forall k Int :: 0 <= k && k < len(tcs) && independent(tcs[k]) ==> added(gAdded, tcs[k].boundStat.writeOnlyMetric, base.MetricEventPass) == added(old(gAdded), tcs[k].boundStat.writeOnlyMetric, base.MetricEventPass) + b
//@   ensures[nothing-else] forall p Int :: forall e Int :: (forall k Int :: 0 <= k && k < len(tcs) && independent(tcs[k]) ==> !(p == dynptr(tcs[k].boundStat.writeOnlyMetric) && e == base.MetricEventPass)) ==> sel(sel(gAdded, p), e) == sel(sel(old(gAdded), p), e)
//@   modifies gAdded
//@   loop 1:
//@     invariant[done] forall k Int :: 0 <= k && k < #i && independent(tcs[k]) ==> added(gAdded, tcs[k].boundStat.writeOnlyMetric, base.MetricEventPass) == added(old(gAdded), tcs[k].boundStat.writeOnlyMetric, base.MetricEventPass) + b
//@     invariant[todo] forall k Int :: #i <= k && k < len(tcs) && independent(tcs[k]) ==> added(gAdded, tcs[k].boundStat.writeOnlyMetric, base.MetricEventPass) == added(old(gAdded), tcs[k].boundStat.writeOnlyMetric, base.MetricEventPass)
//@     invariant[others] forall p Int :: forall e Int :: (forall k Int :: 0 <= k && k < len(tcs) && independent(tcs[k]) ==> !(p == dynptr(tcs[k].boundStat.writeOnlyMetric) && e == base.MetricEventPass)) ==> sel(sel(gAdded, p), e) == sel(sel(old(gAdded), p), e)

// ---- C10: throttling checker, sequential clause set (one caller at a time)
//@ spec func waiting(r) = r != nil && r.status == base.ResultStatusShouldWait
// the checker's limits are the rule's, converted to nanoseconds in 64 bits (a queueing limit above 4.29 s must not wrap)
//@ func NewThrottlingChecker(owner, timeoutMs, statIntervalMs) r
//@   props C10, C13, C14
//@   ensures[limits-are-the-rules-in-nanoseconds] r != nil && fresh(r) && r.owner == owner && r.lastPassedTime == 0 && r.maxQueueingTimeNs == timeoutMs * 1000000 && r.statIntervalNs == (statIntervalMs == 0 ? 1000 : statIntervalMs) * 1000000
//@   modifies nothing

//@ func (c *ThrottlingChecker) DoCheck(resStat, batchCount, threshold) r
//@   props C10
// C10 "for any interleaving of concurrent callers", thread-modular part: whatever other callers do to the shared
// timestamp between this caller's atomic accesses, each of its own writes either claims the present for an idle
// checker (CAS from a value whose slot has passed) or moves the timestamp by exactly one interval — forward to book its
// slot, backward to give exactly that slot back; it never overwrites the timestamp with a value computed from a stale read
//@   concurrent C10 and sequential
//@   shared c.lastPassedTime
//@   onwrite[claims-now-or-moves-by-one-interval]{C10} c.lastPassedTime: 0 <= prev && prev < 4611686018427387904 && ok ==> (new == clock_ns && R(prev) + I <= R(clock_ns)) || R(new) == R(prev) + I || R(new) == R(prev) - I
//@   ensures[wait-within-the-queueing-limit]{C10} waiting(r) ==> 0 <= r.nanosToWait && r.nanosToWait <= c.maxQueueingTimeNs
//@   requires c != nil && c.statIntervalNs > 0 && c.statIntervalNs <= 4294967295000000 && c.maxQueueingTimeNs >= 0 && c.maxQueueingTimeNs <= 4294967295000000
//@   requires c.lastPassedTime >= 0 && c.lastPassedTime < 4611686018427387904
//@   let last0 = c.lastPassedTime
//@   let maxQ = c.maxQueueingTimeNs
//@   let I = ceil(R(batchCount) / threshold * R(c.statIntervalNs))
//@   let ok = batchCount > 0 && threshold > 0.0 && R(batchCount) <= threshold
//@   ensures[zero-batch] batchCount == 0 ==> r == nil && c.lastPassedTime == last0
//@   ensures[bad-threshold] batchCount > 0 && (threshold <= 0.0 || R(batchCount) > threshold) ==> blocked(r) && c.lastPassedTime == last0
//@   ensures[reject-iff] ok ==> (blocked(r) <==> last0 + I - clock_ns > maxQ)
//@   ensures[reject-frame] blocked(r) ==> c.lastPassedTime == last0
//@   ensures[spacing] ok && !blocked(r) ==> (last0 + I <= clock_ns && c.lastPassedTime == clock_ns) || (last0 + I > clock_ns && c.lastPassedTime == last0 + I)
//@   ensures[no-bank] ok && !blocked(r) ==> c.lastPassedTime >= clock_ns
//@   ensures[wait] ok && !blocked(r) ==> (r == nil && c.lastPassedTime == clock_ns) || (waiting(r) && clock_ns + r.nanosToWait == max(c.lastPassedTime, clock_ns) && r.nanosToWait <= maxQ && r.nanosToWait >= 0)
//@   modifies c.lastPassedTime

// ---- C11: adaptive thresholds
// memory-adaptive threshold as a function of the memory reading (the property's piecewise-linear envelope)
//@ spec func adaptive(low, high, mlo, mhi, mem) = mem <= mlo ? R(low) : (mem >= mhi ? R(high) : R(high - low) / R(mhi - mlo) * R(mem - mlo) + R(low))
//@ spec func validAdaptive(m) = m.lowMemUsageThreshold > 0 && m.highMemUsageThreshold > 0 && m.highMemUsageThreshold < m.lowMemUsageThreshold && m.memLowWaterMark > 0 && m.memHighWaterMark > m.memLowWaterMark

//@ func (m *MemoryAdaptiveTrafficShapingCalculator) CalculateAllowedTokens(batchCount, flag) r
//@   props C11
//@   requires m != nil && validAdaptive(m)
//@   let mem = system_metric.CurrentMemoryUsage()
//@   ensures[not-retrieved] mem == system_metric.NotRetrievedMemoryValue ==> r == R(m.lowMemUsageThreshold)
//@   ensures[envelope] mem != system_metric.NotRetrievedMemoryValue ==> r == adaptive(m.lowMemUsageThreshold, m.highMemUsageThreshold, m.memLowWaterMark, m.memHighWaterMark, mem)
//@   ensures[low-mark] mem != system_metric.NotRetrievedMemoryValue && mem <= m.memLowWaterMark ==> r == R(m.lowMemUsageThreshold)
//@   ensures[high-mark] mem >= m.memHighWaterMark ==> r == R(m.highMemUsageThreshold)
//@   ensures[between] R(m.highMemUsageThreshold) <= r && r <= R(m.lowMemUsageThreshold)
//@   modifies nothing

//@ lemma adaptive-monotone {C11}: forall low Int :: forall high Int :: forall mlo Int :: forall mhi Int :: forall m1 Int :: forall m2 Int :: 0 < high && high < low && 0 < mlo && mlo < mhi && m1 <= m2 ==> adaptive(low, high, mlo, mhi, m1) >= adaptive(low, high, mlo, mhi, m2)

//@ func NewMemoryAdaptiveTrafficShapingCalculator(owner, r) c
//@   props C11
//@   requires r != nil
//@   ensures[copies] c != nil && fresh(c) && c.lowMemUsageThreshold == r.LowMemUsageThreshold && c.highMemUsageThreshold == r.HighMemUsageThreshold && c.memLowWaterMark == r.MemLowWaterMarkBytes && c.memHighWaterMark == r.MemHighWaterMarkBytes && c.owner == owner
//@   modifies nothing

// warm-up: representation invariant established by the constructor for rules accepted by IsValidRule
//@ spec func wuInv(c) = c.threshold > 0.0 && c.threshold <= 1000000.0 && c.slope >= 0.0 && c.warningToken <= c.maxToken && c.maxToken < 4611686018427387904 && c.coldFactor >= 2

//@ spec func wuSlope(c) = c.slope == R(c.coldFactor - 1) / c.threshold / R(c.maxToken - c.warningToken)
//@ func (c *WarmUpTrafficShapingCalculator) CalculateAllowedTokens(batchCount, flag) r
//@   props C11
//@   requires c != nil && c.owner != nil && wuInv(c) && c.owner.boundStat.readOnlyMetric != nil
//@   requires 0 <= c.storedTokens && c.storedTokens <= c.maxToken && c.lastFilledTime < 4611686018427387904
//@   ensures[bounds] 0.0 < r && r <= c.threshold
//@   ensures[tokens] 0 <= c.storedTokens && c.storedTokens <= c.maxToken
//@   ensures[above-warning] c.storedTokens >= c.warningToken ==> r == 1.0 / (R(c.storedTokens - c.warningToken) * c.slope + 1.0 / c.threshold)
//@   ensures[below-warning] c.storedTokens < c.warningToken ==> r == c.threshold
//@   modifies c.storedTokens, c.lastFilledTime

// the refill step. Above the warning line the bucket is refilled only while demand stays BELOW the cold rate: a second in
// which the admitted requests reached the whole-request cold rate floor(threshold/coldFactor) — all a saturating caller can
// get while the bucket is full — must not refill it, otherwise the bucket never drains and the rule never warms up
//@ func (c *WarmUpTrafficShapingCalculator) coolDownTokens(currentTime, passQps) r
//@   props C11
//@   requires c != nil && wuInv(c) && 0 <= c.storedTokens && c.storedTokens <= c.maxToken && passQps >= 0.0
//@   requires c.lastFilledTime <= currentTime && currentTime < 4611686018427387904
//@   ensures[capped] r <= c.maxToken
// (the whole-request cold rate is written floor(floor(threshold)/coldFactor), which equals floor(threshold/coldFactor)
// for every integer coldFactor >= 1 — the nested-floor identity; stated this way the obligation stays linear for
// the solver, while a bound computed in floats, threshold/coldFactor, still violates it for inexact quotients)
//@   ensures[saturating-demand-does-not-refill-a-cold-bucket] c.storedTokens > c.warningToken && passQps >= R(trunc(c.threshold) / c.coldFactor) ==> r == c.storedTokens
//@   ensures[at-the-warning-line-unchanged] c.storedTokens == c.warningToken ==> r == c.storedTokens
//@   ensures[never-drains-here] r >= c.storedTokens
// the refill itself: below the warning line (and above it under light demand) the bucket gains threshold tokens per
// second of the time that has passed SINCE THE LAST FILL, capped at maxToken
//@   ensures[refill-by-elapsed-time-below-the-warning-line] c.storedTokens < c.warningToken && currentTime - c.lastFilledTime <= 86400000 ==> r == min(c.maxToken, trunc(R(c.storedTokens) + R(currentTime - c.lastFilledTime) * c.threshold / 1000.0))
//@   modifies nothing

// once per second the bucket is refilled for the time since the last fill and charged with the previous second's
// traffic; only then is the fill time advanced (a fill time advanced BEFORE the refill makes the elapsed time zero:
// the bucket never refills and an idle resource restarts at the full threshold)
//@ func (c *WarmUpTrafficShapingCalculator) syncToken(passQps)
//@   props C11
//@   requires c != nil && wuInv(c) && 0 <= c.storedTokens && c.storedTokens <= c.maxToken && passQps >= 0.0
//@   requires c.lastFilledTime < 4611686018427387904
//@   let sec = clock_ms
//@   ensures[same-second-nothing-happens] clock_ms - clock_ms % 1000 <= old(c.lastFilledTime) ==> c.storedTokens == old(c.storedTokens) && c.lastFilledTime == old(c.lastFilledTime)
//@   ensures[new-second-advances-the-fill-time] clock_ms - clock_ms % 1000 > old(c.lastFilledTime) ==> c.lastFilledTime == clock_ms - clock_ms % 1000
//@   ensures[idle-bucket-refills-for-the-whole-idle-time] clock_ms - clock_ms % 1000 > old(c.lastFilledTime) && old(c.storedTokens) < c.warningToken && clock_ms - old(c.lastFilledTime) <= 86400000 ==> c.storedTokens == max(0, min(c.maxToken, trunc(R(old(c.storedTokens)) + R(clock_ms - clock_ms % 1000 - old(c.lastFilledTime)) * c.threshold / 1000.0)) - trunc(passQps))
//@   ensures[bounds-kept] 0 <= c.storedTokens && c.storedTokens <= c.maxToken
//@   modifies c.storedTokens, c.lastFilledTime

// cold start: a full bucket yields threshold/coldFactor when the slope is the one the constructor computes
//@ lemma warmup-cold-start {C11}: forall thr Real :: forall cf Int :: forall mx Int :: forall wn Int :: thr > 0.0 && cf >= 2 && mx > wn ==> 1.0 / (R(mx - wn) * (R(cf - 1) / thr / R(mx - wn)) + 1.0 / thr) == thr / R(cf)

// (the constructor leaves the loaded rule as the caller passed it: later loads are compared with it. The pinned tree
// wrote the default cold factor into the rule: repaired)
//@ func NewWarmUpTrafficShapingCalculator(owner, rule) r
//@   props C11
//@   requires rule != nil && rule.Threshold >= 0.0 && rule.WarmUpPeriodSec > 0 && rule.WarmUpColdFactor != 1
//@   requires rule.Threshold <= 1000000.0
//@   let cf = rule.WarmUpColdFactor <= 1 ? config.DefaultWarmUpColdFactor : rule.WarmUpColdFactor
//@   case regular: rule.Threshold > 0.0 && cf < 4294967295 && 2.0 * R(rule.WarmUpPeriodSec) * rule.Threshold >= R(1 + cf)
//@   case degenerate: !(rule.Threshold > 0.0 && cf < 4294967295 && 2.0 * R(rule.WarmUpPeriodSec) * rule.Threshold >= R(1 + cf))
//@   witness threshold = rule.Threshold
//@   witness period = rule.WarmUpPeriodSec
//@   witness coldFactor = rule.WarmUpColdFactor
//@   replay flow_warmup_new
//@   ensures[is-warmup] typeis(r, "*core/flow.WarmUpTrafficShapingCalculator")
//@   ensures[inv] wuInv(cast(dynptr(r), WarmUpTrafficShapingCalculator))
//@   ensures[cold-start-slope] wuSlope(cast(dynptr(r), WarmUpTrafficShapingCalculator))
//@   ensures[empty-bucket] cast(dynptr(r), WarmUpTrafficShapingCalculator).storedTokens == 0
//@   ensures[warning-line-and-cap-from-the-effective-cold-factor] rule.Threshold > 0.0 && cf < 4294967295 && 2.0 * R(rule.WarmUpPeriodSec) * rule.Threshold >= R(1 + cf) ==> cast(dynptr(r), WarmUpTrafficShapingCalculator).coldFactor == cf && cast(dynptr(r), WarmUpTrafficShapingCalculator).warningToken == trunc(R(rule.WarmUpPeriodSec) * rule.Threshold / R(cf - 1)) && cast(dynptr(r), WarmUpTrafficShapingCalculator).maxToken == cast(dynptr(r), WarmUpTrafficShapingCalculator).warningToken + trunc(2.0 * R(rule.WarmUpPeriodSec) * rule.Threshold / R(1 + cf)) && cast(dynptr(r), WarmUpTrafficShapingCalculator).threshold == rule.Threshold
//@   ensures[loaded-rule-left-untouched]{C11,C13,C14} frame()
//@   modifies nothing

// ---- C13: whole-set load. The grouping loop must cope with any element, including nil; the rebuild itself
// (onRuleUpdate) is under a separate contract.
// logging only
//@ func logRuleUpdate(m)
//@   assumed
//@   panics never
//@   modifies nothing

// Whole-set load, called by LoadRules with the update lock held: a NEW table is built and swapped in; nothing that
// existed before — the old table, the lists published in it, the caller's raw lists — is written (requests that hold
// an old list keep reading it); the raw map is recorded.
//@ spec func allValidLists(m) = (forall r Str :: has(m, r) ==> allocated(base(m[r]))) && (forall r Str :: forall k Int :: has(m, r) && 0 <= k && k < len(m[r]) ==> validRule(m[r][k]))
//@ func onRuleUpdate(rawResRulesMap) err
//@   props C13, C14
//@   requires[holds-the-update-lock]{C15} wlockcount(updateRuleMux) > 0
//@   requires tcMap != nil && allocated(tcMap)
//@   ensures[raw-recorded] err == nil ==> currentRules == rawResRulesMap
//@   ensures[new-table-swapped-in] err == nil ==> tcMap != nil && fresh(tcMap)
//@   let pub = tcMap
//@   ensures[published-lists-not-rewritten]{C13,C15} forall r Str :: forall k Int :: old(has(pub, r)) && old(allocated(base(pub[r]))) && 0 <= k && k < len(old(pub[r])) ==> old(pub[r])[k] == old(pub[r][k])
//@   modifies tcMap, currentRules
//@   loop 1:
//@     invariant[valid-map-is-new] validResRulesMap != nil && fresh(validResRulesMap) && allValidLists(validResRulesMap)
//@     invariant[nothing-else-written]{seq} frame()
//@     invariant[published-lists-untouched]{conc} forall r Str :: forall k Int :: old(has(pub, r)) && old(allocated(base(pub[r]))) && 0 <= k && k < len(old(pub[r])) ==> old(pub[r])[k] == old(pub[r][k])
//@   loop 2:
//@     invariant[valid-map-is-new] validResRulesMap != nil && fresh(validResRulesMap) && allValidLists(validResRulesMap)
//@     invariant[valid-list-is-new] (cap(validResRules) == 0 || fresh(base(validResRules))) && (forall k Int :: 0 <= k && k < len(validResRules) ==> validRule(validResRules[k]))
//@     invariant[valid-list-is-not-in-the-map-yet] forall r Str :: has(validResRulesMap, r) ==> base(validResRulesMap[r]) != base(validResRules)
//@     invariant[nothing-else-written]{seq} frame()
//@     invariant[published-lists-untouched]{conc} forall r Str :: forall k Int :: old(has(pub, r)) && old(allocated(base(pub[r]))) && 0 <= k && k < len(old(pub[r])) ==> old(pub[r])[k] == old(pub[r][k])
//@   loop 3:
//@     invariant[clone-is-new] tcMapClone != nil && fresh(tcMapClone) && (forall r Str :: has(tcMapClone, r) ==> fresh(base(tcMapClone[r])))
//@     invariant[clone-lists-allocated] forall r Str :: has(tcMapClone, r) ==> allocated(base(tcMapClone[r])) && base(tcMapClone[r]) != 0
//@     invariant[clone-domain] forall r Str :: has(tcMapClone, r) ==> has(tcMap, r) && sel(#seen, r) && len(tcMapClone[r]) == len(tcMap[r])
//@     invariant[clone-is-complete-so-far] forall r Str :: has(tcMap, r) && sel(#seen, r) ==> has(tcMapClone, r)
//@     invariant[clone-lists-are-separate] forall r Str :: forall q Str :: has(tcMapClone, r) && has(tcMapClone, q) && r != q && allocated(base(tcMapClone[r])) && allocated(base(tcMapClone[q])) ==> base(tcMapClone[r]) != base(tcMapClone[q])
//@     invariant[valid-lists] allValidLists(validResRulesMap)
//@     invariant[clone-lists-are-not-rule-lists] forall r Str :: forall q Str :: has(tcMapClone, r) && has(validResRulesMap, q) ==> base(tcMapClone[r]) != base(validResRulesMap[q])
//@     invariant[nothing-else-written]{seq} frame()
//@     invariant[published-lists-untouched]{conc} forall r Str :: forall k Int :: old(has(pub, r)) && old(allocated(base(pub[r]))) && 0 <= k && k < len(old(pub[r])) ==> old(pub[r])[k] == old(pub[r][k])
//@   loop 4:
//@     invariant[new-table] m != nil && fresh(m)
//@     invariant[clone-lists-are-private] forall r Str :: has(tcMapClone, r) ==> fresh(base(tcMapClone[r]))
//@     invariant[clone-lists-allocated] forall r Str :: has(tcMapClone, r) ==> allocated(base(tcMapClone[r])) && base(tcMapClone[r]) != 0
//@     invariant[clone-lists-are-separate] forall r Str :: forall q Str :: has(tcMapClone, r) && has(tcMapClone, q) && r != q && allocated(base(tcMapClone[r])) && allocated(base(tcMapClone[q])) ==> base(tcMapClone[r]) != base(tcMapClone[q])
//@     invariant[clone-domain] forall r Str :: (has(tcMapClone, r) <==> has(tcMap, r)) && (has(tcMap, r) ==> len(tcMapClone[r]) == len(tcMap[r]))
//@     invariant[clone-lists-are-not-rule-lists] forall r Str :: forall q Str :: has(tcMapClone, r) && has(validResRulesMap, q) ==> base(tcMapClone[r]) != base(validResRulesMap[q])
//@     invariant[valid-lists] allValidLists(validResRulesMap)
//@     invariant[nothing-else-written]{seq} frame()
//@     invariant[published-lists-untouched]{conc} forall r Str :: forall k Int :: old(has(pub, r)) && old(allocated(base(pub[r]))) && 0 <= k && k < len(old(pub[r])) ==> old(pub[r])[k] == old(pub[r][k])
//@ func LoadRules(rules) (changed, err)
//@   props C13
//@   objinv tcMap != nil && allocated(tcMap)
//@   panics never
//@   sets gFlowLoadN = old(gFlowLoadN) + 1
//@   sets gFlowLoadArg = rules
//@   ensures[recorded] gFlowLoadN == old(gFlowLoadN) + 1 && gFlowLoadArg == rules
//@   modifies heap, gFlowLoadN, gFlowLoadArg
//@   witness n = len(rules)
//@   replay loadrules_nil

// ---- C14: which old controller is kept for a reloaded rule
//@ spec func needStat(r) = r.TokenCalculateStrategy == WarmUp || r.ControlBehavior == Reject
//@ spec func sameButThreshold(a, b) = a.Resource == b.Resource && a.RelationStrategy == b.RelationStrategy && a.RefResource == b.RefResource && a.StatIntervalInMs == b.StatIntervalInMs && a.TokenCalculateStrategy == b.TokenCalculateStrategy && a.ControlBehavior == b.ControlBehavior && a.MaxQueueingTimeMs == b.MaxQueueingTimeMs && a.WarmUpPeriodSec == b.WarmUpPeriodSec && a.WarmUpColdFactor == b.WarmUpColdFactor && a.LowMemUsageThreshold == b.LowMemUsageThreshold && a.HighMemUsageThreshold == b.HighMemUsageThreshold && a.MemLowWaterMarkBytes == b.MemLowWaterMarkBytes && a.MemHighWaterMarkBytes == b.MemHighWaterMarkBytes
//@ spec func eqRule(a, b) = b != nil && sameButThreshold(a, b) && abs(a.Threshold - b.Threshold) < util.precision
//@ spec func statReusable(a, b) = b != nil && a.Resource == b.Resource && a.RelationStrategy == b.RelationStrategy && a.RefResource == b.RefResource && a.StatIntervalInMs == b.StatIntervalInMs && needStat(a) && needStat(b)

//@ func (r *Rule) isEqualsTo(newRule) res
//@   props C14, C13, C10
//@   requires r != nil
//@   ensures[def] res <==> eqRule(r, newRule)
//@   ensures[identical-rules-are-equal] newRule != nil && sameButThreshold(r, newRule) && r.Threshold == newRule.Threshold ==> res
//@   modifies nothing

// (under C02 too: a rule that takes over the statistic of a rule reading another resource's window meters the wrong
// resource — whether two rules may share a statistic is part of 'counts the tokens of the resource the rule names')
//@ func (r *Rule) isStatReusable(newRule) res
//@   props C14, C02
//@   requires r != nil
//@   ensures[def] res <==> statReusable(r, newRule)
//@   modifies nothing

// equalIdx is the first old controller whose rule equals r (else -1); reuseStatIdx the first statistic-compatible
// one before it (else -1)
//@ func calculateReuseIndexFor(r, oldResTcs) (equalIdx, reuseStatIdx)
//@   props C14, C13, C10
//@   requires forall j Int :: 0 <= j && j < len(oldResTcs) ==> oldResTcs[j] != nil && oldResTcs[j].rule != nil
//@   let n = len(oldResTcs)
//@   ensures[ranges] 0 - 1 <= equalIdx && equalIdx < n && 0 - 1 <= reuseStatIdx && reuseStatIdx < n
//@   ensures[first-equal] equalIdx >= 0 ==> eqRule(oldResTcs[equalIdx].rule, r) && (forall j Int :: 0 <= j && j < equalIdx ==> !eqRule(oldResTcs[j].rule, r))
//@   ensures[none-equal] equalIdx < 0 ==> (forall j Int :: 0 <= j && j < n ==> !eqRule(oldResTcs[j].rule, r))
//@   ensures[first-stat-reusable] reuseStatIdx >= 0 ==> statReusable(oldResTcs[reuseStatIdx].rule, r) && (forall j Int :: 0 <= j && j < reuseStatIdx ==> !statReusable(oldResTcs[j].rule, r))
//@   ensures[none-stat-reusable] reuseStatIdx < 0 ==> (forall j Int :: 0 <= j && j < (equalIdx >= 0 ? equalIdx : n) ==> !statReusable(oldResTcs[j].rule, r))
//@   modifies nothing
//@   loop 1:
//@     invariant[no-equal-yet] equalIdx == 0 - 1 && (forall j Int :: 0 <= j && j < #i ==> !eqRule(oldResTcs[j].rule, r))
//@     invariant[stat-idx] 0 - 1 <= reuseStatIdx && reuseStatIdx < #i && (reuseStatIdx >= 0 ==> statReusable(oldResTcs[reuseStatIdx].rule, r) && (forall j Int :: 0 <= j && j < reuseStatIdx ==> !statReusable(oldResTcs[j].rule, r)))
//@     invariant[no-stat-yet] reuseStatIdx < 0 ==> (forall j Int :: 0 <= j && j < #i ==> !statReusable(oldResTcs[j].rule, r))

// the statistic handed to a new / modified rule never comes from a controller that an unchanged rule further down
// the list is going to keep (that controller would otherwise be dropped from the candidates and the unchanged rule
// rebuilt, losing its state); among the others it is the first statistic-compatible one
//@ func statReuseIndexFor(r, oldResTcs, laterRules) idx
//@   props C14
//@   requires forall j Int :: 0 <= j && j < len(oldResTcs) ==> oldResTcs[j] != nil && oldResTcs[j].rule != nil
//@   let n = len(oldResTcs)
//@   ensures[range] 0 - 1 <= idx && idx < n
//@   ensures[stat-compatible] idx >= 0 ==> statReusable(oldResTcs[idx].rule, r)
//@   ensures[never-a-controller-kept-by-a-later-rule] idx >= 0 ==> (forall k Int :: 0 <= k && k < len(laterRules) ==> !eqRule(oldResTcs[idx].rule, laterRules[k]))
//@   ensures[first-such] forall j Int :: 0 <= j && j < (idx >= 0 ? idx : n) && statReusable(oldResTcs[j].rule, r) ==> (exists k Int :: 0 <= k && k < len(laterRules) && eqRule(oldResTcs[j].rule, laterRules[k]))
//@   modifies nothing
//@   loop 1:
//@     invariant[skipped-are-incompatible-or-kept] forall j Int :: 0 <= j && j < #i && statReusable(oldResTcs[j].rule, r) ==> (exists k Int :: 0 <= k && k < len(laterRules) && eqRule(oldResTcs[j].rule, laterRules[k]))
//@   loop 2:
//@     invariant[not-kept-so-far] !kept && (forall k Int :: 0 <= k && k < #i ==> !eqRule(oldRule, laterRules[k]))

// ---- loader entry points as seen by the datasource layer (C18): calls are recorded
//@ ghost var gFlowLoadN Int
//@ ghost var gFlowLoadArg Slice
//@ ghost var gFlowClearN Int
//@ func ClearRules() err
//@   assumed
//@   ensures gFlowClearN == old(gFlowClearN) + 1
//@   modifies gFlowClearN

// ---- C15: lock discipline of the rule tables (a load, store or use of the variable outside its lock is a data race)
//@ guarded tcMap by tcMux {C15}
//@ guarded currentRules by updateRuleMux {C15}

// The validator and the controller builder are not under contract here (floats, user-registered generator functions):
// assumed not to write anything that existed before, except that the builder edits the list it is GIVEN in place.
// the validator, field by field (string emptiness through the uninterpreted length; int32 conversions as written)
//@ spec func validMemAdaptive(r) = r.LowMemUsageThreshold > 0 && r.HighMemUsageThreshold > 0 && r.HighMemUsageThreshold < r.LowMemUsageThreshold && r.MemLowWaterMarkBytes > 0 && r.MemHighWaterMarkBytes > 0 && r.MemHighWaterMarkBytes <= int64(system_metric.TotalMemorySize) && r.MemLowWaterMarkBytes < r.MemHighWaterMarkBytes
//@ spec func validRule(r) = r != nil && r.Resource != "" && r.Threshold >= 0.0 && int32(r.TokenCalculateStrategy) >= 0 && int32(r.ControlBehavior) >= 0 && r.RelationStrategy >= CurrentResource && r.RelationStrategy <= AssociatedResource && !(r.RelationStrategy == AssociatedResource && r.RefResource == "") && (r.TokenCalculateStrategy == WarmUp ==> r.WarmUpPeriodSec > 0 && r.WarmUpColdFactor != 1) && (r.TokenCalculateStrategy == MemoryAdaptive ==> validMemAdaptive(r))
//@ func IsValidRule(rule) err
//@   props C13
//@   objinv system_metric.TotalMemorySize < 9223372036854775808
//@   panics never
//@   ensures[iff] err == nil <==> validRule(rule)
//@   modifies nothing
// the controller builder (user-registered generator functions): assumed; it is only ever handed validated rules, and
// it edits the list it is GIVEN in place
//@ func buildResourceTrafficShapingController(res, rulesOfRes, oldResTcs) r
//@   assumed
//@   requires[all-valid] forall k Int :: 0 <= k && k < len(rulesOfRes) ==> validRule(rulesOfRes[k])
//@   panics may
//@   ensures cap(r) == 0 || fresh(base(r))
//@   modifies elems(oldResTcs)

// Per-resource load, called by LoadRulesOfResource with the update lock held. A list that has been published in
// tcMap is never edited again (requests that took it under the read lock keep reading it without a lock: C15
// "decided entirely by the old or the new list"); other resources' entries stay as they are; the raw list is recorded.
//@ func onResourceRuleUpdate(res, rawResRules) err
//@   props C13
//@   requires[holds-the-update-lock]{C15} wlockcount(updateRuleMux) > 0
//@   requires tcMap != nil && currentRules != nil && tcMap != currentRules && allocated(base(tcMap[res]))
//@   let published = tcMap[res]
//@   ensures[published-list-not-rewritten]{C13,C15} forall k Int :: 0 <= k && k < len(published) ==> published[k] == old(published[k])
//@   ensures[raw-recorded] err == nil ==> currentRules[res] == rawResRules
//@   ensures[other-resources-untouched] forall s Str :: s != res ==> has(tcMap, s) == old(has(tcMap, s)) && tcMap[s] == old(tcMap[s])
//@   modifies mapof(tcMap), mapof(currentRules)
//@   loop 1:
//@     invariant[valid-list-is-private] cap(validResRules) == 0 || fresh(base(validResRules))
//@     invariant[only-valid-rules-kept] forall k Int :: 0 <= k && k < len(validResRules) ==> validRule(validResRules[k])
//@     invariant[nothing-written] frame()
//@ lockorder updateRuleMux tcMux {C15}
