//go:build verif

package flow

// Contracts for core/flow (properties C02, C10, C11, C13, C14).

//@ spec func blocked(r) = r != nil && r.status == base.ResultStatusBlocked

//@ func (d *RejectTrafficShapingChecker) DoCheck(resStat, batchCount, threshold) r
//@   props C02
//@   requires d != nil && d.owner != nil
//@   let m = d.owner.boundStat.readOnlyMetric
//@   ensures[nil-stat] m == nil ==> r == nil
//@   ensures[admit-iff] m != nil ==> (blocked(r) <==> R(old(m.GetSum(base.MetricEventPass))) + R(batchCount) > threshold)
//@   ensures[pass-is-nil] !blocked(r) ==> r == nil
//@   ensures[cause] blocked(r) ==> r.blockErr != nil && r.blockErr.blockType == base.BlockTypeFlow && dynptr(r.blockErr.rule) == ref(d.rule) && fresh(r) && fresh(r.blockErr)
//@   modifies nothing

// ---- protocol ghost state: the sequence of calculator / checker invocations (updated only through interface contracts)
//@ ghost var gCalcN Int
//@ ghost var gCalcRecv (Array Int Int)
//@ ghost var gCalcBatch (Array Int Int)
//@ ghost var gCalcFlag (Array Int Int)
//@ ghost var gCalcRes (Array Int Real)
//@ ghost var gChkN Int
//@ ghost var gChkRecv (Array Int Int)
//@ ghost var gChkStat (Array Int Iface)
//@ ghost var gChkBatch (Array Int Int)
//@ ghost var gChkThr (Array Int Real)
//@ ghost var gChkRes (Array Int Int)
//@ ghost var gChkBlocked (Array Int Bool)

//@ iface TrafficShapingCalculator.CalculateAllowedTokens(batchCount, flag) r
//@   ensures gCalcN == old(gCalcN) + 1
//@   ensures gCalcRecv == upd(old(gCalcRecv), old(gCalcN), dynptr(this)) && gCalcBatch == upd(old(gCalcBatch), old(gCalcN), batchCount)
//@   ensures gCalcFlag == upd(old(gCalcFlag), old(gCalcN), flag) && gCalcRes == upd(old(gCalcRes), old(gCalcN), r)
//@   modifies gCalcN, gCalcRecv, gCalcBatch, gCalcFlag, gCalcRes, all(WarmUpTrafficShapingCalculator.storedTokens), all(WarmUpTrafficShapingCalculator.lastFilledTime)

//@ iface TrafficShapingChecker.DoCheck(resStat, batchCount, threshold) r
//@   ensures gChkN == old(gChkN) + 1
//@   ensures gChkRecv == upd(old(gChkRecv), old(gChkN), dynptr(this)) && gChkStat == upd(old(gChkStat), old(gChkN), resStat)
//@   ensures gChkBatch == upd(old(gChkBatch), old(gChkN), batchCount) && gChkThr == upd(old(gChkThr), old(gChkN), threshold)
//@   ensures gChkRes == upd(old(gChkRes), old(gChkN), r) && gChkBlocked == upd(old(gChkBlocked), old(gChkN), blocked(r))
//@   ensures r != nil ==> fresh(r)
//@   modifies gChkN, gChkRecv, gChkStat, gChkBatch, gChkThr, gChkRes, gChkBlocked, all(ThrottlingChecker.lastPassedTime)

//@ func (t *TrafficShapingController) PerformChecking(resStat, batchCount, flag) r
//@   props C02, C10, C11
//@   requires t != nil && t.rule != nil
//@   ensures[one-calc]  gCalcN == old(gCalcN) + 1 && gCalcRecv == upd(old(gCalcRecv), old(gCalcN), dynptr(old(t.flowCalculator))) && gCalcBatch == upd(old(gCalcBatch), old(gCalcN), batchCount) && gCalcFlag == upd(old(gCalcFlag), old(gCalcN), flag)
//@   ensures[calc-frame] forall j Int :: j != old(gCalcN) ==> sel(gCalcRes, j) == sel(old(gCalcRes), j)
//@   ensures[one-check] gChkN == old(gChkN) + 1 && gChkRecv == upd(old(gChkRecv), old(gChkN), dynptr(old(t.flowChecker))) && gChkBatch == upd(old(gChkBatch), old(gChkN), batchCount) && gChkStat == upd(old(gChkStat), old(gChkN), resStat)
//@   ensures[threshold-is-calculated] gChkThr == upd(old(gChkThr), old(gChkN), sel(gCalcRes, old(gCalcN)))
//@   ensures[result-is-checkers] gChkRes == upd(old(gChkRes), old(gChkN), r) && gChkBlocked == upd(old(gChkBlocked), old(gChkN), blocked(r))
//@   ensures[fresh-result] r != nil ==> fresh(r)
//@   modifies gCalcN, gCalcRecv, gCalcBatch, gCalcFlag, gCalcRes, all(WarmUpTrafficShapingCalculator.storedTokens), all(WarmUpTrafficShapingCalculator.lastFilledTime), gChkN, gChkRecv, gChkStat, gChkBatch, gChkThr, gChkRes, gChkBlocked, all(ThrottlingChecker.lastPassedTime)

//@ func (d *DirectTrafficShapingCalculator) CalculateAllowedTokens(batchCount, flag) r
//@   props C02
//@   requires d != nil
//@   ensures[is-threshold] r == d.threshold
//@   modifies nothing

//@ func (s *Slot) Check(ctx) r
//@   props C02, C10
//@   requires ctx != nil && ctx.Resource != nil && ctx.Input != nil && ctx.StatNode != nil && !blocked(ctx.RuleCheckResult)
//@   let tcs = tcMap[ctx.Resource.name]
//@   let n0 = gChkN
//@   requires forall k Int :: 0 <= k && k < len(tcs) ==> tcs[k] != nil && tcs[k].rule != nil
//@   ensures[first-block] blocked(r) ==> gChkN > n0 && r == sel(gChkRes, gChkN - 1) && sel(gChkBlocked, gChkN - 1)
//@   ensures[none-earlier] forall j Int :: n0 <= j && j < gChkN - (blocked(r) ? 1 : 0) ==> !sel(gChkBlocked, j)
//@   ensures[all-consulted] !blocked(r) ==> r == old(ctx.RuleCheckResult) && gChkN == n0 + len(tcs)
//@   ensures[in-order] forall j Int :: n0 <= j && j < gChkN ==> sel(gChkRecv, j) == dynptr(tcs[j - n0].flowChecker) && sel(gChkBatch, j) == ctx.Input.BatchCount
//@   loop 1:
//@     invariant[count] gChkN == n0 + #i && #i <= len(tcs)
//@     invariant[no-block-yet] forall j Int :: n0 <= j && j < gChkN ==> !sel(gChkBlocked, j)
//@     invariant[in-order] forall j Int :: n0 <= j && j < gChkN ==> sel(gChkRecv, j) == dynptr(tcs[j - n0].flowChecker) && sel(gChkBatch, j) == ctx.Input.BatchCount

//@ spec func independent(tc) = !tc.boundStat.reuseResourceStat && tc.boundStat.writeOnlyMetric != nil
//@ spec func added(g, m, e) = sel(sel(g, dynptr(m)), e)

//@ func (s StandaloneStatSlot) OnEntryPassed(ctx)
//@   props C02
//@   requires ctx != nil && ctx.Resource != nil && ctx.Input != nil
//@   let tcs = tcMap[ctx.Resource.name]
//@   let b = ctx.Input.BatchCount
//@   requires forall k Int :: 0 <= k && k < len(tcs) ==> tcs[k] != nil
//@   requires[distinct-stats] forall j Int :: forall k Int :: 0 <= j && j < k && k < len(tcs) && independent(tcs[j]) && independent(tcs[k]) ==> dynptr(tcs[j].boundStat.writeOnlyMetric) != dynptr(tcs[k].boundStat.writeOnlyMetric)
//@   ensures[feeds-batch] forall k Int :: 0 <= k && k < len(tcs) && independent(tcs[k]) ==> added(gAdded, tcs[k].boundStat.writeOnlyMetric, base.MetricEventPass) == added(old(gAdded), tcs[k].boundStat.writeOnlyMetric, base.MetricEventPass) + b
//@   ensures[nothing-else] forall p Int :: forall e Int :: (forall k Int :: 0 <= k && k < len(tcs) && independent(tcs[k]) ==> !(p == dynptr(tcs[k].boundStat.writeOnlyMetric) && e == base.MetricEventPass)) ==> sel(sel(gAdded, p), e) == sel(sel(old(gAdded), p), e)
//@   modifies gAdded
//@   loop 1:
//@     invariant[done] forall k Int :: 0 <= k && k < #i && independent(tcs[k]) ==> added(gAdded, tcs[k].boundStat.writeOnlyMetric, base.MetricEventPass) == added(old(gAdded), tcs[k].boundStat.writeOnlyMetric, base.MetricEventPass) + b
//@     invariant[todo] forall k Int :: #i <= k && k < len(tcs) && independent(tcs[k]) ==> added(gAdded, tcs[k].boundStat.writeOnlyMetric, base.MetricEventPass) == added(old(gAdded), tcs[k].boundStat.writeOnlyMetric, base.MetricEventPass)
//@     invariant[others] forall p Int :: forall e Int :: (forall k Int :: 0 <= k && k < len(tcs) && independent(tcs[k]) ==> !(p == dynptr(tcs[k].boundStat.writeOnlyMetric) && e == base.MetricEventPass)) ==> sel(sel(gAdded, p), e) == sel(sel(old(gAdded), p), e)
