//go:build verif

package system_metric

// The latest collected readings are inputs of the properties; reading them has no effect.
//@ func CurrentMemoryUsage() r
//@   pure
//@   assumed
//@ func CurrentLoad() r
//@   pure
//@   assumed
//@ func CurrentCpuUsage() r
//@   pure
//@   assumed
