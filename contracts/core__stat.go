//go:build verif

package stat

// Contracts for core/stat. The readings of a statistic node are functions of the recorded history; how they relate
// to the sliding window is property C08, here they are pure reads.

//@ func (n *BaseStatNode) GetQPS(event) r
//@   pure
//@   assumed
//@ func (n *BaseStatNode) GetMaxAvg(event) r
//@   pure
//@   assumed
//@   ensures r >= 0.0
//@ func (n *BaseStatNode) AvgRT() r
//@   pure
//@   assumed
//@ func (n *BaseStatNode) MinRT() r
//@   pure
//@   assumed
//@   ensures r >= 0.0
