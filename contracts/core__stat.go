//go:build verif

package stat

// Contracts for core/stat. The readings of a statistic node are functions of the recorded history; how they relate
// to the sliding window is property C08, here they are pure reads.

//@ func (n *BaseStatNode) GetQPS(event) r
//@   pure
//@   assumed
//@ func (n *BaseStatNode) GetMaxAvg(event) r
//@   pure
//@   props C08
//@   objinv n != nil && n.metric != nil && n.intervalMs > 0 && viewOK(n.metric) && validEvent(event) && bucketsOK(n.metric.real.data, event)
//@   ensures r >= 0.0
//@   ensures[per-second-peak] r == R(n.metric.GetMaxOfSingleBucket(event)) * R(n.sampleCount) / R(n.intervalMs) * 1000.0
//@   modifies nothing
//@ func (n *BaseStatNode) AvgRT() r
//@   pure
//@   props C08
//@   objinv n != nil && n.metric != nil
//@   ensures[guarded] n.metric.GetSum(base.MetricEventComplete) <= 0 ==> r == 0.0
//@   ensures[truncated-mean] n.metric.GetSum(base.MetricEventComplete) > 0 ==> r == R(n.metric.GetSum(base.MetricEventRt) / n.metric.GetSum(base.MetricEventComplete))
//@   modifies nothing
//@ func (n *BaseStatNode) MinRT() r
//@   pure
//@   assumed
//@   ensures r >= 0.0
// the node's peak concurrency is the peak of the node's OWN window (its view), not of everything the array retains
//@ func (n *BaseStatNode) MaxConcurrency() r
//@   props C08
//@   requires n != nil && n.metric != nil && viewOK(n.metric) && bucketsOK(n.metric.real.data, base.MetricEventPass)
//@   ensures[read-through-the-nodes-own-window] r == n.metric.MaxConcurrency()
//@   modifies nothing

// ---- C01: the statistic slot records every outcome exactly once, on the entered resource and, for inbound
// traffic, on the inbound total; nothing else changes
//@ spec func tot(g, p, e) = sel(sel(g, p), e)
//@ spec func slotCtxOK(ctx) = ctx != nil && ctx.Input != nil && ctx.Resource != nil && dynptr(ctx.StatNode) != ref(inboundNode) && inboundNode != nil
//@ spec func isInbound(ctx) = ctx.Resource.flowType == base.Inbound
//@ spec func counted(ctx, p) = (ctx.StatNode != nil && p == dynptr(ctx.StatNode)) || (isInbound(ctx) && p == ref(inboundNode))

//@ func (s *Slot) OnEntryPassed(ctx)
//@   props C01, C02, C04, C07
//@   requires slotCtxOK(ctx)
//@   ensures[pass-tokens] forall p Int :: forall e Int :: tot(gAdded, p, e) == tot(old(gAdded), p, e) + (counted(ctx, p) && e == base.MetricEventPass ? ctx.Input.BatchCount : 0)
//@   ensures[in-flight] forall p Int :: sel(gConc, p) == sel(old(gConc), p) + (counted(ctx, p) ? 1 : 0)
//@   modifies gAdded, gConc

//@ func (s *Slot) OnEntryBlocked(ctx, blockError)
//@   props C01, C02, C04, C07
//@   requires slotCtxOK(ctx) && blockError != nil
//@   ensures[block-tokens] forall p Int :: forall e Int :: tot(gAdded, p, e) == tot(old(gAdded), p, e) + (counted(ctx, p) && e == base.MetricEventBlock ? ctx.Input.BatchCount : 0)
//@   ensures[no-capacity] gConc == old(gConc)
//@   modifies gAdded

//@ func (s *Slot) OnCompleted(ctx)
//@   props C01, C04, C07
//@   requires slotCtxOK(ctx) && clock_ms >= ctx.startTime
//@   let b = ctx.Input.BatchCount
//@   ensures[rt-stored] ctx.rt == clock_ms - old(ctx.startTime)
//@   ensures[completion] forall p Int :: forall e Int :: tot(gAdded, p, e) == tot(old(gAdded), p, e) + (!counted(ctx, p) ? 0 : (e == base.MetricEventComplete ? b : (e == base.MetricEventRt ? ctx.rt : (e == base.MetricEventError && ctx.err != nil ? b : 0))))
//@   ensures[released] forall p Int :: sel(gConc, p) == sel(old(gConc), p) - (counted(ctx, p) ? 1 : 0)
//@   modifies gAdded, gConc, ctx.rt

// ---- the real in-flight gauge behind the ghost gConc: one atomic add per call
//@ func (n *BaseStatNode) IncreaseConcurrency()
//@   props C01, C04
//@   requires n != nil && n.arr != nil && n.concurrency < 2147483647
//@   ensures[plus-one] n.concurrency == old(n.concurrency) + 1
//@   modifies n.concurrency, allfields(sbase.BucketWrap), allfields(sbase.MetricBucket), allfields(sbase.AtomicBucketWrapArray)

//@ func (n *BaseStatNode) DecreaseConcurrency()
//@   props C01, C04
//@   requires n != nil && n.concurrency > 0 - 2147483648
//@   ensures[minus-one] n.concurrency == old(n.concurrency) - 1
//@   modifies n.concurrency

//@ func (n *BaseStatNode) CurrentConcurrency() r
//@   props C01, C04
//@   requires n != nil
//@   ensures[reads-gauge] r == n.concurrency
//@   modifies nothing

//@ func (s *ResourceNodePrepareSlot) Prepare(ctx)
//@   props C01
//@   requires ctx != nil && ctx.Resource != nil
//@   ensures[binds-node-of-resource] ctx.StatNode != nil && typeis(ctx.StatNode, "*core/stat.ResourceNode") && dynptr(ctx.StatNode) == ref(resNodeMap[ctx.Resource.name]) && dynptr(ctx.StatNode) != 0

// the node constructor (window arrays: unsafe pointer arithmetic, not under contract): a new node nobody else holds
//@ func NewResourceNode(resourceName, resourceType) r
//@   assumed
//@   ensures r != nil && fresh(r)
//@   modifies nothing

// the node registry: one node per resource name, created on first use. What is returned is the node REGISTERED for the
// resource — also when another thread registered one between this thread's lookup and its taking the write lock
// (what it knew about the registry is stale then): every entry of a resource is accounted on the same node (C01)
//@ func GetOrCreateResourceNode(resource, resourceType) r
//@   ensures[returns-the-registered-node]{C01,C02,C04,C15} r != nil && allocated(r) && resNodeMap[resource] == r
//@   modifies mapof(resNodeMap)

// ---- C15: the resource-node registry is only touched under its lock
//@ guarded resNodeMap by rnsMux insert-once {C01,C15}
