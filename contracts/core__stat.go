//go:build verif

package stat

// Contracts for core/stat. The readings of a statistic node are functions of the recorded history; how they relate
// to the sliding window is property C08, here they are pure reads.

//@ func (n *BaseStatNode) GetQPS(event) r
//@   pure
//@   assumed
//@ func (n *BaseStatNode) GetMaxAvg(event) r
//@   pure
//@   props C08
//@   objinv n != nil && n.metric != nil && n.intervalMs > 0 && viewOK(n.metric) && validEvent(event) && bucketsOK(n.metric.real.data, event)
//@   ensures r >= 0.0
//@   ensures[per-second-peak] r == R(n.metric.GetMaxOfSingleBucket(event)) * R(n.sampleCount) / R(n.intervalMs) * 1000.0
//@   modifies nothing
//@ func (n *BaseStatNode) AvgRT() r
//@   pure
//@   props C08
//@   objinv n != nil && n.metric != nil
//@   ensures[guarded] n.metric.GetSum(base.MetricEventComplete) <= 0 ==> r == 0.0
//@   ensures[truncated-mean] n.metric.GetSum(base.MetricEventComplete) > 0 ==> r == R(n.metric.GetSum(base.MetricEventRt) / n.metric.GetSum(base.MetricEventComplete))
//@   modifies nothing
//@ func (n *BaseStatNode) MinRT() r
//@   pure
//@   assumed
//@   ensures r >= 0.0
