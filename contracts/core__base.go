//go:build verif

package base

// Contracts for core/base. Lines starting with "//@" are read by /verif/vcgo; see /verif/DESIGN.md section 3.

//@ iface StatNode.CurrentConcurrency() r
//@   pure
//@ iface ConcurrencyStat.CurrentConcurrency() r
//@   pure
//@ iface ReadStat.GetSum(event) r
//@   pure
//@ iface ReadStat.GetQPS(event) r
//@   pure
//@   ensures r >= 0.0
//@ iface ReadStat.GetPreviousQPS(event) r
//@   pure
//@   ensures r >= 0.0
//@ iface ReadStat.MinRT() r
//@   pure
//@ iface ReadStat.AvgRT() r
//@   pure

// A block-error option only writes the block error it is applied to.
//@ callback BlockErrorOption(b)
//@   modifies fields(b)

// Ghost view of write statistics: gAdded[receiver][event] is the total amount recorded through WriteStat.AddCount.
// (The relation between this total and what the sliding window later reports is property C08.)
//@ ghost var gAdded (Array Int (Array Int Int))
//@ iface WriteStat.AddCount(event, count)
//@   ensures gAdded == upd(old(gAdded), dynptr(this), upd(sel(old(gAdded), dynptr(this)), event, sel(sel(old(gAdded), dynptr(this)), event) + count))
//@   modifies gAdded
//@ iface StatNode.AddCount(event, count)
//@   ensures gAdded == upd(old(gAdded), dynptr(this), upd(sel(old(gAdded), dynptr(this)), event, sel(sel(old(gAdded), dynptr(this)), event) + count))
//@   modifies gAdded

// ---- C08: a view (sampleCount, intervalInMs) tiles an array (parentSampleCount, parentIntervalInMs)
//@ spec func wellFormed(n, I) = I != 0 && n != 0 && I % n == 0
//@ spec func tiles(n, I, pn, pI) = wellFormed(n, I) && wellFormed(pn, pI) && pI % I == 0 && (I / n) % (pI / pn) == 0

//@ spec func errorsDistinct() = IllegalStatisticParamsError != nil && IllegalGlobalStatisticParamsError != nil && GlobalStatisticNonReusableError != nil && IllegalStatisticParamsError != GlobalStatisticNonReusableError && IllegalGlobalStatisticParamsError != GlobalStatisticNonReusableError
//@ func CheckValidityForStatistic(sampleCount, intervalInMs) err
//@   props C08
//@   requires errorsDistinct()
//@   ensures[iff] err == nil <==> wellFormed(sampleCount, intervalInMs)
//@   modifies nothing

//@ func CheckValidityForReuseStatistic(sampleCount, intervalInMs, parentSampleCount, parentIntervalInMs) err
//@   props C08
//@   requires errorsDistinct()
//@   ensures[iff] err == nil <==> tiles(sampleCount, intervalInMs, parentSampleCount, parentIntervalInMs)
//@   ensures[non-reusable] err == GlobalStatisticNonReusableError ==> wellFormed(sampleCount, intervalInMs) && wellFormed(parentSampleCount, parentIntervalInMs)
//@   modifies nothing

// A time predicate is a function of the timestamp only (closures over values that are not modified afterwards).
//@ callback TimePredicate(t) r
//@   stable
