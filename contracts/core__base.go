//go:build verif

package base

// Contracts for core/base. Lines starting with "//@" are read by /verif/vcgo; see /verif/DESIGN.md section 3.

//@ iface StatNode.CurrentConcurrency() r
//@   pure
//@ iface ConcurrencyStat.CurrentConcurrency() r
//@   pure
//@ iface ReadStat.GetSum(event) r
//@   pure
//@ iface ReadStat.GetQPS(event) r
//@   pure
//@   ensures r >= 0.0
//@ iface ReadStat.GetPreviousQPS(event) r
//@   pure
//@   ensures r >= 0.0
//@ iface ReadStat.MinRT() r
//@   pure
//@ iface ReadStat.AvgRT() r
//@   pure

// A block-error option only writes the block error it is applied to.
//@ callback BlockErrorOption(b)
//@   modifies fields(b)

// Ghost view of write statistics: gAdded[receiver][event] is the total amount recorded through WriteStat.AddCount.
// (The relation between this total and what the sliding window later reports is property C08.)
//@ ghost var gAdded (Array Int (Array Int Int))
//@ iface WriteStat.AddCount(event, count)
//@   ensures gAdded == upd(old(gAdded), dynptr(this), upd(sel(old(gAdded), dynptr(this)), event, sel(sel(old(gAdded), dynptr(this)), event) + count))
//@   modifies gAdded
//@ iface StatNode.AddCount(event, count)
//@   ensures gAdded == upd(old(gAdded), dynptr(this), upd(sel(old(gAdded), dynptr(this)), event, sel(sel(old(gAdded), dynptr(this)), event) + count))
//@   modifies gAdded

// ---- C08: a view (sampleCount, intervalInMs) tiles an array (parentSampleCount, parentIntervalInMs)
//@ spec func wellFormed(n, I) = I != 0 && n != 0 && I % n == 0
//@ spec func tiles(n, I, pn, pI) = wellFormed(n, I) && wellFormed(pn, pI) && pI % I == 0 && (I / n) % (pI / pn) == 0

//@ spec func errorsDistinct() = IllegalStatisticParamsError != nil && IllegalGlobalStatisticParamsError != nil && GlobalStatisticNonReusableError != nil && IllegalStatisticParamsError != GlobalStatisticNonReusableError && IllegalGlobalStatisticParamsError != GlobalStatisticNonReusableError
//@ func CheckValidityForStatistic(sampleCount, intervalInMs) err
//@   props C08
//@   requires errorsDistinct()
//@   ensures[iff] err == nil <==> wellFormed(sampleCount, intervalInMs)
//@   modifies nothing

//@ func CheckValidityForReuseStatistic(sampleCount, intervalInMs, parentSampleCount, parentIntervalInMs) err
//@   props C08
//@   requires errorsDistinct()
//@   ensures[iff] err == nil <==> tiles(sampleCount, intervalInMs, parentSampleCount, parentIntervalInMs)
//@   ensures[non-reusable] err == GlobalStatisticNonReusableError ==> wellFormed(sampleCount, intervalInMs) && wellFormed(parentSampleCount, parentIntervalInMs)
//@   modifies nothing

// A time predicate is a function of the timestamp only (closures over values that are not modified afterwards).
//@ callback TimePredicate(t) r
//@   stable

// ---- C01/C16: the slot chain.  Slots are user code: their calls are recorded in ghost sequences by the interface
// contracts below, they may panic, and they are assumed not to touch the chain's slot lists or the identity fields
// of the context (Resource, Input, entry, RuleCheckResult pointer) — only the content of the rule-check result.
//@ spec func blocked(r) = r != nil && r.status == ResultStatusBlocked
//@ ghost var gPrepN Int
//@ ghost var gPrepRecv (Array Int Int)
//@ ghost var gChkN Int
//@ ghost var gChkRecv (Array Int Int)
//@ ghost var gChkRes (Array Int Int)
//@ ghost var gChkBlocked (Array Int Bool)
//@ ghost var gPassN Int
//@ ghost var gPassRecv (Array Int Int)
//@ ghost var gBlkN Int
//@ ghost var gBlkRecv (Array Int Int)
//@ ghost var gBlkErr (Array Int Int)
//@ ghost var gCompN Int
//@ ghost var gCompRecv (Array Int Int)

//@ iface StatPrepareSlot.Prepare(ctx)
//@   panics may
//@   ensures gPrepN == old(gPrepN) + 1 && gPrepRecv == upd(old(gPrepRecv), old(gPrepN), dynptr(this))
//@   modifies gPrepN, gPrepRecv, ctx.StatNode

//@ iface RuleCheckSlot.Check(ctx) r
//@   panics may
//@   ensures gChkN == old(gChkN) + 1 && gChkRecv == upd(old(gChkRecv), old(gChkN), dynptr(this)) && gChkRes == upd(old(gChkRes), old(gChkN), r) && gChkBlocked == upd(old(gChkBlocked), old(gChkN), blocked(r))
//@   ensures r != nil ==> allocated(r)
//@   ensures blocked(r) ==> r.blockErr != nil
//@   modifies gChkN, gChkRecv, gChkRes, gChkBlocked, all(TokenResult.status), all(TokenResult.blockErr), all(TokenResult.nanosToWait)

//@ iface StatSlot.OnEntryPassed(ctx)
//@   panics may
//@   ensures gPassN == old(gPassN) + 1 && gPassRecv == upd(old(gPassRecv), old(gPassN), dynptr(this))
//@   modifies gPassN, gPassRecv, gAdded

//@ iface StatSlot.OnEntryBlocked(ctx, blockError)
//@   panics may
//@   ensures gBlkN == old(gBlkN) + 1 && gBlkRecv == upd(old(gBlkRecv), old(gBlkN), dynptr(this)) && gBlkErr == upd(old(gBlkErr), old(gBlkN), blockError)
//@   modifies gBlkN, gBlkRecv, gBlkErr, gAdded

//@ iface StatSlot.OnCompleted(ctx)
//@   panics may
//@   ensures gCompN == old(gCompN) + 1 && gCompRecv == upd(old(gCompRecv), old(gCompN), dynptr(this))
//@   modifies gCompN, gCompRecv, gAdded

// a context in the pool has been reset: it carries no arguments of a previous request
// and no block error of a previous request: its rule-check result (if it has one) is a plain "pass", so that a later
// block fills a NEW block error with exactly what the blocking slot says (ResetToBlockedWith on a result that still
// carries an error only overwrites the fields named by its options)
//@ spec func cleanErr(e) = e == nil || (e.blockType == BlockTypeUnknown && len(e.blockMsg) == 0 && dynptr(e.rule) == 0 && e.snapshotValue == nil)
//@ poolinv "*core/base.EntryContext": it.Input != nil && len(it.Input.Args) == 0 && (it.RuleCheckResult != nil ==> it.RuleCheckResult.status == ResultStatusPass && cleanErr(it.RuleCheckResult.blockErr) && it.RuleCheckResult.nanosToWait == 0)


//@ func (r *TokenResult) ResetToPass()
//@   props C01, C16, C20
//@   requires r != nil
//@   ensures[plain-pass] r.status == ResultStatusPass && r.blockErr == nil && r.nanosToWait == 0
//@   modifies r.status, r.blockErr, r.nanosToWait

//@ func (sc *SlotChain) Entry(ctx) r
//@   props C01, C16
//@   requires sc != nil && ctx != nil && ctx.RuleCheckResult != nil
//@   panics never
//@   let p0 = gPrepN
//@   let c0 = gChkN
//@   let a0 = gPassN
//@   let b0 = gBlkN
//@   ensures[contained] r == nil ==> ctx.err != nil
//@   ensures[prepare-all-in-order] r != nil ==> gPrepN == p0 + len(sc.statPres) && (forall j Int :: p0 <= j && j < gPrepN ==> sel(gPrepRecv, j) == dynptr(sc.statPres[j - p0]))
//@   ensures[checks-in-order] r != nil ==> (forall j Int :: c0 <= j && j < gChkN ==> sel(gChkRecv, j) == dynptr(sc.ruleChecks[j - c0]))
//@   ensures[first-block-wins] r != nil && blocked(r) ==> gChkN > c0 && gChkN <= c0 + len(sc.ruleChecks) && r == sel(gChkRes, gChkN - 1) && (forall j Int :: c0 <= j && j < gChkN - 1 ==> !sel(gChkBlocked, j))
//@   ensures[pass-all-consulted] r != nil && !blocked(r) ==> gChkN == c0 + len(sc.ruleChecks) && (forall j Int :: c0 <= j && j < gChkN ==> !sel(gChkBlocked, j))
//@   ensures[result-in-context] r != nil ==> r == ctx.RuleCheckResult && (blocked(r) ==> r.blockErr != nil)
//@   ensures[pass-carries-no-error] r != nil && !blocked(r) ==> r.status == ResultStatusPass && r.blockErr == nil && r.nanosToWait == 0
//@   ensures[told-passed-once] r != nil && !blocked(r) ==> gPassN == a0 + len(sc.stats) && gBlkN == b0 && (forall j Int :: a0 <= j && j < gPassN ==> sel(gPassRecv, j) == dynptr(sc.stats[j - a0]))
//@   modifies gPrepN, gPrepRecv, gChkN, gChkRecv, gChkRes, gChkBlocked, gPassN, gPassRecv, gBlkN, gBlkRecv, gBlkErr, gAdded, gConc, ctx.RuleCheckResult, ctx.err, ctx.StatNode, all(TokenResult.status), all(TokenResult.blockErr), all(TokenResult.nanosToWait)
//@   ensures[told-blocked-once] r != nil && blocked(r) ==> gBlkN == b0 + len(sc.stats) && gPassN == a0 && (forall j Int :: b0 <= j && j < gBlkN ==> sel(gBlkRecv, j) == dynptr(sc.stats[j - b0]) && sel(gBlkErr, j) == ref(r.blockErr))
//@   loop 1:
//@     invariant[frame] frame(ctx.StatNode, all(TokenResult.status), all(TokenResult.blockErr), all(TokenResult.nanosToWait))
//@     invariant gPrepN == p0 + #i && (forall j Int :: p0 <= j && j < gPrepN ==> sel(gPrepRecv, j) == dynptr(sc.statPres[j - p0]))
//@   loop 2:
//@     invariant[blocked-has-error] true
//@     invariant[frame] frame(ctx.StatNode, all(TokenResult.status), all(TokenResult.blockErr), all(TokenResult.nanosToWait))
//@     invariant gChkN == c0 + #i && (forall j Int :: c0 <= j && j < gChkN ==> sel(gChkRecv, j) == dynptr(sc.ruleChecks[j - c0]) && !sel(gChkBlocked, j))
//@   loop 3:
//@     invariant[frame] frame(ctx.StatNode, ctx.RuleCheckResult, all(TokenResult.status), all(TokenResult.blockErr), all(TokenResult.nanosToWait))
//@     invariant (blocked(ruleCheckRet) ? gBlkN == b0 + #i && gPassN == a0 : gPassN == a0 + #i && gBlkN == b0)
//@     invariant forall j Int :: a0 <= j && j < gPassN ==> sel(gPassRecv, j) == dynptr(sc.stats[j - a0])
//@     invariant forall j Int :: b0 <= j && j < gBlkN ==> sel(gBlkRecv, j) == dynptr(sc.stats[j - b0]) && sel(gBlkErr, j) == ref(ruleCheckRet.blockErr)

// ghost in-flight gauge per statistic node (the real field is BaseStatNode.concurrency; C04/C07 read it)
//@ ghost var gConc (Array Int Int)
//@ iface StatNode.IncreaseConcurrency()
//@   ensures gConc == upd(old(gConc), dynptr(this), sel(old(gConc), dynptr(this)) + 1)
//@   modifies gConc
//@ iface StatNode.DecreaseConcurrency()
//@   ensures gConc == upd(old(gConc), dynptr(this), sel(old(gConc), dynptr(this)) - 1)
//@   modifies gConc

// ---- exit path
//@ ghost var gHandlerN Int
//@ callback ExitHandler(entry, ctx) err
//@   panics may
//@   ensures gHandlerN == old(gHandlerN) + 1
//@   modifies gHandlerN
//@ callback ExitOption(opts)
//@   modifies fields(opts)

//@ func (sc *SlotChain) exit(ctx)
//@   props C01, C16
//@   requires sc != nil
//@   let n0 = gCompN
//@   let skip = ctx == nil || ctx.entry == nil || blocked(ctx.RuleCheckResult)
//@   ensures[blocked-no-completion] skip ==> gCompN == n0
//@   ensures[completed-once-in-order] !skip ==> gCompN == n0 + len(sc.stats) && (forall j Int :: n0 <= j && j < gCompN ==> sel(gCompRecv, j) == dynptr(sc.stats[j - n0]))
//@   modifies gCompN, gCompRecv, gAdded
//@   loop 1:
//@     invariant gCompN == n0 + #i && (forall j Int :: n0 <= j && j < gCompN ==> sel(gCompRecv, j) == dynptr(sc.stats[j - n0]))

//@ func (e *SentinelEntry) Exit(exitOps)
//@   props C01, C16
//@   requires e != nil && (e.sc != nil ==> e.sc.ctxPool != nil) && (e.ctx != nil ==> e.ctx.Input != nil)
//@   requires[options-not-nil] forall k Int :: 0 <= k && k < len(exitOps) ==> exitOps[k] != nil
//@   objinv oncedone(e.exitCtl) ==> e.exited != 0
//@   panics never
//@   let done0 = oncedone(e.exitCtl)
//@   let ctx = e.ctx
//@   let c0 = gCompN
//@   let wasBlocked = ctx != nil && blocked(ctx.RuleCheckResult)
//@   case plain: len(exitOps) == 0
//@   case with-options: len(exitOps) > 0
//@   ensures[idempotent] done0 ==> gCompN == c0 && gHandlerN == old(gHandlerN) && gAdded == old(gAdded) && gConc == old(gConc) && (ctx != nil ==> ctx.err == old(ctx.err) && ctx.Resource == old(ctx.Resource))
//@   ensures[marks-done] ctx != nil ==> oncedone(e.exitCtl)
//@   ensures[marks-exited] ctx != nil ==> e.exited != 0
//@   ensures[completion-at-most-once] gCompN == c0 || (!done0 && !wasBlocked && e.sc != nil && gCompN == c0 + len(e.sc.stats) && (forall j Int :: c0 <= j && j < gCompN ==> sel(gCompRecv, j) == dynptr(e.sc.stats[j - c0])))
//@   ensures[blocked-no-completion] wasBlocked ==> gCompN == c0
//@   ensures[recycled] !done0 && ctx != nil && e.sc != nil ==> ctx.Resource == nil && ctx.err == nil && dynptr(ctx.StatNode) == 0
//@   modifies gCompN, gCompRecv, gHandlerN, gAdded, gConc, oncedone(e.exitCtl), e.exited, fields(e.ctx), fields(e.ctx.Input), fields(e.ctx.RuleCheckResult)
//@   replay base_exit_late_error@api
//@   loop 1:
//@     invariant[no-option-no-error] len(exitOps) == 0 ==> options.err == nil
//@     invariant[frame] frame()

// C01: late calls on an already-exited entry change nothing for any entry (after the first Exit the context belongs to
// the pool again and may already serve another entry) — also a late TraceError / SetError / SetPair
//@ func (e *SentinelEntry) SetError(err)
//@   props C01
//@   requires e != nil
//@   objinv oncedone(e.exitCtl) ==> e.exited != 0
//@   ensures[late-call-changes-nothing] oncedone(e.exitCtl) ==> frame()
//@   ensures[live-entry-records-its-error] e.exited == 0 && e.ctx != nil ==> e.ctx.err == err
//@   modifies e.ctx.err
//@   replay base_late_set_error@api for late-call-changes-nothing
//@ func (e *SentinelEntry) SetPair(key, val)
//@   props C01
//@   requires e != nil
//@   objinv oncedone(e.exitCtl) ==> e.exited != 0
//@   ensures[late-call-changes-nothing] oncedone(e.exitCtl) ==> frame()

// sync.Pool ownership contract for the context pool (assumed): Get hands out a context nobody else holds, as left
// by the pool's New function or by EntryContext.Reset; only its start time is written here.
//@ func (sc *SlotChain) GetPooledContext() ctx
//@   assumed
//@   ensures ctx != nil && allocated(ctx) && ctx.Input != nil && allocated(ctx.Input) && ctx.RuleCheckResult != nil && allocated(ctx.RuleCheckResult) && !blocked(ctx.RuleCheckResult)
//@   ensures ctx.err == nil && ctx.Resource == nil && dynptr(ctx.StatNode) == 0 && ctx.startTime == clock_ms && len(ctx.Input.Args) == 0
//@   ensures cleanErr(ctx.RuleCheckResult.blockErr) && ctx.RuleCheckResult.nanosToWait == 0
//@   modifies all(EntryContext.startTime)

//@ func NewBlockErrorFromDeepCopy(from) r
//@   props C16
//@   requires from != nil
//@   ensures[fresh-copy] r != nil && fresh(r) && r.blockType == from.blockType && r.blockMsg == from.blockMsg && r.rule == from.rule && r.snapshotValue == from.snapshotValue
//@   modifies nothing
