//go:build verif

package base

// Contracts for core/base. Lines starting with "//@" are read by /verif/vcgo; see /verif/DESIGN.md section 3.

//@ iface StatNode.CurrentConcurrency() r
//@   pure
//@ iface ConcurrencyStat.CurrentConcurrency() r
//@   pure
//@ iface ReadStat.GetSum(event) r
//@   pure
//@ iface ReadStat.GetQPS(event) r
//@   pure
//@ iface ReadStat.GetPreviousQPS(event) r
//@   pure
//@ iface ReadStat.MinRT() r
//@   pure
//@ iface ReadStat.AvgRT() r
//@   pure
