//go:build verif

package file

// Contracts for ext/datasource/file (property C18). Only the read-and-deliver step is within reach; the watcher
// goroutine (select over fsnotify channels) is checked by the bounded stand-in c18_file_events.

// reading the file is outside the verified code (os, ioutil): its outcome is recorded
//@ ghost var gReadN Int
//@ ghost var gReadSrc Slice
//@ ghost var gReadErr Iface
//@ func (s *RefreshableFileDataSource) ReadSource() (src, err)
//@   assumed
//@   panics never
//@   ensures gReadN == old(gReadN) + 1 && gReadSrc == src && gReadErr == err
//@   modifies gReadN, gReadSrc, gReadErr

// one refresh: the file is read once; an unreadable file reaches no handler and is reported; otherwise the bytes
// read are delivered, unchanged, to every registered handler exactly once, and a handler failure is reported
//@ func (s *RefreshableFileDataSource) doReadAndUpdate() err
//@   props C18
//@   requires s != nil
//@   panics never
//@   let n0 = gHdlN
//@   ensures[file-read-once] gReadN == old(gReadN) + 1
//@   ensures[unreadable-file-delivers-nothing] gReadErr != nil ==> err != nil && gHdlN == n0
//@   ensures[content-delivered-to-every-handler] gReadErr == nil ==> gHdlN == n0 + len(s.Base.handlers) && (forall k Int :: 0 <= k && k < len(s.Base.handlers) ==> sel(gHdlRecv, n0 + k) == dynptr(s.Base.handlers[k]) && sel(gHdlSrc, n0 + k) == base(gReadSrc) && sel(gHdlSrcLen, n0 + k) == len(gReadSrc))
//@   ensures[handler-failure-reported] gReadErr == nil ==> (err != nil <==> (exists k Int :: 0 <= k && k < len(s.Base.handlers) && sel(gHdlFail, n0 + k)))
