//go:build verif

package datasource

// Contracts for ext/datasource (property C18).

// ---- converter / updater are user-suppliable functions: their calls are recorded, they may panic
//@ ghost var gConvN Int
//@ ghost var gConvRes Iface
//@ ghost var gConvErr Iface
//@ ghost var gConvDone Int
//@ ghost var gUpdN Int
//@ ghost var gUpdArg Iface
//@ ghost var gUpdRes Iface
//@ callback PropertyConverter(src) (r, err)
//@   panics may
//@   always gConvN == old(gConvN) + 1 && (panicked() ==> gConvDone == old(gConvDone)) && (!panicked() ==> gConvDone == gConvN)
//@   ensures gConvRes == r && gConvErr == err
//@   modifies gConvN, gConvDone, gConvRes, gConvErr
//@ callback PropertyUpdater(data) err
//@   panics may
//@   always gUpdN == old(gUpdN) + 1 && gUpdArg == data
//@   ensures gUpdRes == err
//@   modifies gUpdN, gUpdArg, gUpdRes

// a payload is converted once; a conversion error is returned and nothing else happens; a payload equal to the
// last one is a no-op; otherwise the updater runs exactly once on the converted value; no panic escapes
//@ func (h *DefaultPropertyHandler) Handle(src) err
//@   props C18
//@   requires h != nil && h.converter != nil && h.updater != nil
//@   requires gConvDone <= gConvN
//@   panics never
//@   let u0 = gUpdN
//@   let last0 = h.lastUpdateProperty
//@   ensures[converted-once] gConvN <= old(gConvN) + 1
//@   ensures[undecodable-rejected] gConvN == old(gConvN) + 1 && gConvErr != nil ==> (err == gConvErr || err == nil) && gUpdN == u0 && h.lastUpdateProperty == last0
//@   ensures[updater-at-most-once] gUpdN <= u0 + 1
//@   ensures[updater-gets-converted-value] gUpdN == u0 + 1 ==> gUpdArg == gConvRes && gConvErr == nil
//@   ensures[result-is-updaters] gUpdN == u0 + 1 && err != nil ==> err == gUpdRes
//@   ensures[identical-payload-is-noop] gConvN == old(gConvN) + 1 && gConvErr == nil && deepequal(gConvRes, last0) ==> gUpdN == u0 && err == nil
//@   ensures[different-payload-reaches-updater] gConvDone == old(gConvN) + 1 && gConvErr == nil && !deepequal(gConvRes, last0) ==> gUpdN == u0 + 1
//@   ensures[dedup-state-is-last-decoded-value] gConvDone == old(gConvN) + 1 && gConvErr == nil ==> deepequal(gConvRes, h.lastUpdateProperty)

// ---- the rule updaters: nil clears, a []*Rule is loaded as given, anything else is rejected without loading
//@ func FlowRulesUpdater(data) err
//@   props C18
//@   panics never
//@   ensures[nil-clears] data == nil ==> gFlowClearN == old(gFlowClearN) + 1 && gFlowLoadN == old(gFlowLoadN)
//@   ensures[pointer-list-loaded-as-given] typeis(data, "[]*core/flow.Rule") ==> gFlowLoadN == old(gFlowLoadN) + 1 && gFlowClearN == old(gFlowClearN) && base(gFlowLoadArg) == base(unboxslice(data)) && len(gFlowLoadArg) == len(unboxslice(data))
//@   ensures[other-types-rejected] data != nil && !typeis(data, "[]*core/flow.Rule") && !typeis(data, "[]core/flow.Rule") ==> err != nil && gFlowLoadN == old(gFlowLoadN) && gFlowClearN == old(gFlowClearN)
//@   ensures[value-list-loaded-one-copy-per-rule] typeis(data, "[]core/flow.Rule") ==> gFlowLoadN == old(gFlowLoadN) + 1 && gFlowClearN == old(gFlowClearN) && len(gFlowLoadArg) == len(unboxslice(data))
//@   loop 1:
//@     invariant[one-copy-per-rule] len(rules) == #i

//@ func IsolationRulesUpdater(data) err
//@   props C18
//@   panics never
//@   ensures[nil-clears] data == nil ==> gIsoClearN == old(gIsoClearN) + 1 && gIsoLoadN == old(gIsoLoadN)
//@   ensures[pointer-list-loaded-as-given] typeis(data, "[]*core/isolation.Rule") ==> gIsoLoadN == old(gIsoLoadN) + 1 && gIsoClearN == old(gIsoClearN) && base(gIsoLoadArg) == base(unboxslice(data)) && len(gIsoLoadArg) == len(unboxslice(data))
//@   ensures[other-types-rejected] data != nil && !typeis(data, "[]*core/isolation.Rule") && !typeis(data, "[]core/isolation.Rule") ==> err != nil && gIsoLoadN == old(gIsoLoadN) && gIsoClearN == old(gIsoClearN)
//@   ensures[value-list-loaded-one-copy-per-rule] typeis(data, "[]core/isolation.Rule") ==> gIsoLoadN == old(gIsoLoadN) + 1 && gIsoClearN == old(gIsoClearN) && len(gIsoLoadArg) == len(unboxslice(data))
//@   loop 1:
//@     invariant[one-copy-per-rule] len(rules) == #i

//@ func CircuitBreakerRulesUpdater(data) err
//@   props C18
//@   panics never
//@   ensures[nil-clears] data == nil ==> gCbClearN == old(gCbClearN) + 1 && gCbLoadN == old(gCbLoadN)
//@   ensures[pointer-list-loaded-as-given] typeis(data, "[]*core/circuitbreaker.Rule") ==> gCbLoadN == old(gCbLoadN) + 1 && gCbClearN == old(gCbClearN) && base(gCbLoadArg) == base(unboxslice(data)) && len(gCbLoadArg) == len(unboxslice(data))
//@   ensures[other-types-rejected] data != nil && !typeis(data, "[]*core/circuitbreaker.Rule") && !typeis(data, "[]core/circuitbreaker.Rule") ==> err != nil && gCbLoadN == old(gCbLoadN) && gCbClearN == old(gCbClearN)

//@ func HotSpotParamRulesUpdater(data) err
//@   props C18
//@   panics never
//@   ensures[nil-clears] data == nil ==> gHotClearN == old(gHotClearN) + 1 && gHotLoadN == old(gHotLoadN)
//@   ensures[pointer-list-loaded-as-given] typeis(data, "[]*core/hotspot.Rule") ==> gHotLoadN == old(gHotLoadN) + 1 && gHotClearN == old(gHotClearN) && base(gHotLoadArg) == base(unboxslice(data)) && len(gHotLoadArg) == len(unboxslice(data))
//@   ensures[other-types-rejected] data != nil && !typeis(data, "[]*core/hotspot.Rule") && !typeis(data, "[]core/hotspot.Rule") ==> err != nil && gHotLoadN == old(gHotLoadN) && gHotClearN == old(gHotClearN)
//@   ensures[value-list-loaded-one-copy-per-rule] typeis(data, "[]core/hotspot.Rule") ==> gHotLoadN == old(gHotLoadN) + 1 && gHotClearN == old(gHotClearN) && len(gHotLoadArg) == len(unboxslice(data))
//@   loop 1:
//@     invariant[one-copy-per-rule] len(rules) == #i

//@ func SystemRulesUpdater(data) err
//@   props C18
//@   panics never
//@   ensures[nil-clears] data == nil ==> gSysClearN == old(gSysClearN) + 1 && gSysLoadN == old(gSysLoadN)
//@   ensures[pointer-list-loaded-as-given] typeis(data, "[]*core/system.Rule") ==> gSysLoadN == old(gSysLoadN) + 1 && gSysClearN == old(gSysClearN) && base(gSysLoadArg) == base(unboxslice(data)) && len(gSysLoadArg) == len(unboxslice(data))
//@   ensures[other-types-rejected] data != nil && !typeis(data, "[]*core/system.Rule") && !typeis(data, "[]core/system.Rule") ==> err != nil && gSysLoadN == old(gSysLoadN) && gSysClearN == old(gSysClearN)
//@   ensures[value-list-loaded-one-copy-per-rule] typeis(data, "[]core/system.Rule") ==> gSysLoadN == old(gSysLoadN) + 1 && gSysClearN == old(gSysClearN) && len(gSysLoadArg) == len(unboxslice(data))
//@   loop 1:
//@     invariant[one-copy-per-rule] len(rules) == #i

// ---- the five JSON parsers. encoding/json and strconv are outside the verified code: assumed not to panic, and
// json.Unmarshal may leave anything (including nil elements) in the target.
//@ ghost var gJsonErr Iface
//@ ghost var gJsonN Int
//@ extern encoding/json.Unmarshal(data, v) err
//@   panics never
//@   ensures gJsonErr == err && gJsonN == old(gJsonN) + 1
//@   modifies heap, gJsonErr, gJsonN
//@ extern strconv.Atoi(s) (n, err)
//@   panics never
//@   modifies nothing
//@ extern strconv.ParseBool(s) (b, err)
//@   panics never
//@   modifies nothing
//@ extern strconv.ParseFloat(s, bits) (f, err)
//@   panics never
//@   modifies nothing

//@ func FlowRuleJsonArrayParser(src) (r, err)
//@   props C18
//@   panics never
//@   ensures[every-non-empty-payload-reaches-the-decoder] len(src) > 0 ==> gJsonN == old(gJsonN) + 1
//@   ensures[what-the-decoder-accepts-is-accepted] len(src) > 0 && gJsonErr == nil ==> err == nil && r != nil
//@   ensures[undecodable-payload-rejected] gJsonN > old(gJsonN) && gJsonErr != nil ==> err != nil && r == nil
//@   ensures[decoded-at-most-once] gJsonN <= old(gJsonN) + 1
//@   ensures[empty-payload-is-nil] len(src) == 0 ==> r == nil && err == nil
//@   ensures[value-or-error] err != nil ==> r == nil
//@ func IsolationRuleJsonArrayParser(src) (r, err)
//@   props C18
//@   panics never
//@   ensures[every-non-empty-payload-reaches-the-decoder] len(src) > 0 ==> gJsonN == old(gJsonN) + 1
//@   ensures[what-the-decoder-accepts-is-accepted] len(src) > 0 && gJsonErr == nil ==> err == nil && r != nil
//@   ensures[undecodable-payload-rejected] gJsonN > old(gJsonN) && gJsonErr != nil ==> err != nil && r == nil
//@   ensures[decoded-at-most-once] gJsonN <= old(gJsonN) + 1
//@   ensures[empty-payload-is-nil] len(src) == 0 ==> r == nil && err == nil
//@   ensures[value-or-error] err != nil ==> r == nil
//@ func SystemRuleJsonArrayParser(src) (r, err)
//@   props C18
//@   panics never
//@   ensures[every-non-empty-payload-reaches-the-decoder] len(src) > 0 ==> gJsonN == old(gJsonN) + 1
//@   ensures[what-the-decoder-accepts-is-accepted] len(src) > 0 && gJsonErr == nil ==> err == nil && r != nil
//@   ensures[undecodable-payload-rejected] gJsonN > old(gJsonN) && gJsonErr != nil ==> err != nil && r == nil
//@   ensures[decoded-at-most-once] gJsonN <= old(gJsonN) + 1
//@   ensures[empty-payload-is-nil] len(src) == 0 ==> r == nil && err == nil
//@   ensures[value-or-error] err != nil ==> r == nil
//@ func CircuitBreakerRuleJsonArrayParser(src) (r, err)
//@   props C18
//@   panics never
//@   ensures[every-non-empty-payload-reaches-the-decoder] len(src) > 0 ==> gJsonN == old(gJsonN) + 1
//@   ensures[what-the-decoder-accepts-is-accepted] len(src) > 0 && gJsonErr == nil ==> err == nil && r != nil
//@   ensures[undecodable-payload-rejected] gJsonN > old(gJsonN) && gJsonErr != nil ==> err != nil && r == nil
//@   ensures[decoded-at-most-once] gJsonN <= old(gJsonN) + 1
//@   ensures[empty-payload-is-nil] len(src) == 0 ==> r == nil && err == nil
//@   ensures[value-or-error] err != nil ==> r == nil
//@ func HotSpotParamRuleJsonArrayParser(src) (r, err)
//@   props C18
//@   panics never
//@   ensures[every-non-empty-payload-reaches-the-decoder] len(src) > 0 ==> gJsonN == old(gJsonN) + 1
//@   ensures[undecodable-payload-rejected] gJsonN > old(gJsonN) && gJsonErr != nil ==> err != nil && r == nil
//@   ensures[decoded-at-most-once] gJsonN <= old(gJsonN) + 1
//@   replay ds_parser_null_element
//@   ensures[empty-payload-is-nil] len(src) == 0 ==> r == nil && err == nil
//@   ensures[value-or-error] err != nil ==> r == nil
//@   loop 1:
//@     invariant[result-list-is-new] fresh(base(rules)) && len(rules) == len(hotspotRules)
//@     invariant[null-elements-stay-nil] forall k Int :: 0 <= k && k < len(rules) && (k >= #i || hotspotRules[k] == nil) ==> rules[k] == nil
//@     invariant[every-wire-field-copied] forall k Int :: 0 <= k && k < #i && hotspotRules[k] != nil ==> rules[k] != nil && allocated(rules[k]) && rules[k].ID == hotspotRules[k].ID && rules[k].Resource == hotspotRules[k].Resource && rules[k].MetricType == hotspotRules[k].MetricType && rules[k].ControlBehavior == hotspotRules[k].ControlBehavior && rules[k].ParamIndex == hotspotRules[k].ParamIndex && rules[k].ParamKey == hotspotRules[k].ParamKey && rules[k].Threshold == hotspotRules[k].Threshold && rules[k].MaxQueueingTimeMs == hotspotRules[k].MaxQueueingTimeMs && rules[k].BurstCount == hotspotRules[k].BurstCount && rules[k].DurationInSec == hotspotRules[k].DurationInSec && rules[k].ParamsMaxCapacity == hotspotRules[k].ParamsMaxCapacity

// specific items: a new map, nothing else written, no panic whatever the strings are
//@ func parseSpecificItems(source) ret
//@   props C18
//@   panics never
//@   ensures[new-map] ret != nil && fresh(ret)
//@   modifies nothing
//@   loop 1:
//@     invariant[new-map] ret != nil && fresh(ret)
//@     invariant[nothing-else-written] frame()

// ---- datasource.Base: fan-out of one payload to the registered handlers
// A handler is any PropertyHandler; its calls are recorded. Assumed of every handler: it does not panic out
// (proved above for DefaultPropertyHandler) and does not write the datasource's handler list.
//@ ghost var gHdlN Int
//@ ghost var gHdlRecv (Array Int Int)
//@ ghost var gHdlSrc (Array Int Int)
//@ ghost var gHdlSrcLen (Array Int Int)
//@ ghost var gHdlFail (Array Int Bool)
//@ iface PropertyHandler.Handle(src) err
//@   panics never
//@   ensures gHdlN == old(gHdlN) + 1 && gHdlRecv == upd(old(gHdlRecv), old(gHdlN), dynptr(this)) && gHdlSrc == upd(old(gHdlSrc), old(gHdlN), base(src)) && gHdlSrcLen == upd(old(gHdlSrcLen), old(gHdlN), len(src)) && gHdlFail == upd(old(gHdlFail), old(gHdlN), err != nil)
//@   modifies gHdlN, gHdlRecv, gHdlSrc, gHdlSrcLen, gHdlFail, all(DefaultPropertyHandler.lastUpdateProperty)
//@ extern go.uber.org/multierr.Append(left, right) r
//@   panics never
//@   ensures (left != nil || right != nil) <==> r != nil
//@   modifies nothing

//@ spec func noNilHandler(b) = forall k Int :: 0 <= k && k < len(b.handlers) ==> b.handlers[k] != nil

//@ func (b *Base) Handle(src) err
//@   props C18
//@   requires b != nil
//@   objinv noNilHandler(b)
//@   panics never
//@   let n0 = gHdlN
//@   ensures[every-handler-once-in-order] gHdlN == n0 + len(b.handlers) && (forall k Int :: 0 <= k && k < len(b.handlers) ==> sel(gHdlRecv, n0 + k) == dynptr(b.handlers[k]) && sel(gHdlSrc, n0 + k) == base(src) && sel(gHdlSrcLen, n0 + k) == len(src))
//@   ensures[error-iff-some-handler-failed] err != nil <==> (exists k Int :: 0 <= k && k < len(b.handlers) && sel(gHdlFail, n0 + k))
//@   ensures[handler-list-unchanged] b.handlers == old(b.handlers)
//@   modifies gHdlN, gHdlRecv, gHdlSrc, gHdlSrcLen, gHdlFail, all(DefaultPropertyHandler.lastUpdateProperty)
//@   loop 1:
//@     invariant[calls-so-far] gHdlN == n0 + #i && (forall k Int :: 0 <= k && k < #i ==> sel(gHdlRecv, n0 + k) == dynptr(b.handlers[k]) && sel(gHdlSrc, n0 + k) == base(src) && sel(gHdlSrcLen, n0 + k) == len(src))
//@     invariant[error-so-far] err != nil <==> (exists k Int :: 0 <= k && k < #i && sel(gHdlFail, n0 + k))
//@     invariant[list-untouched] frame(all(DefaultPropertyHandler.lastUpdateProperty))

//@ func (b *Base) indexOfHandler(h) r
//@   props C18
//@   requires b != nil
//@   ensures[found-or-absent] (r == -1 && (forall k Int :: 0 <= k && k < len(b.handlers) ==> b.handlers[k] != h)) || (0 <= r && r < len(b.handlers) && b.handlers[r] == h && (forall k Int :: 0 <= k && k < r ==> b.handlers[k] != h))
//@   modifies nothing
//@   loop 1:
//@     invariant[not-before] forall k Int :: 0 <= k && k < #i ==> b.handlers[k] != h
//@     invariant[untouched] frame()

//@ func (b *Base) AddPropertyHandler(h)
//@   props C18
//@   requires b != nil
//@   objinv noNilHandler(b)
//@   panics never
//@   ensures[nil-or-duplicate-ignored] h == nil || (exists k Int :: 0 <= k && k < old(len(b.handlers)) && old(b.handlers[k]) == h) ==> b.handlers == old(b.handlers)
//@   ensures[appended-once] h != nil && !(exists k Int :: 0 <= k && k < old(len(b.handlers)) && old(b.handlers[k]) == h) ==> len(b.handlers) == old(len(b.handlers)) + 1 && b.handlers[old(len(b.handlers))] == h && (forall k Int :: 0 <= k && k < old(len(b.handlers)) ==> b.handlers[k] == old(b.handlers[k]))
//@   ensures[no-nil-handler] noNilHandler(b)
//@   modifies b.handlers, elems(b.handlers)

//@ func (b *Base) RemovePropertyHandler(h)
//@   props C18
//@   requires b != nil
//@   objinv noNilHandler(b)
//@   panics never
//@   let n = len(b.handlers)
//@   ensures[absent-unchanged] h == nil || (forall k Int :: 0 <= k && k < n ==> old(b.handlers[k]) != h) ==> len(b.handlers) == n && (forall k Int :: 0 <= k && k < n ==> b.handlers[k] == old(b.handlers[k]))
//@   ensures[first-occurrence-removed-others-kept-in-order] forall r Int :: h != nil && 0 <= r && r < n && old(b.handlers[r]) == h && (forall k Int :: 0 <= k && k < r ==> old(b.handlers[k]) != h) ==> len(b.handlers) == n - 1 && (forall k Int :: 0 <= k && k < r ==> b.handlers[k] == old(b.handlers[k])) && (forall k Int :: r <= k && k < n - 1 ==> b.handlers[k] == old(b.handlers[k + 1]))
//@   ensures[no-nil-handler] noNilHandler(b)
//@   modifies b.handlers, elems(b.handlers)
