//go:build verif

package cache

// Contract of the parameter cache as the hotspot rules use it: a map from argument value to a stable counter cell.
// gCache[cache][key] is the cell bound to key (0 = absent). Assumed for LruCacheMap while the number of live keys
// stays below its capacity (eviction is outside this contract; see the bounded conformance check).
//@ ghost var gCache (Array Int (Array Iface Int))
//@ spec func bound(c, k) = sel(sel(gCache, dynptr(c)), k)

//@ iface ConcurrentCounterCache.AddIfAbsent(key, value) prior
//@   ensures[present] old(bound(this, key)) != 0 ==> ref(prior) == old(bound(this, key)) && gCache == old(gCache)
//@   ensures[absent] old(bound(this, key)) == 0 ==> prior == nil && gCache == upd(old(gCache), dynptr(this), upd(sel(old(gCache), dynptr(this)), key, ref(value)))
//@   modifies gCache

//@ iface ConcurrentCounterCache.Get(key) (value, isFound)
//@   ensures isFound <==> old(bound(this, key)) != 0
//@   ensures ref(value) == old(bound(this, key))
//@   modifies nothing
