//go:build verif

package cache

// Contract of the parameter cache as the hotspot rules use it: a map from argument value to a stable counter cell.
// gCache[cache][key] is the cell bound to key (0 = absent). Assumed for LruCacheMap while the number of live keys
// stays below its capacity (eviction is outside this contract; see the bounded conformance check).
//@ ghost var gCache (Array Int (Array Iface Int))
//@ spec func bound(c, k) = sel(sel(gCache, dynptr(c)), k)

//@ iface ConcurrentCounterCache.AddIfAbsent(key, value) prior
//@   ensures[present] old(bound(this, key)) != 0 ==> ref(prior) == old(bound(this, key)) && gCache == old(gCache)
//@   ensures[absent] old(bound(this, key)) == 0 ==> prior == nil && gCache == upd(old(gCache), dynptr(this), upd(sel(old(gCache), dynptr(this)), key, ref(value)))
//@   modifies gCache

//@ iface ConcurrentCounterCache.Get(key) (value, isFound)
//@   ensures isFound <==> old(bound(this, key)) != 0
//@   ensures ref(value) == old(bound(this, key))
//@   modifies nothing

// ---- C15: lock discipline of the concurrent wrapper. The LRU itself is "not thread safe": every method that touches
// the eviction list or the item map (Get moves the element to the front, so it is one of them) needs the wrapper's lock
// exclusively; the pure look-ups need it at least shared. gLruGuard[lru] is the mutex that guards an LRU (registered by
// the only constructor of the wrapper; the wrapper's fields are unexported). The LRU's own code (container/list) is
// outside the verified subset: its methods are assumed to change nothing but the heap reachable from the LRU.
//@ ghost var gLruGuard (Array Int Int)
//@ spec func lruExclusive(l) = wlockcount(sel(gLruGuard, ref(l))) > 0
//@ spec func lruShared(l) = wlockcount(sel(gLruGuard, ref(l))) > 0 || rlockcount(sel(gLruGuard, ref(l))) > 0
//@ spec func guardedMap(c) = c != nil && c.lru != nil && c.lock != nil && sel(gLruGuard, ref(c.lru)) == ref(c.lock)

//@ func NewLRU(size, onEvict) (r, err)
//@   assumed
//@   ensures (r == nil) <==> (err != nil)
//@   ensures r != nil ==> fresh(r)
//@   modifies nothing

//@ func (c *LRU) Add(key, value)
//@   assumed
//@   requires[changes-the-list-needs-the-lock-exclusively]{C15} lruExclusive(c)
//@   modifies heap
// C05: the LRU binds a key to its cell once — AddIfAbsent on a key that is present hands back the cell that is bound
// and leaves the binding alone (the rule's per-value state lives in that cell; replacing it on every check resets the
// value's token bucket / last-pass time). container/list is outside the verified code: its methods are assumed to
// relink elements and nothing else (an element's Value is never touched by the list).
//@ extern (*container/list.List).MoveToFront(l, e)
//@   panics never
//@   modifies all(list.Element.next), all(list.Element.prev), all(list.Element.list), all(list.List.len)
//@ extern (*container/list.List).PushFront(l, v) r
//@   panics never
//@   ensures r != nil && fresh(r) && r.Value == v
//@   modifies all(list.Element.next), all(list.Element.prev), all(list.Element.list), all(list.List.len)
//@ extern (*container/list.List).Remove(l, e) r
//@   panics never
//@   modifies all(list.Element.next), all(list.Element.prev), all(list.Element.list), all(list.List.len)
//@ extern (*container/list.List).Len(l) r
//@   panics never
//@   modifies nothing
//@ extern (*container/list.List).Back(l) r
//@   panics never
//@   ensures r == nil || allocated(r)
//@   modifies nothing
// the eviction callback (the wrapper installs none) is given the evicted pair and may not touch the cache
//@ callback EvictCallback(key, value)
//@   modifies nothing
//@ spec func entryOf(el) = cast(dynptr(el.Value), entry)
//@ spec func isEntry(el) = el != nil && allocated(el) && typeis(el.Value, "*core/hotspot/cache.entry") && entryOf(el) != nil && allocated(entryOf(el))
//@ func (c *LRU) AddIfAbsent(key, value) priorValue
//@   props C05
//@   requires[changes-the-list-needs-the-lock-exclusively]{C15} lruExclusive(c)
//@   requires[lru-as-built-by-the-wrapper]{C05} c != nil && c.evictList != nil && c.onEvict == nil
//@   requires[the-item-map-holds-entries]{C05} has(c.items, key) ==> isEntry(c.items[key])
//@   ensures[an-existing-binding-is-returned] old(has(c.items, key)) ==> priorValue == old(entryOf(c.items[key]).value)
//@   ensures[an-existing-binding-is-kept] old(has(c.items, key)) ==> has(c.items, key) && c.items[key] == old(c.items[key]) && entryOf(c.items[key]) == old(entryOf(c.items[key])) && entryOf(c.items[key]).value == old(entryOf(c.items[key]).value)
//@   ensures[a-new-key-reports-no-prior-value] !old(has(c.items, key)) ==> priorValue == nil
//@   ensures[the-item-map-still-holds-entries] has(c.items, key) ==> isEntry(c.items[key]) && (old(has(c.items, key)) || entryOf(c.items[key]).value == value)
//@   modifies heap
//@ func (c *LRU) Get(key) (value, isFound)
//@   props C05
//@   requires[moves-the-element-to-the-front-needs-the-lock-exclusively]{C15} lruExclusive(c)
//@   requires[lru-as-built-by-the-wrapper]{C05} c != nil && c.evictList != nil && c.onEvict == nil
//@   requires[the-item-map-holds-entries]{C05} has(c.items, key) ==> isEntry(c.items[key])
//@   ensures[found-iff-bound] isFound <==> old(has(c.items, key))
//@   ensures[the-bound-cell-is-returned] isFound ==> value == old(entryOf(c.items[key]).value)
//@   ensures[the-binding-is-kept] old(has(c.items, key)) ==> has(c.items, key) && c.items[key] == old(c.items[key]) && entryOf(c.items[key]) == old(entryOf(c.items[key])) && entryOf(c.items[key]).value == old(entryOf(c.items[key]).value)
//@   ensures[nothing-is-bound-by-a-lookup] !old(has(c.items, key)) ==> !has(c.items, key)
//@   modifies heap
//@ func (c *LRU) Remove(key) isFound
//@   assumed
//@   requires[changes-the-list-needs-the-lock-exclusively]{C15} lruExclusive(c)
//@   modifies heap
//@ func (c *LRU) Purge()
//@   assumed
//@   requires[changes-the-list-needs-the-lock-exclusively]{C15} lruExclusive(c)
//@   modifies heap
//@ func (c *LRU) Contains(key) ok
//@   assumed
//@   requires[reads-the-item-map-needs-the-lock]{C15} lruShared(c)
//@   modifies nothing
//@ func (c *LRU) Keys() r
//@   assumed
//@   requires[walks-the-list-needs-the-lock]{C15} lruShared(c)
//@   modifies nothing
//@ func (c *LRU) Len() r
//@   assumed
//@   requires[reads-the-list-needs-the-lock]{C15} lruShared(c)
//@   modifies nothing

//@ func NewLRUCacheMap(size) r
//@   props C15
//@   sets gLruGuard = upd(gLruGuard, ref(cast(dynptr(r), LruCacheMap).lru), ref(cast(dynptr(r), LruCacheMap).lock))
//@   ensures[the-lru-is-guarded-by-the-wrappers-own-new-lock]{C15} r != nil ==> typeis(r, "*core/hotspot/cache.LruCacheMap") && fresh(cast(dynptr(r), LruCacheMap)) && fresh(cast(dynptr(r), LruCacheMap).lock) && fresh(cast(dynptr(r), LruCacheMap).lru) && guardedMap(cast(dynptr(r), LruCacheMap))
//@   modifies gLruGuard

//@ func (c *LruCacheMap) Add(key, value)
//@   props C15
//@   requires guardedMap(c)
//@   ensures[lock-released-on-return]{C15} lockframe()
//@   modifies heap
//@ func (c *LruCacheMap) AddIfAbsent(key, value) priorValue
//@   props C15
//@   requires guardedMap(c)
//@   ensures[lock-released-on-return]{C15} lockframe()
//@   modifies heap
//@ func (c *LruCacheMap) Get(key) (value, isFound)
//@   props C15
//@   requires guardedMap(c)
//@   ensures[lock-released-on-return]{C15} lockframe()
//@   modifies heap
//@ func (c *LruCacheMap) Remove(key) isFound
//@   props C15
//@   requires guardedMap(c)
//@   ensures[lock-released-on-return]{C15} lockframe()
//@   modifies heap
//@ func (c *LruCacheMap) Contains(key) ok
//@   props C15
//@   requires guardedMap(c)
//@   ensures[lock-released-on-return]{C15} lockframe()
//@   modifies nothing
//@ func (c *LruCacheMap) Keys() r
//@   props C15
//@   requires guardedMap(c)
//@   ensures[lock-released-on-return]{C15} lockframe()
//@   modifies nothing
//@ func (c *LruCacheMap) Len() r
//@   props C15
//@   requires guardedMap(c)
//@   ensures[lock-released-on-return]{C15} lockframe()
//@   modifies nothing
//@ func (c *LruCacheMap) Purge()
//@   props C15
//@   requires guardedMap(c)
//@   ensures[lock-released-on-return]{C15} lockframe()
//@   modifies heap
