//go:build verif

package metric

// Contracts for core/log/metric (property C17). The metric log is file I/O around string formatting; what is within
// reach of contracts is the searcher's resume logic. Writing, rolling, reading and truncation are checked by the
// bounded stand-in c17_metric_log on the real code.

// whether the cached index position is still valid for a query: reads the index file (assumed, no effect on the cache)
//@ func (s *DefaultMetricSearcher) isPositionInTimeFor(beginTimeMs) (ok, err)
//@   assumed
//@   panics never
//@   modifies nothing

// A search resumes either from the very beginning (file 0, index offset 0) or at the cached position — and the cached
// index offset belongs to the cached file, so it may only be combined with that file.
//@ func (s *DefaultMetricSearcher) getOffsetStartAndFileIdx(filenames, beginTimeMs) (offsetInIdx, i, err)
//@   props C17
//@   requires s != nil && s.cachedPos != nil && len(filenames) < 4294967296
//@   panics never
//@   ensures[resume-only-at-the-cached-file] (i == 0 && offsetInIdx == 0) || (i < len(filenames) && filenames[i] == s.cachedPos.metricFilename && offsetInIdx == s.cachedPos.curOffsetInIdx)
//@   modifies nothing
//@   replay metric_search_resume
//@   loop 1:
//@     invariant[cache-untouched] frame()

// directory listing and index scanning are file I/O (assumed); what is checked is which index offset the search
// hands to which file: a non-zero resume offset belongs to the cached file only
//@ func listMetricFiles(baseDir, filePattern) (names, err)
//@   assumed
//@   panics never
//@   ensures len(names) < 4294967296
//@   modifies nothing
//@ func (s *DefaultMetricSearcher) findOffsetToStart(filename, beginTimeMs, lastPos) (offset, err)
//@   assumed
//@   requires[resume-offset-belongs-to-the-file]{C17} lastPos == 0 || filename == s.cachedPos.metricFilename
//@   panics never
//@   ensures s.cachedPos.metricFilename == filename || len(s.cachedPos.metricFilename) == 0
//@   modifies s.cachedPos.metricFilename, s.cachedPos.idxFilename, s.cachedPos.curOffsetInIdx, s.cachedPos.curSecInIdx
//@ callback (s *DefaultMetricSearcher) searchOffsetAndRead.doRead(names, fileNo, offset) (items, err)
//@   panics may
//@   modifies nothing

//@ func (s *DefaultMetricSearcher) searchOffsetAndRead(beginTimeMs, doRead) (items, err)
//@   props C17
//@   requires s != nil && s.cachedPos != nil
//@   loop 1:
//@     invariant[later-files-from-the-start] i >= fileNo && (i > fileNo ==> offsetStart == 0)
//@     invariant[first-file-is-the-cached-one] i == fileNo ==> offsetStart == 0 || (i < len(filenames) && filenames[i] == s.cachedPos.metricFilename)
