//go:build verif

package metric

// Contracts for core/log/metric (property C17). The metric log is file I/O around string formatting; what is within
// reach of contracts is the searcher's resume logic. Writing, rolling, reading and truncation are checked by the
// bounded stand-in c17_metric_log on the real code.

// file I/O around the cache check: assumed (no panic; binary.Read may put anything into its target)
//@ extern os.Stat(name) (fi, err)
//@   panics never
//@   modifies nothing
//@ func openFileAndSeekTo(filename, offset) (f, err)
//@   assumed
//@   panics never
//@   ensures err == nil ==> f != nil
//@   modifies nothing
// (binary.Read stores the decoded value through the pointer it is given — in this package always the address of a
// local 8-byte integer — and writes nothing else)
//@ extern encoding/binary.Read(r, order, data) err
//@   panics never
//@   modifies cell(dynptr(data))
//@ extern (*os.File).Close(f) err
//@   panics never
//@   modifies nothing

// whether the cached index position may be used for a query: never for a query that begins before the cached second
// (the index scan only moves forward from the cached offset), never when nothing is cached; the cache is not written
//@ func (s *DefaultMetricSearcher) isPositionInTimeFor(beginTimeMs) (ok, err)
//@   props C17
//@   requires s != nil && s.cachedPos != nil
//@   panics never
//@   ensures[never-for-an-earlier-begin] ok ==> beginTimeMs / 1000 >= old(s.cachedPos.curSecInIdx)
//@   ensures[never-without-a-cached-file] ok ==> old(s.cachedPos.idxFilename) != ""
//@   modifies nothing

// A search resumes either from the very beginning (file 0, index offset 0) or at the cached position — and the cached
// index offset belongs to the cached file, so it may only be combined with that file.
//@ func (s *DefaultMetricSearcher) getOffsetStartAndFileIdx(filenames, beginTimeMs) (offsetInIdx, i, err)
//@   props C17
//@   requires s != nil && s.cachedPos != nil && len(filenames) < 4294967296
//@   panics never
//@   ensures[resume-only-at-the-cached-file] (i == 0 && offsetInIdx == 0) || (i < len(filenames) && filenames[i] == s.cachedPos.metricFilename && offsetInIdx == s.cachedPos.curOffsetInIdx)
//@   modifies nothing
//@   replay metric_search_resume
//@   loop 1:
//@     invariant[cache-untouched] frame()

// directory listing and index scanning are file I/O (assumed); what is checked is which index offset the search
// hands to which file: a non-zero resume offset belongs to the cached file only
//@ ghost var gListedLen Int
//@ ghost var gListed (Array Int Str)
//@ func listMetricFiles(baseDir, filePattern) (names, err)
//@   assumed
//@   panics never
//@   ensures len(names) < 4294967296
//@   ensures err != nil ==> len(names) == 0
//@   ensures gListedLen == len(names) && (forall k Int :: 0 <= k && k < len(names) ==> sel(gListed, k) == names[k])
//@   modifies gListedLen, gListed
//@ func (s *DefaultMetricSearcher) findOffsetToStart(filename, beginTimeMs, lastPos) (offset, err)
//@   assumed
//@   requires[resume-offset-belongs-to-the-file]{C17} lastPos == 0 || filename == s.cachedPos.metricFilename
//@   panics never
//@   ensures s.cachedPos.metricFilename == filename || len(s.cachedPos.metricFilename) == 0
//@   modifies s.cachedPos.metricFilename, s.cachedPos.idxFilename, s.cachedPos.curOffsetInIdx, s.cachedPos.curSecInIdx
//@ callback (s *DefaultMetricSearcher) searchOffsetAndRead.doRead(names, fileNo, offset) (items, err)
//@   panics may
//@   modifies nothing

//@ func (s *DefaultMetricSearcher) searchOffsetAndRead(beginTimeMs, doRead) (items, err)
//@   props C17
//@   requires s != nil && s.cachedPos != nil
//@   loop 1:
//@     invariant[later-files-from-the-start] i >= fileNo && (i > fileNo ==> offsetStart == 0)
//@     invariant[first-file-is-the-cached-one] i == fileNo ==> offsetStart == 0 || (i < len(filenames) && filenames[i] == s.cachedPos.metricFilename)

// ---- the number of log files never exceeds the configured maximum: before a new file is opened the writer removes the
// oldest files (sorted listing, oldest first) until at most maxFileAmount-1 are left, each together with its index
// file (two removals per file; that the second name is the first plus the index suffix is string concatenation,
// which the contract language cannot state). File removal itself is the operating system's (assumed: it records which name it was asked to remove).
//@ ghost var gRmN Int
//@ ghost var gRmName (Array Int Str)
//@ extern os.Remove(name) err
//@   panics never
//@   ensures gRmN == old(gRmN) + 1 && gRmName == upd(old(gRmName), old(gRmN), name)
//@   modifies gRmN, gRmName
//@ func (d *DefaultMetricLogWriter) removeDeprecatedFiles() err
//@   props C17
//@   requires d != nil && d.maxFileAmount > 0
//@   let n0 = gRmN
//@   panics never
//@   ensures[room-for-the-next-file] gRmN == n0 + 2 * max(0, gListedLen - d.maxFileAmount + 1)
//@   ensures[oldest-first] forall k Int :: 0 <= k && 2 * k < gRmN - n0 ==> sel(gRmName, n0 + 2 * k) == sel(gListed, k)
//@   modifies gRmN, gRmName, gListedLen, gListed
//@   loop 1:
//@     invariant[removed-so-far] 0 <= i && (amountToRemove > 0 ==> i <= amountToRemove) && (amountToRemove <= 0 ==> i == 0) && gRmN == n0 + 2 * i && amountToRemove == len(files) - d.maxFileAmount + 1 && gListedLen == len(files)
//@     invariant[which] forall k Int :: 0 <= k && k < i ==> sel(gRmName, n0 + 2 * k) == files[k]
//@     invariant[listing] forall k Int :: 0 <= k && k < len(files) ==> sel(gListed, k) == files[k]

// ---- the writer's ordering logic over an abstract file. What reaches the two files is string formatting and buffered
// I/O (assumed helpers that record *that* they were asked to write, in ghost state); what is proved of Write, for every
// timestamp, writer state and item list: a batch of a second older than the latest accepted one writes nothing; the
// lines of a batch are handed to the file at most once; when the batch opens a new second, an index entry for exactly
// that second has been issued before its lines (the searcher finds lines only through the index) and none is issued in
// between for a batch of the same second; the latest accepted second never goes back and becomes the batch's second
// when the batch was written.
//@ ghost var gIdxN Int
//@ ghost var gIdxSec (Array Int Int)
//@ ghost var gLinesN Int
//@ ghost var gLinesIdxSeen (Array Int Int)
//@ func (d *DefaultMetricLogWriter) writeIndex(time, offset) err
//@   assumed
//@   ensures gIdxN == old(gIdxN) + 1 && gIdxSec == upd(old(gIdxSec), old(gIdxN), time)
//@   modifies gIdxN, gIdxSec
//@ func (d *DefaultMetricLogWriter) writeItemsAndFlush(items) err
//@   assumed
//@   ensures gLinesN == old(gLinesN) + 1 && gLinesIdxSeen == upd(old(gLinesIdxSeen), old(gLinesN), gIdxN)
//@   modifies gLinesN, gLinesIdxSeen
// rolling closes the current pair of files, removes the oldest ones and opens (and indexes the head of) the next pair:
// it may issue further index entries, never lines, and does not touch the entries issued before
//@ func (d *DefaultMetricLogWriter) rollToNextFile(time) err
//@   assumed
//@   ensures gIdxN >= old(gIdxN) && (forall j Int :: j < old(gIdxN) ==> sel(gIdxSec, j) == old(sel(gIdxSec, j)))
//@   modifies gIdxN, gIdxSec, gRmN, gRmName, gListedLen, gListed, d.curMetricFile, d.curMetricIdxFile, d.metricOut, d.idxOut
//@ func (d *DefaultMetricLogWriter) rollFileIfSizeExceeded(time) err
//@   assumed
//@   ensures gIdxN >= old(gIdxN) && (forall j Int :: j < old(gIdxN) ==> sel(gIdxSec, j) == old(sel(gIdxSec, j)))
//@   modifies gIdxN, gIdxSec, gRmN, gRmName, gListedLen, gListed, d.curMetricFile, d.curMetricIdxFile, d.metricOut, d.idxOut
//@ func (d *DefaultMetricLogWriter) Write(ts, items) err
//@   props C17
//@   requires d != nil && d.mux != nil
//@   let sec = ts / 1000
//@   let last0 = d.latestOpSec
//@   let i0 = gIdxN
//@   let l0 = gLinesN
//@   ensures[no-items-nothing-written] len(items) == 0 ==> err == nil && gLinesN == l0 && gIdxN == i0 && d.latestOpSec == last0
//@   ensures[stale-second-ignored] sec < last0 ==> gLinesN == l0 && gIdxN == i0 && d.latestOpSec == last0
//@   ensures[lines-at-most-once] gLinesN == l0 || gLinesN == l0 + 1
//@   ensures[index-before-the-lines-of-a-new-second] gLinesN == l0 + 1 && sec > last0 ==> gIdxN > i0 && sel(gIdxSec, i0) == sec && sel(gLinesIdxSeen, l0) > i0
//@   ensures[same-second-no-index-before-its-lines] gLinesN == l0 + 1 && sec == last0 ==> sel(gLinesIdxSeen, l0) == i0
//@   ensures[accepted-batch-is-written] err == nil && len(items) > 0 && sec >= last0 ==> gLinesN == l0 + 1 && d.latestOpSec == sec
//@   ensures[latest-second-never-goes-back] d.latestOpSec >= last0 && (d.latestOpSec == last0 || d.latestOpSec == sec)
