//go:build verif

package config

// Contracts for core/config: the statistic geometry getters are functions of the global configuration, which is fixed
// once the library is initialised (assumed: not reloaded while rules are built) and sane (positive, total interval a
// multiple of the sample count — what config validation enforces).

//@ func GlobalStatisticIntervalMsTotal() r
//@   assumed
//@   pure
//@   stable
//@   ensures r > 0
//@ func GlobalStatisticSampleCountTotal() r
//@   assumed
//@   pure
//@   stable
//@   ensures r > 0
//@ func GlobalStatisticBucketLengthInMs() r
//@   assumed
//@   pure
//@   stable
//@   ensures r > 0
//@ func MetricStatisticIntervalMs() r
//@   assumed
//@   pure
//@   stable
//@   ensures r > 0
