//go:build verif

package outlier

// Contracts for core/outlier.

// ---- C13: whole-set load. The grouping loop must cope with any element, including nil; the rebuild itself
// (onRuleUpdate) is under a separate contract.
//@ func onRuleUpdate(rawResRulesMap) err
//@   assumed
//@ func LoadRules(rules) (changed, err)
//@   props C13
//@   panics never
//@   witness n = len(rules)
//@   replay loadrules_nil
