//go:build verif

package outlier

// Contracts for core/outlier.

// ---- C13: whole-set load. The grouping loop must cope with any element, including nil; the rebuild itself
// (onRuleUpdate) is under a separate contract.
//@ spec func validOutlier(r) = r != nil && len(r.Resource) > 0 && r.MaxEjectionPercent >= 0.0 && r.MaxEjectionPercent <= 1.0
//@ spec func validBreakerRule(r) = r != nil && len(r.Resource) > 0 && r.StatIntervalMs > 0 && r.RetryTimeoutMs > 0 && r.Threshold >= 0.0 && !(r.Strategy == circuitbreaker.SlowRequestRatio && r.Threshold > 1.0) && !(r.Strategy == circuitbreaker.ErrorRatio && r.Threshold > 1.0)
//@ func IsValidRule(r) err
//@   props C13
//@   ensures[iff] err == nil <==> validOutlier(r)
//@   modifies nothing
// (circuitbreaker.IsValidRule is used through its own contract, proved in that package: err == nil <==> validRule(r),
// the same predicate as validBreakerRule here)
//@ func LogRuleUpdate(m)
//@   assumed
//@   panics never
//@   modifies nothing

// whole-set load, called by LoadRules with the update lock held: the raw map is recorded; the two rule tables in
// force are new maps with the same keys, holding exactly the entries whose outlier rule AND embedded breaker rule are
// valid; nothing that existed before is written (the node breakers are rebuilt by updateAllBreakers, assumed)
//@ func onRuleUpdate(rulesMap) err
//@   props C13
//@   requires[holds-the-update-lock]{C15} wlockcount(updateRuleMux) > 0
//@   ensures[raw-recorded] err == nil ==> currentRules == rulesMap
//@   ensures[new-tables] err == nil ==> outlierRules != nil && fresh(outlierRules) && breakerRules != nil && fresh(breakerRules)
//@   ensures[only-valid-rules-in-force] err == nil ==> (forall s Str :: has(outlierRules, s) ==> validOutlier(outlierRules[s]) && has(breakerRules, s) && breakerRules[s] == outlierRules[s].Rule && validBreakerRule(breakerRules[s]))
//@   ensures[tables-agree] err == nil ==> (forall s Str :: has(breakerRules, s) ==> has(outlierRules, s))
//@   ensures[every-valid-rule-in-force] err == nil ==> (forall s Str :: has(rulesMap, s) && validOutlier(rulesMap[s]) && validBreakerRule(rulesMap[s].Rule) ==> has(outlierRules, s) && outlierRules[s] == rulesMap[s])
//@   modifies outlierRules, breakerRules, currentRules, nodeBreakers
//@   loop 1:
//@     invariant[new-tables] validRulesMap != nil && fresh(validRulesMap) && validCircuitRulesMap != nil && fresh(validCircuitRulesMap) && validRulesMap != validCircuitRulesMap
//@     invariant[only-valid] forall s Str :: has(validRulesMap, s) ==> validOutlier(validRulesMap[s]) && has(validCircuitRulesMap, s) && validCircuitRulesMap[s] == validRulesMap[s].Rule && validBreakerRule(validCircuitRulesMap[s])
//@     invariant[agree] forall s Str :: has(validCircuitRulesMap, s) ==> has(validRulesMap, s)
//@     invariant[complete-so-far] forall s Str :: sel(#seen, s) && validOutlier(rulesMap[s]) && validBreakerRule(rulesMap[s].Rule) ==> has(validRulesMap, s) && validRulesMap[s] == rulesMap[s]
//@     invariant[nothing-else-written] frame()
//@ func LoadRules(rules) (changed, err)
//@   props C13
//@   panics never
//@   witness n = len(rules)
//@   replay loadrules_nil

// ---- C20: the nodes reported for filtering
// the per-request snapshot of the node breakers (a copy of the registry entry; the copy loop is not under contract)
//@ func getNodeBreakersOfResource(resource) r
//@   assumed
//@   ensures r != nil && fresh(r) && len(r) == len(nodeBreakers[resource]) && (forall a Str :: has(r, a) == has(nodeBreakers[resource], a) && r[a] == nodeBreakers[resource][a])
//@   modifies nothing

//@ spec func rejects(b) = !sel(gLastTry, dynptr(b))

//@ func checkAllNodes(ctx) (filters, outliers, halfs)
//@   props C20
//@   requires ctx != nil && ctx.Resource != nil && outlierRules[ctx.Resource.name] != nil
//@   let rule = outlierRules[ctx.Resource.name]
//@   let nodes = nodeBreakers[ctx.Resource.name]
//@   let n = len(nodes)
//@   requires 0.0 <= rule.MaxEjectionPercent && rule.MaxEjectionPercent <= 1.0 && 0 <= n && n <= 1048576 && (forall a Str :: has(nodes, a) ==> nodes[a] != nil)
//@   requires forall a Str :: forall b Str :: has(nodes, a) && has(nodes, b) && a != b ==> dynptr(nodes[a]) != dynptr(nodes[b])
//@   ensures[share-bound] len(filters) <= floor(R(n) * rule.MaxEjectionPercent)
//@   ensures[filtered-reject] forall j Int :: 0 <= j && j < len(filters) ==> has(nodes, filters[j]) && rejects(nodes[filters[j]])
//@   ensures[outliers-reject] forall j Int :: 0 <= j && j < len(outliers) ==> has(nodes, outliers[j]) && rejects(nodes[outliers[j]])
//@   ensures[half-open-are-passive-probes] forall j Int :: 0 <= j && j < len(halfs) ==> has(nodes, halfs[j]) && !rejects(nodes[halfs[j]]) && !rule.EnableActiveRecovery
//@   ensures[half-open-is-the-state-after-the-probe] forall j Int :: 0 <= j && j < len(halfs) ==> sel(gStateAfterTry, dynptr(nodes[halfs[j]])) == circuitbreaker.HalfOpen
//@   ensures[every-passive-probe-is-reported-half-open] forall a Str :: has(nodes, a) && !rejects(nodes[a]) && !rule.EnableActiveRecovery && sel(gStateAfterTry, dynptr(nodes[a])) == circuitbreaker.HalfOpen ==> (exists j Int :: 0 <= j && j < len(halfs) && halfs[j] == a)
//@   loop 1:
//@     invariant[share-bound] len(filters) <= floor(R(n) * rule.MaxEjectionPercent)
//@     invariant[fresh-lists] (cap(filters) == 0 || fresh(base(filters))) && (cap(outliers) == 0 || fresh(base(outliers))) && (cap(halfs) == 0 || fresh(base(halfs)))
//@     invariant[separate-lists] (cap(filters) > 0 && cap(outliers) > 0 ==> base(filters) != base(outliers)) && (cap(filters) > 0 && cap(halfs) > 0 ==> base(filters) != base(halfs)) && (cap(outliers) > 0 && cap(halfs) > 0 ==> base(outliers) != base(halfs))
//@     invariant[filtered-reject] forall j Int :: 0 <= j && j < len(filters) ==> has(nodes, filters[j]) && sel(#seen, filters[j]) && rejects(nodes[filters[j]])
//@     invariant[outliers-reject] forall j Int :: 0 <= j && j < len(outliers) ==> has(nodes, outliers[j]) && sel(#seen, outliers[j]) && rejects(nodes[outliers[j]])
//@     invariant[half-open-known] forall j Int :: 0 <= j && j < len(halfs) ==> has(nodes, halfs[j]) && sel(#seen, halfs[j])
//@     invariant[half-open-passing] forall j Int :: 0 <= j && j < len(halfs) ==> !rejects(nodes[halfs[j]])
//@     invariant[half-open-passive] len(halfs) > 0 ==> !rule.EnableActiveRecovery
//@     invariant[half-open-state] forall j Int :: 0 <= j && j < len(halfs) ==> sel(gStateAfterTry, dynptr(nodes[halfs[j]])) == circuitbreaker.HalfOpen
//@     invariant[half-open-complete] forall a Str :: sel(#seen, a) && has(nodes, a) && !rejects(nodes[a]) && !rule.EnableActiveRecovery && sel(gStateAfterTry, dynptr(nodes[a])) == circuitbreaker.HalfOpen ==> (exists j Int :: 0 <= j && j < len(halfs) && halfs[j] == a)
//@     invariant[probed-are-the-seen] forall a Str :: has(nodes, a) && !sel(#seen, a) ==> sel(gLastTry, dynptr(nodes[a])) == sel(old(gLastTry), dynptr(nodes[a])) && sel(gStateAfterTry, dynptr(nodes[a])) == sel(old(gStateAfterTry), dynptr(nodes[a]))
//@     invariant[registry-untouched] nodeBreakers[ctx.Resource.name] == nodes && outlierRules[ctx.Resource.name] == rule

// the slot hands exactly this request's lists to the caller: the filter list of the (pooled, reused) rule-check result is
// overwritten on every request of a named resource, so a node reported for filtering is one whose breaker rejected
// THIS request, never a left-over of an earlier one
//@ func (s *Slot) Check(ctx) r
//@   props C20
//@   requires ctx != nil && ctx.Resource != nil && ctx.RuleCheckResult != nil && outlierRules[ctx.Resource.name] != nil
//@   let rule = outlierRules[ctx.Resource.name]
//@   let nodes = nodeBreakers[ctx.Resource.name]
//@   let n = len(nodes)
//@   requires 0.0 <= rule.MaxEjectionPercent && rule.MaxEjectionPercent <= 1.0 && 0 <= n && n <= 1048576 && (forall a Str :: has(nodes, a) ==> nodes[a] != nil)
//@   requires forall a Str :: forall b Str :: has(nodes, a) && has(nodes, b) && a != b ==> dynptr(nodes[a]) != dynptr(nodes[b])
//@   ensures[same-result] r == old(ctx.RuleCheckResult)
//@   ensures[share-bound] len(ctx.Resource.name) > 0 ==> len(r.filterNodes) <= floor(R(n) * rule.MaxEjectionPercent)
//@   ensures[reported-reject-this-request] len(ctx.Resource.name) > 0 ==> (forall j Int :: 0 <= j && j < len(r.filterNodes) ==> has(nodes, r.filterNodes[j]) && rejects(nodes[r.filterNodes[j]]))
//@   ensures[half-open-are-passive-probes] len(ctx.Resource.name) > 0 ==> (forall j Int :: 0 <= j && j < len(r.halfOpenNodes) ==> has(nodes, r.halfOpenNodes[j]) && !rejects(nodes[r.halfOpenNodes[j]]) && !rule.EnableActiveRecovery)

// ---- recycling: a node is only removed when it is marked "not recovered"; a successful completion marks it recovered
//@ func deleteNodeBreakerOfResource(resource, address)
//@   assumed
//@   ensures gDeleted == old(gDeleted) + 1
//@   modifies gDeleted, mapof(nodeBreakers[resource])
//@ ghost var gDeleted Int

// time.AfterFunc only arms a timer: the function runs later on another goroutine (outside the thread-local model, like a
// channel send); nothing of this thread's state changes
//@ extern time.AfterFunc(d, f) t
//@   ensures t != nil
//@   modifies nothing

// scheduling a reported node for recycling never touches the mark of a node that is already scheduled: a node that
// has completed a request successfully since (marked recovered) stays marked, however often it is reported again;
// a node seen for the first time is entered as "not recovered"
//@ func (r *Recycler) scheduleNodes(nodes)
//@   props C20
//@   requires r != nil && r.status != nil
//@   ensures[scheduled-nodes-keep-their-mark] forall k Str :: old(has(r.status, k)) ==> has(r.status, k) && r.status[k] == old(r.status[k])
//@   ensures[new-nodes-pending] forall j Int :: 0 <= j && j < len(nodes) && !old(has(r.status, nodes[j])) ==> has(r.status, nodes[j]) && !r.status[nodes[j]]
//@   ensures[only-reported-nodes-added] forall k Str :: has(r.status, k) && !old(has(r.status, k)) ==> !r.status[k]
//@   modifies mapof(r.status)
//@   loop 1:
//@     invariant[scheduled-nodes-keep-their-mark] forall k Str :: old(has(r.status, k)) ==> has(r.status, k) && r.status[k] == old(r.status[k])
//@     invariant[new-nodes-pending] forall j Int :: 0 <= j && j < #i && !old(has(r.status, nodes[j])) ==> has(r.status, nodes[j]) && !r.status[nodes[j]]
//@     invariant[only-reported-nodes-added] forall k Str :: has(r.status, k) && !old(has(r.status, k)) ==> !r.status[k]
//@     invariant[same-map] r.status == old(r.status) && r.status != nil
//@     invariant[only-the-status-map-written] frame(mapof(r.status))

//@ ghost var gRecoverN Int
//@ func (r *Recycler) recover(node)
//@   props C20
//@   requires r != nil && r.status != nil
//@   sets gRecoverN = old(gRecoverN) + 1
//@   ensures[recorded] gRecoverN == old(gRecoverN) + 1
//@   ensures[marks-recovered] old(has(r.status, node)) ==> has(r.status, node) && r.status[node]
//@   ensures[unknown-node-ignored] !old(has(r.status, node)) ==> !has(r.status, node)
//@   ensures[others-untouched] forall k Str :: k != node ==> has(r.status, k) == old(has(r.status, k)) && r.status[k] == old(r.status[k])
//@   modifies mapof(r.status), gRecoverN

// the per-resource recycler registry and the creation of a node breaker are not specified here (assumed)
//@ func getRecyclerOfResource(resource) r
//@   assumed
//@   ensures r != nil && allocated(r) && r.status != nil
//@   modifies heap
//@ func addNodeBreakerOfResource(resource, address)
//@   assumed
//@   modifies heap

// "a node that completes a request successfully is not recycled": the completion is reported to the node's breaker at
// most once, and exactly when that report carries no error the pending recycling of the node is cancelled
//@ func (c *MetricStatSlot) OnCompleted(ctx)
//@   props C20
//@   requires ctx != nil && ctx.Resource != nil
//@   let d0 = gDoneN
//@   let r0 = gRecoverN
//@   ensures[completion-reported-at-most-once] gDoneN == d0 || gDoneN == d0 + 1
//@   ensures[successful-completion-cancels-recycling] gDoneN == d0 + 1 && sel(gDoneErr, d0) == nil ==> gRecoverN == r0 + 1
//@   ensures[nothing-cancelled-otherwise] gDoneN == d0 || sel(gDoneErr, d0) != nil ==> gRecoverN == r0

//@ func (r *Recycler) recycle(node)
//@   props C20
//@   requires r != nil && r.status != nil && ref(r.status) != ref(nodeBreakers[r.resource])
//@   ensures[removed-only-if-not-recovered] gDeleted == old(gDeleted) + (old(has(r.status, node)) && !old(r.status[node]) ? 1 : 0)
//@   ensures[forgotten] !has(r.status, node)
//@   ensures[others-untouched] forall k Str :: k != node ==> has(r.status, k) == old(has(r.status, k)) && r.status[k] == old(r.status[k])

// ---- C15: lock discipline of the rule tables (a load, store or use of the variable outside its lock is a data race)
//@ guarded outlierRules by updateMux readers-also updateRuleMux {C15}
//@ guarded breakerRules by updateMux readers-also updateRuleMux {C15}
//@ guarded nodeBreakers by updateMux {C15}
//@ guarded currentRules by updateRuleMux {C15}

// per-resource load, called by LoadRulesOfResource with the update lock held: a rule that is invalid (itself or its
// embedded breaker rule) is rejected and nothing changes; a valid one is put in force for that resource (that the
// entries of other resources stay as they are is not discharged by the solvers here — the frame obligations only
// show that no other object is written)
//@ func onResourceRuleUpdate(res, rule) err
//@   props C13
//@   requires[holds-the-update-lock]{C15} wlockcount(updateRuleMux) > 0
//@   requires outlierRules != nil && breakerRules != nil && nodeBreakers != nil && currentRules != nil
//@   requires[tables-are-distinct-objects] ref(outlierRules) != ref(currentRules) && ref(outlierRules) != ref(breakerRules) && ref(outlierRules) != ref(nodeBreakers) && ref(breakerRules) != ref(currentRules) && ref(breakerRules) != ref(nodeBreakers) && ref(nodeBreakers) != ref(currentRules)
//@   ensures[invalid-rule-rejected] !(validOutlier(rule) && validBreakerRule(rule.Rule)) ==> err != nil
//@   ensures[rejected-load-changes-nothing] err != nil ==> frame()
//@   ensures[valid-rule-in-force] err == nil ==> validOutlier(rule) && validBreakerRule(rule.Rule) && outlierRules[res] == rule && breakerRules[res] == rule.Rule && currentRules[res] == rule
//@   modifies mapof(outlierRules), mapof(breakerRules), mapof(nodeBreakers), mapof(currentRules)
//@   loop 1:
//@     invariant[new-node-table] newBreakers != nil && fresh(newBreakers)
//@     invariant[nothing-written] frame()

// rebuilds every node breaker from the rule tables and swaps the registry (assumed: its loops over maps of maps and
// the breaker builder are not under contract); it does not touch the rule tables
//@ func updateAllBreakers()
//@   assumed
//@   requires[holds-the-update-lock]{C15} wlockcount(updateRuleMux) > 0
//@   panics may
//@   modifies nodeBreakers
//@ lockorder updateRuleMux updateMux {C15}
