//go:build verif

package base

// Contracts for core/stat/base (properties C08, C09). Arithmetic in contracts is over the integers (no wrap).

//@ spec func startOf(t, L) = t - t % L
//@ spec func slotOf(t, L, n) = (t / L) % n

//@ func calculateStartTime(now, L) r
//@   props C08, C02
//@   requires L > 0
//@   ensures[def] r == startOf(now, L)
//@   ensures[aligned] r % L == 0 && r <= now && now < r + L
//@   modifies nothing

//@ func (la *LeapArray) calculateTimeIdx(now) r
//@   props C08, C02
//@   requires la != nil && la.bucketLengthInMs > 0 && la.array != nil && la.array.length > 0 && now < 4611686018427387904
//@   ensures[def] r == slotOf(now, la.bucketLengthInMs, la.array.length)
//@   ensures[range] 0 <= r && r < la.array.length
//@   modifies nothing

//@ func (ww *BucketWrap) isTimeInBucket(now, L) r
//@   props C08
//@   requires ww != nil && ww.BucketStart < 4611686018427387904
//@   ensures[def] r <==> (ww.BucketStart <= now && now < ww.BucketStart + L)
//@   modifies nothing

// a bucket is outside the array's horizon: it starts in the future or more than one interval ago
//@ func (la *LeapArray) isBucketDeprecated(now, ww) r
//@   props C08, C02
//@   requires la != nil && ww != nil && now < 4611686018427387904 && ww.BucketStart < 4611686018427387904
//@   ensures[def] r <==> (ww.BucketStart > now || now - ww.BucketStart > la.intervalInMs)
//@   modifies nothing

// the window of a view (interval Iv) over an array with bucket length L, ending at the bucket of timeMs
//@ func (m *SlidingWindowMetric) getBucketStartRange(timeMs) (start, end)
//@   props C08, C02
//@   requires m != nil && m.real != nil && m.real.data.bucketLengthInMs > 0 && timeMs < 4611686018427387904
//@   let L = m.real.data.bucketLengthInMs
//@   case regular: startOf(timeMs, L) + L >= m.intervalInMs
//@   case near-zero: startOf(timeMs, L) + L < m.intervalInMs
//@   ensures[end] end == startOf(timeMs, L)
//@   ensures[start] start == max(0, end - m.intervalInMs + L)
//@   modifies nothing
//@   witness timeMs = timeMs
//@   witness L = m.real.data.bucketLengthInMs
//@   witness Iv = m.intervalInMs
//@   replay statbase_startrange

// ---- MetricBucket: one bucket's counters. Amounts and counters stay below 2^62 (no int64 overflow).
//@ spec func small(v) = 0 - 4611686018427387904 < v && v < 4611686018427387904
//@ spec func validEvent(e) = 0 <= e && e < base.MetricEventTotal

//@ func (mb *MetricBucket) Add(event, count)
//@   props C08, C09, C02
//@   requires mb != nil && small(count) && (validEvent(event) ==> small(mb.counter[event]))
//@   ensures[counted] validEvent(event) ==> mb.counter[event] == old(mb.counter[event]) + count
//@   ensures[others] forall e Int :: e != event || !validEvent(event) ==> mb.counter[e] == old(mb.counter[e])
//@   ensures[min-rt] mb.minRt == (event == base.MetricEventRt && count < old(mb.minRt) ? count : old(mb.minRt))
//@   modifies mb.counter, mb.minRt
// C09 (thread-modular): whatever other recorders do to this bucket meanwhile, this call changes the counter of its
// own event by exactly the recorded amount, in one atomic step, and writes no other counter
//@   concurrent C09
//@   shared mb.counter, mb.minRt
//@   onwrite[only-own-counter-by-exactly-the-recorded-amount]{C09} mb.counter: validEvent(event) && idx == event && (small(prev) ==> new == prev + count)
//@   onwrite[min-rt-is-a-recorded-rt]{C09} mb.minRt: event == base.MetricEventRt && new == count

//@ func (mb *MetricBucket) Get(event) r
//@   props C08, C09, C02
//@   requires mb != nil
//@   ensures[def] r == (validEvent(event) ? mb.counter[event] : 0)
//@   modifies nothing

//@ func (mb *MetricBucket) reset()
//@   props C08, C09
//@   requires mb != nil
//@   ensures[zeroed]{C02,C08,C09,seq} forall e Int :: validEvent(e) ==> mb.counter[e] == 0
//@   ensures[defaults]{C02,C08,C09,seq} mb.minRt == base.DefaultStatisticMaxRt && mb.maxConcurrency == 0
//@   modifies mb.counter, mb.minRt, mb.maxConcurrency
// C09 (thread-modular): whatever late recorders do to this bucket meanwhile, the reset stores a zero into every counter
// (unconditionally — not only when a racy read of the counter says there is something to clear, and not by an exchange
// that gives up when a recorder got in between): no amount recorded before the reset began survives it
//@   concurrent C09 and sequential
//@   shared mb.counter, mb.minRt
//@   onwrite[counters-are-only-ever-cleared]{C09} mb.counter: new == 0
//@   ensures[every-counter-is-cleared-whatever-other-recorders-do]{C09,conc} forall e Int :: validEvent(e) ==> written(mb.counter[e])
//@   ensures[min-rt-is-put-back-whatever-other-recorders-do]{C09,conc} written(mb.minRt)
//@   loop 1:
//@     invariant[prefix-zero]{seq} 0 <= i && i <= base.MetricEventTotal && (forall e Int :: 0 <= e && e < i ==> mb.counter[e] == 0)
//@     invariant[prefix-cleared]{conc} 0 <= i && i <= base.MetricEventTotal && (forall e Int :: 0 <= e && e < i ==> written(mb.counter[e]))
//@     invariant[frame]{seq} frame(mb.counter)

//@ func (mb *MetricBucket) UpdateConcurrency(concurrency)
//@   props C08
//@   requires mb != nil
//@   ensures[max] mb.maxConcurrency == max(old(mb.maxConcurrency), concurrency)
//@   modifies mb.maxConcurrency

//@ func (mb *MetricBucket) MinRt() r
//@   props C08
//@   requires mb != nil
//@   ensures r == mb.minRt
//@   modifies nothing

//@ func (mb *MetricBucket) MaxConcurrency() r
//@   props C08
//@   requires mb != nil
//@   ensures r == mb.maxConcurrency
//@   modifies nothing

// ---- LeapArray reads.  D9: the unsafe pointer arithmetic of AtomicBucketWrapArray.get/compareAndSet is replaced by
// the assumed contract "slot idx of data".
//@ func (aa *AtomicBucketWrapArray) get(idx) r
//@   assumed
//@   requires aa != nil
//@   ensures (0 <= idx && idx < aa.length ==> r == aa.data[idx]) && (!(0 <= idx && idx < aa.length) ==> r == nil)
//@   modifies nothing

//@ spec func arrayOK(la) = la != nil && la.array != nil && la.array.length >= 0 && la.array.length == len(la.array.data) && allocated(base(la.array.data)) && (forall i Int :: 0 <= i && i < la.array.length && la.array.data[i] != nil ==> la.array.data[i].BucketStart < 4611686018427387904)
//@ spec func live(la, now, ww) = ww != nil && !(ww.BucketStart > now || now - ww.BucketStart > la.intervalInMs)

// the result lists, in slot order, exactly the live buckets whose start satisfies the predicate:
// slot i (if picked) is at position countTrue(pick, i), and the length is countTrue(pick, length)
//@ func (la *LeapArray) ValuesConditional(now, predicate) r
//@   props C08, C02
//@   requires arrayOK(la) && now < 4611686018427387904
//@   let pick = seqof(i, 0 <= i && i < la.array.length && now > 0 && live(la, now, la.array.data[i]) && predicate(la.array.data[i].BucketStart))
//@   ensures[time-zero] now == 0 ==> len(r) == 0
//@   ensures[length] now > 0 ==> len(r) == countTrue(pick, la.array.length)
//@   ensures[placed] forall i Int :: 0 <= i && i < la.array.length && sel(pick, i) ==> r[countTrue(pick, i)] == la.array.data[i] && 0 <= countTrue(pick, i) && countTrue(pick, i) < len(r)
//@   ensures[fresh] len(r) == 0 || fresh(base(r))
//@   ensures[bounded-length] len(r) <= la.array.length
//@   ensures[from-data] forall j Int :: 0 <= j && j < len(r) ==> (exists i Int :: 0 <= i && i < la.array.length && sel(pick, i) && r[j] == la.array.data[i])
//@   modifies nothing
//@   loop 1:
//@     invariant[idx] 0 <= i && i <= la.array.length && len(ret) <= i
//@     invariant[from-data] forall j Int :: 0 <= j && j < len(ret) ==> (exists k Int :: 0 <= k && k < i && sel(pick, k) && ret[j] == la.array.data[k])
//@     invariant[length] len(ret) == countTrue(pick, i) && fresh(base(ret))
//@     invariant[positions] forall k Int :: 0 <= k && k < i && sel(pick, k) ==> 0 <= countTrue(pick, k) && countTrue(pick, k) < len(ret)
//@     invariant[placed] forall k Int :: 0 <= k && k < i && sel(pick, k) ==> ret[countTrue(pick, k)] == la.array.data[k]
//@     invariant[frame] frame()

//@ func (la *LeapArray) valuesWithTime(now) r
//@   props C08
//@   requires arrayOK(la) && now < 4611686018427387904
//@   let pick = seqof(i, 0 <= i && i < la.array.length && now > 0 && live(la, now, la.array.data[i]))
//@   ensures[time-zero] now == 0 ==> len(r) == 0
//@   ensures[length] now > 0 ==> len(r) == countTrue(pick, la.array.length)
//@   ensures[placed] forall i Int :: 0 <= i && i < la.array.length && sel(pick, i) ==> r[countTrue(pick, i)] == la.array.data[i] && 0 <= countTrue(pick, i) && countTrue(pick, i) < len(r)
//@   ensures[fresh] len(r) == 0 || fresh(base(r))
//@   ensures[bounded-length] len(r) <= la.array.length
//@   ensures[from-data] forall j Int :: 0 <= j && j < len(r) ==> (exists i Int :: 0 <= i && i < la.array.length && sel(pick, i) && r[j] == la.array.data[i])
//@   modifies nothing
//@   loop 1:
//@     invariant[idx] 0 <= i && i <= la.array.length && len(ret) <= i
//@     invariant[from-data] forall j Int :: 0 <= j && j < len(ret) ==> (exists k Int :: 0 <= k && k < i && sel(pick, k) && ret[j] == la.array.data[k])
//@     invariant[length] len(ret) == countTrue(pick, i) && fresh(base(ret))
//@     invariant[positions] forall k Int :: 0 <= k && k < i && sel(pick, k) ==> 0 <= countTrue(pick, k) && countTrue(pick, k) < len(ret)
//@     invariant[placed] forall k Int :: 0 <= k && k < i && sel(pick, k) ==> ret[countTrue(pick, k)] == la.array.data[k]
//@     invariant[frame] frame()

// ---- P1 selection: a view reads exactly the live buckets whose start lies in its bucket-aligned window
//@ spec func inWindow(m, now, s) = max(0, startOf(now, m.real.data.bucketLengthInMs) - m.intervalInMs + m.real.data.bucketLengthInMs) <= s && s <= startOf(now, m.real.data.bucketLengthInMs)
//@ func (m *SlidingWindowMetric) getSatisfiedBuckets(now) r
//@   props C08, C02
//@   requires m != nil && m.real != nil && arrayOK(m.real.data) && m.real.data.bucketLengthInMs > 0 && now < 4611686018427387904
//@   let la = m.real.data
//@   let pick = seqof(i, 0 <= i && i < la.array.length && now > 0 && live(la, now, la.array.data[i]) && inWindow(m, now, la.array.data[i].BucketStart))
//@   ensures[time-zero] now == 0 ==> len(r) == 0
//@   ensures[length] now > 0 ==> len(r) == countTrue(pick, la.array.length)
//@   ensures[placed] forall i Int :: 0 <= i && i < la.array.length && sel(pick, i) ==> r[countTrue(pick, i)] == la.array.data[i] && 0 <= countTrue(pick, i) && countTrue(pick, i) < len(r)
//@   ensures[bounded-length] len(r) <= la.array.length
//@   ensures[from-data] forall j Int :: 0 <= j && j < len(r) ==> (exists i Int :: 0 <= i && i < la.array.length && sel(pick, i) && r[j] == la.array.data[i])
//@   ensures[pick-def] forall i Int :: 0 <= i && i < la.array.length ==> (sel(pick, i) <==> (now > 0 && live(la, now, la.array.data[i]) && inWindow(m, now, la.array.data[i].BucketStart)))
//@   modifies nothing

// ---- P4 aggregation
//@ spec rec seqsum(a (Array Int Int), k Int) Int = k <= 0 ? 0 : seqsum(a, k - 1) + sel(a, k - 1)
//@ spec func bucketOf(ww) = cast(dynptr(stored(ww.Value)), MetricBucket)
//@ spec func isBucket(ww) = ww != nil && typeis(stored(ww.Value), "*core/stat/base.MetricBucket") && bucketOf(ww) != nil && allocated(bucketOf(ww))
//@ spec func bounded(v) = 0 - 1099511627776 <= v && v <= 1099511627776

//@ func (m *SlidingWindowMetric) count(event, values) r
//@   props C08, C02
//@   requires validEvent(event) && len(values) <= 65536
//@   requires forall j Int :: 0 <= j && j < len(values) ==> isBucket(values[j]) && bounded(bucketOf(values[j]).counter[event])
//@   let vals = seqof(j, bucketOf(values[j]).counter[event])
//@   ensures[sum] r == seqsum(vals, len(values))
//@   modifies nothing
//@   loop 1:
//@     invariant[partial-sum] ret == seqsum(vals, #i) && 0 - #i * 1099511627776 <= ret && ret <= #i * 1099511627776

// ---- compaction: summing over the compacted list equals summing over the picked slots (proved by induction)
//@ spec rec isum(p (Array Int Bool), v (Array Int Int), k Int) Int = k <= 0 ? 0 : isum(p, v, k - 1) + (sel(p, k - 1) ? sel(v, k - 1) : 0)
//@ ilemma compaction {C08,C02} (pick (Array Int Bool), vr (Array Int Int), vd (Array Int Int), n Int) induction i
//@   requires forall k Int :: 0 <= k && k < n && sel(pick, k) ==> sel(vr, countTrue(pick, k)) == sel(vd, k)
//@   ensures 0 <= countTrue(pick, i) && (i <= n ==> seqsum(vr, countTrue(pick, i)) == isum(pick, vd, i))

// a view's sum is the sum, over the array's slots, of the counters of the live buckets in the aligned window
//@ spec func bucketsOK(la, event) = forall i Int :: 0 <= i && i < la.array.length && la.array.data[i] != nil ==> isBucket(la.array.data[i]) && bounded(bucketOf(la.array.data[i]).counter[event])
//@ func (m *SlidingWindowMetric) getSumWithTime(now, event) r
//@   props C08, C02
//@   requires m != nil && m.real != nil && arrayOK(m.real.data) && m.real.data.bucketLengthInMs > 0 && now < 4611686018427387904
//@   requires validEvent(event) && m.real.data.array.length <= 65536 && bucketsOK(m.real.data, event)
//@   let la = m.real.data
//@   let pick = seqof(i, 0 <= i && i < la.array.length && now > 0 && live(la, now, la.array.data[i]) && inWindow(m, now, la.array.data[i].BucketStart))
//@   let slotVals = seqof(i, bucketOf(la.array.data[i]).counter[event])
//@   use compaction(pick, seqof(j, bucketOf(satisfiedBuckets[j]).counter[event]), slotVals, la.array.length)
//@   ensures[time-zero] now == 0 ==> r == 0
//@   ensures[window-sum] now > 0 ==> r == isum(pick, slotVals, la.array.length)
//@   modifies nothing

//@ spec func viewOK(m) = m != nil && m.real != nil && arrayOK(m.real.data) && m.real.data.bucketLengthInMs > 0 && m.real.data.array.length <= 65536 && m.intervalInMs > 0

// ghost record of the last getQPSWithTime call (lets wrappers state "the rate at time t" without re-deriving it)
//@ ghost var gQpsNow Int
//@ ghost var gQpsEvent Int
//@ ghost var gQpsView Int
//@ ghost var gQpsRes Real
//@ func (m *SlidingWindowMetric) getQPSWithTime(now, event) r
//@   props C08
//@   requires viewOK(m) && now < 4611686018427387904 && validEvent(event) && bucketsOK(m.real.data, event)
//@   let la = m.real.data
//@   let pick = seqof(i, 0 <= i && i < la.array.length && now > 0 && live(la, now, la.array.data[i]) && inWindow(m, now, la.array.data[i].BucketStart))
//@   let slotVals = seqof(i, bucketOf(la.array.data[i]).counter[event])
//@   ensures[per-second] now > 0 ==> r == R(isum(pick, slotVals, la.array.length)) / (R(m.intervalInMs) / 1000.0)
//@   sets gQpsNow = now
//@   sets gQpsEvent = event
//@   sets gQpsView = ref(m)
//@   sets gQpsRes = r
//@   ensures[recorded] gQpsNow == now && gQpsEvent == event && gQpsView == ref(m) && gQpsRes == r
//@   modifies gQpsNow, gQpsEvent, gQpsView, gQpsRes

// the previous-window rate is the rate of the window ending one view bucket earlier
//@ func (m *SlidingWindowMetric) GetPreviousQPS(event) r
//@   props C08
//@   requires viewOK(m) && validEvent(event) && bucketsOK(m.real.data, event) && clock_ms >= m.bucketLengthInMs
//@   ensures[one-bucket-earlier] gQpsNow == clock_ms - m.bucketLengthInMs && gQpsEvent == event && gQpsView == ref(m) && r == gQpsRes
//@   modifies gQpsNow, gQpsEvent, gQpsView, gQpsRes

// maximum of one event over the buckets of the window (0 if none)
//@ func (m *SlidingWindowMetric) GetMaxOfSingleBucket(event) r
//@   pure
//@   props C08
//@   requires viewOK(m) && validEvent(event) && bucketsOK(m.real.data, event)
//@   ensures[upper] forall i Int :: 0 <= i && i < m.real.data.array.length && clock_ms > 0 && live(m.real.data, clock_ms, m.real.data.array.data[i]) && inWindow(m, clock_ms, m.real.data.array.data[i].BucketStart) ==> bucketOf(m.real.data.array.data[i]).counter[event] <= r
//@   ensures[nonneg] r >= 0
//@   ensures[attained] r == 0 || (exists i Int :: 0 <= i && i < m.real.data.array.length && live(m.real.data, clock_ms, m.real.data.array.data[i]) && inWindow(m, clock_ms, m.real.data.array.data[i].BucketStart) && bucketOf(m.real.data.array.data[i]).counter[event] == r)
//@   modifies nothing
//@   loop 1:
//@     invariant[upper] curMax >= 0 && (forall j Int :: 0 <= j && j < #i ==> bucketOf(satisfiedBuckets[j]).counter[event] <= curMax)
//@     invariant[attained] curMax == 0 || (exists j Int :: 0 <= j && j < #i && bucketOf(satisfiedBuckets[j]).counter[event] == curMax)

// smallest recorded rt over the buckets of the window, never above the default cap, never below 1
//@ func (m *SlidingWindowMetric) MinRT() r
//@   pure
//@   props C08, C07
//@   requires viewOK(m) && bucketsOK(m.real.data, base.MetricEventRt)
//@   ensures[not-above-any-bucket-of-the-window] forall i Int :: 0 <= i && i < m.real.data.array.length && clock_ms > 0 && live(m.real.data, clock_ms, m.real.data.array.data[i]) && inWindow(m, clock_ms, m.real.data.array.data[i].BucketStart) ==> r <= R(max(1, bucketOf(m.real.data.array.data[i]).minRt))
//@   ensures[capped-and-at-least-one] 1.0 <= r && r <= R(base.DefaultStatisticMaxRt)
//@   ensures[attained] r == R(base.DefaultStatisticMaxRt) || (exists i Int :: 0 <= i && i < m.real.data.array.length && clock_ms > 0 && live(m.real.data, clock_ms, m.real.data.array.data[i]) && inWindow(m, clock_ms, m.real.data.array.data[i].BucketStart) && r == R(max(1, bucketOf(m.real.data.array.data[i]).minRt)))
//@   modifies nothing
//@   loop 1:
//@     invariant[lower] minRt <= base.DefaultStatisticMaxRt && (forall j Int :: 0 <= j && j < #i ==> minRt <= bucketOf(satisfiedBuckets[j]).minRt)
//@     invariant[attained] minRt == base.DefaultStatisticMaxRt || (exists j Int :: 0 <= j && j < #i && bucketOf(satisfiedBuckets[j]).minRt == minRt)

// peak concurrency over the buckets of the window (0 if none)
//@ func (m *SlidingWindowMetric) MaxConcurrency() r
//@   pure
//@   props C08
//@   requires viewOK(m) && bucketsOK(m.real.data, base.MetricEventPass)
//@   ensures[upper] forall i Int :: 0 <= i && i < m.real.data.array.length && clock_ms > 0 && live(m.real.data, clock_ms, m.real.data.array.data[i]) && inWindow(m, clock_ms, m.real.data.array.data[i].BucketStart) ==> bucketOf(m.real.data.array.data[i]).maxConcurrency <= r
//@   ensures[nonneg] r >= 0
//@   ensures[attained] r == 0 || (exists i Int :: 0 <= i && i < m.real.data.array.length && clock_ms > 0 && live(m.real.data, clock_ms, m.real.data.array.data[i]) && inWindow(m, clock_ms, m.real.data.array.data[i].BucketStart) && bucketOf(m.real.data.array.data[i]).maxConcurrency == r)
//@   modifies nothing
//@   loop 1:
//@     invariant[upper] maxConcurrency >= 0 && (forall j Int :: 0 <= j && j < #i ==> bucketOf(satisfiedBuckets[j]).maxConcurrency <= maxConcurrency)
//@     invariant[attained] maxConcurrency == 0 || (exists j Int :: 0 <= j && j < #i && bucketOf(satisfiedBuckets[j]).maxConcurrency == maxConcurrency)

// per-second items: every item is stamped with the second it was built for
//@ func (m *SlidingWindowMetric) metricItemFromBuckets(ts, ws) r
//@   props C08
//@   requires forall j Int :: 0 <= j && j < len(ws) ==> isBucket(ws[j])
//@   ensures[stamped-with-its-second] r != nil && fresh(r) && r.Timestamp == ts
//@   modifies nothing
//@   loop 1:
//@     invariant[item] item != nil && fresh(item) && item.Timestamp == ts
//@     invariant[frame] frame()

// SecondMetricsOnCondition itself (a map of appended lists: proving that every grouped list still holds only buckets
// needs a separation invariant over the map's values that no installed solver discharged within the budget) is
// decided by the bounded stand-in c08_window_model only.

// ---- P2 placement (one thread): mapping a time to its slot and refreshing stale slots
//@ func (aa *AtomicBucketWrapArray) compareAndSet(idx, except, update) ok
//@   assumed
//@   requires aa != nil
//@   ensures ok <==> (0 <= idx && idx < aa.length && old(aa.data[idx]) == except)
//@   ensures forall j Int :: aa.data[j] == ((ok && j == idx) ? update : old(aa.data[j]))
//@   modifies elems(aa.data)

// unsafe CAS on the embedded sync.Mutex word: may or may not acquire; on success this thread holds the lock
//@ func (tl *mutex) TryLock() r
//@   assumed
//@   ensures wlockcount(tl.Mutex) == old(wlockcount(tl.Mutex)) + (r ? 1 : 0)
//@   modifies wlockcount(tl.Mutex)

//@ iface BucketGenerator.NewEmptyBucket() r
//@   ensures typeis(r, "*core/stat/base.MetricBucket") && dynptr(r) != 0 && fresh(dynptr(r))
//@   ensures forall e Int :: validEvent(e) ==> cast(dynptr(r), MetricBucket).counter[e] == 0
//@   modifies nothing

// C09: recycling a bucket is only allowed while holding the update lock of the array the generator belongs to
//@ spec func ownsArray(bg, la) = typeis(bg, "*core/stat/base.BucketLeapArray") ==> ref(cast(dynptr(bg), BucketLeapArray).data) == ref(la)
//@ iface BucketGenerator.ResetBucketTo(bucket, startTime) r
//@   requires isBucket(bucket)
//@   requires[under-the-update-lock]{C09} typeis(this, "*core/stat/base.BucketLeapArray") ==> wlockcount(cast(dynptr(this), BucketLeapArray).data.updateLock.Mutex) > 0
//@   ensures r == bucket && bucket.BucketStart == startTime && isBucket(bucket) && stored(bucket.Value) == old(stored(bucket.Value))
//@   ensures forall e Int :: validEvent(e) ==> bucketOf(bucket).counter[e] == 0
//@   modifies bucket.BucketStart, fields(bucketOf(bucket))

// C09 (concurrent part, thread-modular): other recorders and readers may run at any point — also late recorders of the
// bucket that is being recycled (with a one-bucket array a recorder that is a millisecond late is enough), so the start
// word, the counters and the minimum rt are all shared here. The recycled bucket must not become visible under its new
// start while it still holds the expired window's data: before the new start is published this call has stored a zero
// into every counter (what late recorders add after that is theirs, not the expired window's).
//@ func (bla *BucketLeapArray) ResetBucketTo(bw, startTime) r
//@   props C08, C09
//@   requires isBucket(bw)
//@   concurrent C09
//@   shared bw.BucketStart, bucketOf(bw).counter, bucketOf(bw).minRt
//@   onwrite[expired-data-zeroed-before-new-start-is-published]{C09} bw.BucketStart: (forall e Int :: validEvent(e) ==> written(bucketOf(bw).counter[e])) && written(bucketOf(bw).minRt)
//@   onwrite[counters-are-only-ever-cleared]{C09} bucketOf(bw).counter: new == 0
//@   replay leaparray_stale_window for expired-data-zeroed
//@   ensures[start] r == bw && bw.BucketStart == startTime && stored(bw.Value) == old(stored(bw.Value))
//@   ensures[zeroed] forall e Int :: validEvent(e) ==> bucketOf(bw).counter[e] == 0
//@   ensures[defaults] bucketOf(bw).minRt == base.DefaultStatisticMaxRt && bucketOf(bw).maxConcurrency == 0
//@   modifies bw.BucketStart, fields(bucketOf(bw))

//@ spec func geomOK(la) = arrayOK(la) && la.bucketLengthInMs > 0 && la.array.length > 0 && la.sampleCount > 0
//@ spec func slotBucketsOK(la) = (forall i Int :: 0 <= i && i < la.array.length ==> allocated(la.array.data[i])) && (forall i Int :: 0 <= i && i < la.array.length && la.array.data[i] != nil ==> isBucket(la.array.data[i])) && (forall i Int :: forall j Int :: 0 <= i && i < j && j < la.array.length && la.array.data[i] != nil ==> la.array.data[i] != la.array.data[j])

//@ func (la *LeapArray) currentBucketOfTime(now, bg) (w, err)
//@   props C08, C09, C02
//@   requires geomOK(la) && slotBucketsOK(la) && now < 4611686018427387904
//@   requires[generator-owns-array]{C09} ownsArray(bg, la)
// C09: verified twice — for one thread alone (every clause below), and thread-modularly: other recorders may refresh
// any bucket between this thread's atomic reads (every bucket start is volatile); whatever they do, this call leaves
// the update lock as it found it on every return path (a lock that is taken and never released makes every later
// rollover spin for ever)
//@   concurrent C09 and sequential
//@   shared la.array.data[0].BucketStart
//@   ensures[update-lock-released-on-return]{C09} lockframe()
//@   ensures[a-bucket-or-an-error]{C09} now > 0 ==> ((err == nil) <==> (w != nil)) && (err != nil ==> la.sampleCount != 1)
//@   replay race_leaparray_behind for plain-read-of-shared
//@   let idx = slotOf(now, la.bucketLengthInMs, la.array.length)
//@   let start = startOf(now, la.bucketLengthInMs)
//@   let cur = la.array.data[idx]
//@   ensures[time-zero] now == 0 ==> w == nil && err != nil && frame()
//@   ensures[slot] now > 0 && err == nil ==> w != nil && w == la.array.data[idx] && (w.BucketStart == start || (la.sampleCount == 1 && w.BucketStart > start))
//@   ensures[is-bucket] now > 0 && err == nil ==> isBucket(w) && (cur != nil ==> stored(w.Value) == old(stored(cur.Value)))
//@   ensures[kept] now > 0 && err == nil && cur != nil && old(cur.BucketStart) >= start ==> w == cur && frame()
//@   ensures[refreshed] now > 0 && err == nil && cur != nil && old(cur.BucketStart) < start ==> w == cur && w.BucketStart == start && (forall e Int :: validEvent(e) ==> bucketOf(w).counter[e] == 0)
//@   ensures[behind] now > 0 && err != nil ==> w == nil && cur != nil && old(cur.BucketStart) > start && la.sampleCount != 1 && frame()
//@   ensures[other-slots] forall i Int :: 0 <= i && i < la.array.length && i != idx ==> la.array.data[i] == old(la.array.data[i])
//@   ensures[other-starts] forall i Int :: 0 <= i && i < la.array.length && i != idx && la.array.data[i] != nil ==> la.array.data[i].BucketStart == old(la.array.data[i].BucketStart)
//@   ensures[other-values] forall i Int :: 0 <= i && i < la.array.length && i != idx && la.array.data[i] != nil ==> stored(la.array.data[i].Value) == old(stored(la.array.data[i].Value))
//@   modifies elems(la.array.data), cur.BucketStart, fields(bucketOf(cur))
//@   loop 1:
//@     invariant[untouched]{seq} frame()
//@     invariant[untouched-except-bucket-starts]{conc} frame(all(BucketWrap.BucketStart))
//@     invariant[update-lock-released] lockframe()

// two times that share a slot but not a bucket are at least one whole array interval apart:
// a refresh only ever destroys data that is older than the array can retain
//@ lemma slot-reuse-distance {C08}: forall t1 Int :: forall t2 Int :: forall L Int :: forall n Int :: 0 <= t1 && 0 <= t2 && L > 0 && n > 0 && slotOf(t1, L, n) == slotOf(t2, L, n) && startOf(t1, L) < startOf(t2, L) ==> startOf(t2, L) - startOf(t1, L) >= n * L

//@ spec func bucketsDistinct(la) = forall i Int :: forall j Int :: 0 <= i && i < j && j < la.array.length && la.array.data[i] != nil && la.array.data[j] != nil ==> bucketOf(la.array.data[i]) != bucketOf(la.array.data[j])

// recording at time now (not behind the slot's current bucket) credits exactly `count` to exactly the bucket that
// starts at startOf(now), refreshing the slot first if it still holds an older bucket; nothing else changes
//@ func (bla *BucketLeapArray) addCountWithTime(now, event, count)
//@   props C08, C09, C02
//@   requires bla != nil && geomOK(bla.data) && slotBucketsOK(bla.data) && bucketsDistinct(bla.data) && 0 < now && now < 4611686018427387904 && validEvent(event) && small(count)
//@   let la = bla.data
//@   let idx = slotOf(now, la.bucketLengthInMs, la.array.length)
//@   let start = startOf(now, la.bucketLengthInMs)
//@   let cur = la.array.data[idx]
//@   requires cur != nil && cur.BucketStart <= start && (cur.BucketStart == start ==> small(bucketOf(cur).counter[event]))
//@   ensures[placed] la.array.data[idx] == cur && cur.BucketStart == start
//@   ensures[credited] bucketOf(cur).counter[event] == (old(cur.BucketStart) == start ? old(bucketOf(cur).counter[event]) : 0) + count
//@   ensures[same-bucket-others] forall e Int :: validEvent(e) && e != event ==> bucketOf(cur).counter[e] == (old(cur.BucketStart) == start ? old(bucketOf(cur).counter[e]) : 0)
//@   ensures[other-slots] forall i Int :: 0 <= i && i < la.array.length && i != idx && la.array.data[i] != nil ==> la.array.data[i] == old(la.array.data[i]) && la.array.data[i].BucketStart == old(la.array.data[i].BucketStart) && (forall e Int :: validEvent(e) ==> bucketOf(la.array.data[i]).counter[e] == old(bucketOf(la.array.data[i]).counter[e]))

// the array constructor records the geometry it is given (the bucket array itself is built by
// NewAtomicBucketWrapArray: unsafe pointer arithmetic, not under contract)
//@ func NewBucketLeapArray(sampleCount, intervalInMs) r
//@   assumed
//@   ensures r != nil && fresh(r) && r.data.sampleCount == sampleCount && r.data.intervalInMs == intervalInMs && (sampleCount > 0 ==> r.data.bucketLengthInMs == intervalInMs / sampleCount)
//@   modifies nothing

// ---- P3: a view can only be constructed over an array it tiles
//@ func NewSlidingWindowMetric(sampleCount, intervalInMs, real) (m, err)
//@   props C08
//@   requires base.IllegalStatisticParamsError != nil && base.IllegalGlobalStatisticParamsError != nil && base.GlobalStatisticNonReusableError != nil && base.IllegalStatisticParamsError != base.GlobalStatisticNonReusableError && base.IllegalGlobalStatisticParamsError != base.GlobalStatisticNonReusableError
//@   ensures[only-valid] err == nil <==> (real != nil && tiles(sampleCount, intervalInMs, real.data.sampleCount, real.data.intervalInMs))
//@   ensures[xor] (m == nil) <==> (err != nil)
//@   ensures[geometry] err == nil ==> fresh(m) && m.real == real && m.sampleCount == sampleCount && m.intervalInMs == intervalInMs && m.bucketLengthInMs * sampleCount == intervalInMs
//@   modifies nothing

// reads used by core/stat: functions of the recorded history (their value is what C08's selection/aggregation
// clauses determine); no effect on contract-visible state
//@ func (m *SlidingWindowMetric) GetSum(event) r
//@   pure
//@   assumed

// recording the peak of the in-flight gauge only touches window internals
//@ func (bla *BucketLeapArray) UpdateConcurrency(concurrency)
//@   assumed
//@   modifies allfields(BucketWrap), allfields(MetricBucket), allfields(AtomicBucketWrapArray)
