//go:build verif

package base

// Contracts for core/stat/base (properties C08, C09). Arithmetic in contracts is over the integers (no wrap).

//@ spec func startOf(t, L) = t - t % L
//@ spec func slotOf(t, L, n) = (t / L) % n

//@ func calculateStartTime(now, L) r
//@   props C08
//@   requires L > 0
//@   ensures[def] r == startOf(now, L)
//@   ensures[aligned] r % L == 0 && r <= now && now < r + L
//@   modifies nothing

//@ func (la *LeapArray) calculateTimeIdx(now) r
//@   props C08
//@   requires la != nil && la.bucketLengthInMs > 0 && la.array != nil && la.array.length > 0 && now < 4611686018427387904
//@   ensures[def] r == slotOf(now, la.bucketLengthInMs, la.array.length)
//@   ensures[range] 0 <= r && r < la.array.length
//@   modifies nothing

//@ func (ww *BucketWrap) isTimeInBucket(now, L) r
//@   props C08
//@   requires ww != nil && ww.BucketStart < 4611686018427387904
//@   ensures[def] r <==> (ww.BucketStart <= now && now < ww.BucketStart + L)
//@   modifies nothing

// a bucket is outside the array's horizon: it starts in the future or more than one interval ago
//@ func (la *LeapArray) isBucketDeprecated(now, ww) r
//@   props C08
//@   requires la != nil && ww != nil && now < 4611686018427387904 && ww.BucketStart < 4611686018427387904
//@   ensures[def] r <==> (ww.BucketStart > now || now - ww.BucketStart > la.intervalInMs)
//@   modifies nothing

// the window of a view (interval Iv) over an array with bucket length L, ending at the bucket of timeMs
//@ func (m *SlidingWindowMetric) getBucketStartRange(timeMs) (start, end)
//@   props C08
//@   requires m != nil && m.real != nil && m.real.data.bucketLengthInMs > 0 && timeMs < 4611686018427387904
//@   let L = m.real.data.bucketLengthInMs
//@   case regular: startOf(timeMs, L) + L >= m.intervalInMs
//@   case near-zero: startOf(timeMs, L) + L < m.intervalInMs
//@   ensures[end] end == startOf(timeMs, L)
//@   ensures[start] start == max(0, end - m.intervalInMs + L)
//@   modifies nothing
//@   witness timeMs = timeMs
//@   witness L = m.real.data.bucketLengthInMs
//@   witness Iv = m.intervalInMs
//@   replay statbase_startrange

// ---- MetricBucket: one bucket's counters. Amounts and counters stay below 2^62 (no int64 overflow).
//@ spec func small(v) = 0 - 4611686018427387904 < v && v < 4611686018427387904
//@ spec func validEvent(e) = 0 <= e && e < base.MetricEventTotal

//@ func (mb *MetricBucket) Add(event, count)
//@   props C08, C09
//@   requires mb != nil && small(count) && (validEvent(event) ==> small(mb.counter[event]))
//@   ensures[counted] validEvent(event) ==> mb.counter[event] == old(mb.counter[event]) + count
//@   ensures[others] forall e Int :: e != event || !validEvent(event) ==> mb.counter[e] == old(mb.counter[e])
//@   ensures[min-rt] mb.minRt == (event == base.MetricEventRt && count < old(mb.minRt) ? count : old(mb.minRt))
//@   modifies mb.counter, mb.minRt

//@ func (mb *MetricBucket) Get(event) r
//@   props C08, C09
//@   requires mb != nil
//@   ensures[def] r == (validEvent(event) ? mb.counter[event] : 0)
//@   modifies nothing

//@ func (mb *MetricBucket) reset()
//@   props C08, C09
//@   requires mb != nil
//@   ensures[zeroed] forall e Int :: validEvent(e) ==> mb.counter[e] == 0
//@   ensures[defaults] mb.minRt == base.DefaultStatisticMaxRt && mb.maxConcurrency == 0
//@   modifies mb.counter, mb.minRt, mb.maxConcurrency
//@   loop 1:
//@     invariant[prefix-zero] 0 <= i && i <= base.MetricEventTotal && (forall e Int :: 0 <= e && e < i ==> mb.counter[e] == 0)
//@     invariant[frame] frame(mb.counter)

//@ func (mb *MetricBucket) UpdateConcurrency(concurrency)
//@   props C08
//@   requires mb != nil
//@   ensures[max] mb.maxConcurrency == max(old(mb.maxConcurrency), concurrency)
//@   modifies mb.maxConcurrency

//@ func (mb *MetricBucket) MinRt() r
//@   props C08
//@   requires mb != nil
//@   ensures r == mb.minRt
//@   modifies nothing

//@ func (mb *MetricBucket) MaxConcurrency() r
//@   props C08
//@   requires mb != nil
//@   ensures r == mb.maxConcurrency
//@   modifies nothing

// ---- LeapArray reads.  D9: the unsafe pointer arithmetic of AtomicBucketWrapArray.get/compareAndSet is replaced by
// the assumed contract "slot idx of data".
//@ func (aa *AtomicBucketWrapArray) get(idx) r
//@   assumed
//@   requires aa != nil
//@   ensures (0 <= idx && idx < aa.length ==> r == aa.data[idx]) && (!(0 <= idx && idx < aa.length) ==> r == nil)
//@   modifies nothing

//@ spec rec countTrue(a (Array Int Bool), k Int) Int = k <= 0 ? 0 : countTrue(a, k - 1) + (sel(a, k - 1) ? 1 : 0)
//@ spec func arrayOK(la) = la != nil && la.array != nil && la.array.length >= 0 && la.array.length == len(la.array.data) && allocated(base(la.array.data)) && (forall i Int :: 0 <= i && i < la.array.length && la.array.data[i] != nil ==> la.array.data[i].BucketStart < 4611686018427387904)
//@ spec func live(la, now, ww) = ww != nil && !(ww.BucketStart > now || now - ww.BucketStart > la.intervalInMs)

// the result lists, in slot order, exactly the live buckets whose start satisfies the predicate:
// slot i (if picked) is at position countTrue(pick, i), and the length is countTrue(pick, length)
//@ func (la *LeapArray) ValuesConditional(now, predicate) r
//@   props C08
//@   requires arrayOK(la) && now < 4611686018427387904
//@   let pick = seqof(i, 0 <= i && i < la.array.length && now > 0 && live(la, now, la.array.data[i]) && predicate(la.array.data[i].BucketStart))
//@   ensures[time-zero] now == 0 ==> len(r) == 0
//@   ensures[length] now > 0 ==> len(r) == countTrue(pick, la.array.length)
//@   ensures[placed] forall i Int :: 0 <= i && i < la.array.length && sel(pick, i) ==> r[countTrue(pick, i)] == la.array.data[i] && countTrue(pick, i) < len(r)
//@   ensures[fresh] len(r) == 0 || fresh(base(r))
//@   ensures[bounded-length] len(r) <= la.array.length
//@   ensures[from-data] forall j Int :: 0 <= j && j < len(r) ==> (exists i Int :: 0 <= i && i < la.array.length && sel(pick, i) && r[j] == la.array.data[i])
//@   modifies nothing
//@   loop 1:
//@     invariant[idx] 0 <= i && i <= la.array.length && len(ret) <= i
//@     invariant[from-data] forall j Int :: 0 <= j && j < len(ret) ==> (exists k Int :: 0 <= k && k < i && sel(pick, k) && ret[j] == la.array.data[k])
//@     invariant[length] len(ret) == countTrue(pick, i) && fresh(base(ret))
//@     invariant[positions] forall k Int :: 0 <= k && k < i && sel(pick, k) ==> 0 <= countTrue(pick, k) && countTrue(pick, k) < len(ret)
//@     invariant[placed] forall k Int :: 0 <= k && k < i && sel(pick, k) ==> ret[countTrue(pick, k)] == la.array.data[k]
//@     invariant[frame] frame()

//@ func (la *LeapArray) valuesWithTime(now) r
//@   props C08
//@   requires arrayOK(la) && now < 4611686018427387904
//@   let pick = seqof(i, 0 <= i && i < la.array.length && now > 0 && live(la, now, la.array.data[i]))
//@   ensures[time-zero] now == 0 ==> len(r) == 0
//@   ensures[length] now > 0 ==> len(r) == countTrue(pick, la.array.length)
//@   ensures[placed] forall i Int :: 0 <= i && i < la.array.length && sel(pick, i) ==> r[countTrue(pick, i)] == la.array.data[i] && countTrue(pick, i) < len(r)
//@   ensures[fresh] len(r) == 0 || fresh(base(r))
//@   ensures[bounded-length] len(r) <= la.array.length
//@   ensures[from-data] forall j Int :: 0 <= j && j < len(r) ==> (exists i Int :: 0 <= i && i < la.array.length && sel(pick, i) && r[j] == la.array.data[i])
//@   modifies nothing
//@   loop 1:
//@     invariant[idx] 0 <= i && i <= la.array.length && len(ret) <= i
//@     invariant[from-data] forall j Int :: 0 <= j && j < len(ret) ==> (exists k Int :: 0 <= k && k < i && sel(pick, k) && ret[j] == la.array.data[k])
//@     invariant[length] len(ret) == countTrue(pick, i) && fresh(base(ret))
//@     invariant[positions] forall k Int :: 0 <= k && k < i && sel(pick, k) ==> 0 <= countTrue(pick, k) && countTrue(pick, k) < len(ret)
//@     invariant[placed] forall k Int :: 0 <= k && k < i && sel(pick, k) ==> ret[countTrue(pick, k)] == la.array.data[k]
//@     invariant[frame] frame()

// ---- P1 selection: a view reads exactly the live buckets whose start lies in its bucket-aligned window
//@ spec func inWindow(m, now, s) = max(0, startOf(now, m.real.data.bucketLengthInMs) - m.intervalInMs + m.real.data.bucketLengthInMs) <= s && s <= startOf(now, m.real.data.bucketLengthInMs)
//@ func (m *SlidingWindowMetric) getSatisfiedBuckets(now) r
//@   props C08
//@   requires m != nil && m.real != nil && arrayOK(m.real.data) && m.real.data.bucketLengthInMs > 0 && now < 4611686018427387904
//@   let la = m.real.data
//@   let pick = seqof(i, 0 <= i && i < la.array.length && now > 0 && live(la, now, la.array.data[i]) && inWindow(m, now, la.array.data[i].BucketStart))
//@   ensures[time-zero] now == 0 ==> len(r) == 0
//@   ensures[length] now > 0 ==> len(r) == countTrue(pick, la.array.length)
//@   ensures[placed] forall i Int :: 0 <= i && i < la.array.length && sel(pick, i) ==> r[countTrue(pick, i)] == la.array.data[i] && countTrue(pick, i) < len(r)
//@   ensures[bounded-length] len(r) <= la.array.length
//@   ensures[from-data] forall j Int :: 0 <= j && j < len(r) ==> (exists i Int :: 0 <= i && i < la.array.length && sel(pick, i) && r[j] == la.array.data[i])
//@   modifies nothing

// ---- P4 aggregation
//@ spec rec seqsum(a (Array Int Int), k Int) Int = k <= 0 ? 0 : seqsum(a, k - 1) + sel(a, k - 1)
//@ spec func bucketOf(ww) = cast(dynptr(stored(ww.Value)), MetricBucket)
//@ spec func isBucket(ww) = ww != nil && typeis(stored(ww.Value), "*core/stat/base.MetricBucket") && bucketOf(ww) != nil
//@ spec func bounded(v) = 0 - 1099511627776 <= v && v <= 1099511627776

//@ func (m *SlidingWindowMetric) count(event, values) r
//@   props C08
//@   requires validEvent(event) && len(values) <= 65536
//@   requires forall j Int :: 0 <= j && j < len(values) ==> isBucket(values[j]) && bounded(bucketOf(values[j]).counter[event])
//@   let vals = seqof(j, bucketOf(values[j]).counter[event])
//@   ensures[sum] r == seqsum(vals, len(values))
//@   modifies nothing
//@   loop 1:
//@     invariant[partial-sum] ret == seqsum(vals, #i) && 0 - #i * 1099511627776 <= ret && ret <= #i * 1099511627776

// ---- compaction: summing over the compacted list equals summing over the picked slots (proved by induction)
//@ spec rec isum(p (Array Int Bool), v (Array Int Int), k Int) Int = k <= 0 ? 0 : isum(p, v, k - 1) + (sel(p, k - 1) ? sel(v, k - 1) : 0)
//@ ilemma compaction {C08} (pick (Array Int Bool), vr (Array Int Int), vd (Array Int Int), n Int) induction i
//@   requires forall k Int :: 0 <= k && k < n && sel(pick, k) ==> sel(vr, countTrue(pick, k)) == sel(vd, k)
//@   ensures 0 <= countTrue(pick, i) && (i <= n ==> seqsum(vr, countTrue(pick, i)) == isum(pick, vd, i))

// a view's sum is the sum, over the array's slots, of the counters of the live buckets in the aligned window
//@ spec func bucketsOK(la, event) = forall i Int :: 0 <= i && i < la.array.length && la.array.data[i] != nil ==> isBucket(la.array.data[i]) && bounded(bucketOf(la.array.data[i]).counter[event])
//@ func (m *SlidingWindowMetric) getSumWithTime(now, event) r
//@   props C08
//@   requires m != nil && m.real != nil && arrayOK(m.real.data) && m.real.data.bucketLengthInMs > 0 && now < 4611686018427387904
//@   requires validEvent(event) && m.real.data.array.length <= 65536 && bucketsOK(m.real.data, event)
//@   let la = m.real.data
//@   let pick = seqof(i, 0 <= i && i < la.array.length && now > 0 && live(la, now, la.array.data[i]) && inWindow(m, now, la.array.data[i].BucketStart))
//@   let slotVals = seqof(i, bucketOf(la.array.data[i]).counter[event])
//@   use compaction(pick, seqof(j, bucketOf(satisfiedBuckets[j]).counter[event]), slotVals, la.array.length)
//@   ensures[time-zero] now == 0 ==> r == 0
//@   ensures[window-sum] now > 0 ==> r == isum(pick, slotVals, la.array.length)
//@   modifies nothing
