//go:build verif

package base

// Contracts for core/stat/base (properties C08, C09). Arithmetic in contracts is over the integers (no wrap).

//@ spec func startOf(t, L) = t - t % L
//@ spec func slotOf(t, L, n) = (t / L) % n

//@ func calculateStartTime(now, L) r
//@   props C08
//@   requires L > 0
//@   ensures[def] r == startOf(now, L)
//@   ensures[aligned] r % L == 0 && r <= now && now < r + L
//@   modifies nothing

//@ func (la *LeapArray) calculateTimeIdx(now) r
//@   props C08
//@   requires la != nil && la.bucketLengthInMs > 0 && la.array != nil && la.array.length > 0 && now < 4611686018427387904
//@   ensures[def] r == slotOf(now, la.bucketLengthInMs, la.array.length)
//@   ensures[range] 0 <= r && r < la.array.length
//@   modifies nothing

//@ func (ww *BucketWrap) isTimeInBucket(now, L) r
//@   props C08
//@   requires ww != nil && ww.BucketStart < 4611686018427387904
//@   ensures[def] r <==> (ww.BucketStart <= now && now < ww.BucketStart + L)
//@   modifies nothing

// a bucket is outside the array's horizon: it starts in the future or more than one interval ago
//@ func (la *LeapArray) isBucketDeprecated(now, ww) r
//@   props C08
//@   requires la != nil && ww != nil && now < 4611686018427387904 && ww.BucketStart < 4611686018427387904
//@   ensures[def] r <==> (ww.BucketStart > now || now - ww.BucketStart > la.intervalInMs)
//@   modifies nothing

// the window of a view (interval Iv) over an array with bucket length L, ending at the bucket of timeMs
//@ func (m *SlidingWindowMetric) getBucketStartRange(timeMs) (start, end)
//@   props C08
//@   requires m != nil && m.real != nil && m.real.data.bucketLengthInMs > 0 && timeMs < 4611686018427387904
//@   let L = m.real.data.bucketLengthInMs
//@   case regular: startOf(timeMs, L) + L >= m.intervalInMs
//@   case near-zero: startOf(timeMs, L) + L < m.intervalInMs
//@   ensures[end] end == startOf(timeMs, L)
//@   ensures[start] start == max(0, end - m.intervalInMs + L)
//@   modifies nothing
//@   witness timeMs = timeMs
//@   witness L = m.real.data.bucketLengthInMs
//@   witness Iv = m.intervalInMs
//@   replay statbase_startrange
