//go:build verif

package isolation

// Contracts for core/isolation (property C04).

//@ func checkPass(ctx) (passed, rule, snapshot)
//@   props C04
//@   requires ctx != nil && ctx.Input != nil && ctx.Resource != nil
//@   requires forall k Int :: 0 <= k && k < len(ruleMap[ctx.Resource.name]) ==> ruleMap[ctx.Resource.name][k] != nil
//@   let cur = max(ctx.StatNode.CurrentConcurrency(), 0)
//@   let rs = ruleMap[ctx.Resource.name]
//@   ensures[admit-iff] passed <==> (forall k Int :: 0 <= k && k < len(rs) && rs[k].MetricType == Concurrency ==> cur + ctx.Input.BatchCount <= rs[k].Threshold)
//@   ensures[blame] !passed ==> rule != nil && rule.MetricType == Concurrency && cur + ctx.Input.BatchCount > rule.Threshold && snapshot == cur
//@   modifies nothing
//@   witness curRaw = ctx.StatNode.CurrentConcurrency()
//@   witness batch = ctx.Input.BatchCount
//@   witness n = len(ruleMap[ctx.Resource.name])
//@   witness thr0 = ruleMap[ctx.Resource.name][0].Threshold
//@   witness thr1 = ruleMap[ctx.Resource.name][1].Threshold
//@   witness thr2 = ruleMap[ctx.Resource.name][2].Threshold
//@   witness thr3 = ruleMap[ctx.Resource.name][3].Threshold
//@   witness mt0 = ruleMap[ctx.Resource.name][0].MetricType
//@   witness mt1 = ruleMap[ctx.Resource.name][1].MetricType
//@   witness mt2 = ruleMap[ctx.Resource.name][2].MetricType
//@   witness mt3 = ruleMap[ctx.Resource.name][3].MetricType
//@   replay isolation_checkpass
//@   loop 1:
//@     invariant[prefix-admits] forall k Int :: 0 <= k && k < #i && rs[k].MetricType == Concurrency ==> cur + ctx.Input.BatchCount <= rs[k].Threshold

// the slot turns checkPass's verdict into the entry's result: blocked (type isolation, blaming the rule found) exactly
// when some concurrency rule of the resource would be exceeded by this batch; otherwise the incoming result is handed on
// untouched. An entry without a resource name is never limited.
//@ spec func blocked(r) = r != nil && r.status == base.ResultStatusBlocked
//@ func (s *Slot) Check(ctx) r
//@   props C04
//@   requires ctx != nil && ctx.Input != nil && ctx.Resource != nil && !blocked(ctx.RuleCheckResult)
//@   requires forall k Int :: 0 <= k && k < len(ruleMap[ctx.Resource.name]) ==> ruleMap[ctx.Resource.name][k] != nil
//@   let cur = max(ctx.StatNode.CurrentConcurrency(), 0)
//@   let rs = ruleMap[ctx.Resource.name]
//@   let named = len(ctx.Resource.name) > 0
//@   ensures[block-iff] blocked(r) <==> old(named && !(forall k Int :: 0 <= k && k < len(rs) && rs[k].MetricType == Concurrency ==> cur + ctx.Input.BatchCount <= rs[k].Threshold))
//@   ensures[block-type] blocked(r) ==> r.blockErr != nil && r.blockErr.blockType == base.BlockTypeIsolation
//@   ensures[pass-unchanged] !blocked(r) ==> r == old(ctx.RuleCheckResult)

//@ func getRulesOfResource(res) r
//@   props C04, C13
//@   ensures[copy] len(r) == len(ruleMap[res]) && (forall k Int :: 0 <= k && k < len(r) ==> r[k] == ruleMap[res][k])
//@   modifies nothing
//@   loop 1:
//@     invariant[copied] len(ret) == #i && #i <= len(resRules) && fresh(base(ret)) && (forall k Int :: 0 <= k && k < #i ==> ret[k] == resRules[k])
//@     invariant[frame] frame()

// ---- C13: only valid, latest-loaded rules are in force
//@ spec func validRule(r) = r != nil && len(r.Resource) > 0 && r.MetricType == Concurrency && r.Threshold != 0

//@ func IsValidRule(r) err
//@   props C13
//@   ensures[iff] err == nil <==> validRule(r)
//@   modifies nothing

// per-resource load: the enforced list is exactly the valid rules of the given list, in order (rule k, if valid,
// sits at position countTrue(valid, k)); nothing is lost, nothing invalid gets in, other resources are untouched
//@ func onResourceRuleUpdate(res, rawResRules) err
//@   props C13
//@   requires[holds-the-update-lock]{C15} wlockcount(updateRuleMux) > 0
//@   requires ruleMap != nil && currentRules != nil && ruleMap != currentRules
//@   let n = len(rawResRules)
//@   let pick = seqof(k, 0 <= k && k < len(rawResRules) && validRule(rawResRules[k]))
//@   panics never
//@   ensures[never-fails] err == nil
//@   ensures[enforced-count] len(ruleMap[res]) == countTrue(pick, n)
//@   ensures[enforced-in-order] forall k Int :: 0 <= k && k < n && sel(pick, k) ==> ruleMap[res][countTrue(pick, k)] == rawResRules[k]
//@   ensures[absent-when-none-valid] countTrue(pick, n) == 0 <==> !has(ruleMap, res)
//@   ensures[other-resources-untouched] forall s Str :: s != res ==> has(ruleMap, s) == old(has(ruleMap, s)) && ruleMap[s] == old(ruleMap[s])
//@   ensures[raw-recorded] currentRules[res] == rawResRules
//@   modifies mapof(ruleMap), mapof(currentRules)
//@   loop 1:
//@     invariant[length] len(validResRules) == countTrue(pick, #i) && fresh(base(validResRules)) && 0 <= countTrue(pick, #i)
//@     invariant[positions] forall k Int :: 0 <= k && k < #i && sel(pick, k) ==> 0 <= countTrue(pick, k) && countTrue(pick, k) < len(validResRules)
//@     invariant[placed] forall k Int :: 0 <= k && k < #i && sel(pick, k) ==> validResRules[countTrue(pick, k)] == rawResRules[k]
//@     invariant[frame] frame()

//@ func LoadRulesOfResource(res, rules) (changed, err)
//@   props C13
//@   requires ruleMap != nil && currentRules != nil && ruleMap != currentRules
//@   let n = len(rules)
//@   let pick = seqof(k, 0 <= k && k < len(rules) && validRule(rules[k]))
//@   panics never
//@   ensures[empty-resource-rejected] len(res) == 0 ==> err != nil && !changed && frame()
//@   ensures[clear] len(res) > 0 && n == 0 ==> changed && err == nil && !has(ruleMap, res) && !has(currentRules, res)
//@   ensures[identical-reload-unchanged] len(res) > 0 && n > 0 && old(currentRules[res]) == rules ==> !changed && err == nil && frame()
//@   ensures[loaded] len(res) > 0 && n > 0 && changed ==> err == nil && len(ruleMap[res]) == countTrue(pick, n) && (forall k Int :: 0 <= k && k < n && sel(pick, k) ==> ruleMap[res][countTrue(pick, k)] == rules[k]) && currentRules[res] == rules
//@   ensures[other-resources-untouched] forall s Str :: s != res ==> has(ruleMap, s) == old(has(ruleMap, s)) && ruleMap[s] == old(ruleMap[s])
//@   modifies mapof(ruleMap), mapof(currentRules)

//@ func ClearRulesOfResource(res) err
//@   props C13
//@   requires ruleMap != nil && currentRules != nil && ruleMap != currentRules
//@   panics never
//@   ensures[cleared] len(res) > 0 ==> err == nil && !has(ruleMap, res) && !has(currentRules, res)
//@   ensures[other-resources-untouched] forall s Str :: s != res ==> has(ruleMap, s) == old(has(ruleMap, s)) && ruleMap[s] == old(ruleMap[s])
//@   modifies mapof(ruleMap), mapof(currentRules)

// whole-set load: grouping by resource must cope with any element, including nil
//@ func LoadRules(rules) (changed, err)
//@   props C13
//@   objinv ruleMap != nil && currentRules != nil && ruleMap != currentRules
//@   panics never
//@   sets gIsoLoadN = old(gIsoLoadN) + 1
//@   sets gIsoLoadArg = rules
//@   ensures[recorded] gIsoLoadN == old(gIsoLoadN) + 1 && gIsoLoadArg == rules
//@   modifies heap, gIsoLoadN, gIsoLoadArg
//@   witness n = len(rules)
//@   replay loadrules_nil

// whole-set rebuild: the raw map is recorded, a fresh map is published that holds only valid rules (every list in it
// is made of rules accepted by IsValidRule and is non-empty), and the caller's lists are not written (frame: nothing
// allocated before the call changes except the two package variables).
//@ spec func allValidLists(m) = (forall r Str :: has(m, r) ==> allocated(base(m[r]))) && (forall r Str :: forall k Int :: has(m, r) && 0 <= k && k < len(m[r]) ==> validRule(m[r][k]))
//@ func onRuleUpdate(rawResRulesMap) err
//@   props C13
//@   requires[holds-the-update-lock]{C15} wlockcount(updateRuleMux) > 0
//@   requires ruleMap != nil
//@   ensures[never-fails] err == nil
//@   ensures[raw-recorded] currentRules == rawResRulesMap
//@   ensures[fresh-map] ruleMap != nil && fresh(ruleMap)
//@   ensures[only-valid-rules-enforced] allValidLists(ruleMap)
//@   ensures[no-empty-list-enforced] forall r Str :: has(ruleMap, r) ==> len(ruleMap[r]) > 0
//@   modifies ruleMap, currentRules
//@   loop 1:
//@     invariant[new-map] validResRulesMap != nil && fresh(validResRulesMap)
//@     invariant[only-valid] allValidLists(validResRulesMap) && (forall r Str :: has(validResRulesMap, r) ==> len(validResRulesMap[r]) > 0)
//@     invariant[callers-lists-untouched] frame()
//@   loop 2:
//@     invariant[new-map] validResRulesMap != nil && fresh(validResRulesMap)
//@     invariant[only-valid] allValidLists(validResRulesMap) && (forall r Str :: has(validResRulesMap, r) ==> len(validResRulesMap[r]) > 0)
//@     invariant[list-fresh] fresh(base(validResRules)) && (forall k Int :: 0 <= k && k < len(validResRules) ==> validRule(validResRules[k]))
//@     invariant[list-not-in-the-map-yet] forall r Str :: has(validResRulesMap, r) ==> base(validResRulesMap[r]) != base(validResRules)
//@     invariant[callers-lists-untouched] frame()

//@ func rulesFrom(m) rules
//@   props C13
//@   ensures[fresh] cap(rules) == 0 || fresh(base(rules))
//@   modifies nothing
//@   loop 1:
//@     invariant[fresh] cap(rules) == 0 || fresh(base(rules))
//@     invariant[untouched] frame()
//@   loop 2:
//@     invariant[fresh] cap(rules) == 0 || fresh(base(rules))
//@     invariant[untouched] frame()

// ---- loader entry points as seen by the datasource layer (C18): calls are recorded
//@ ghost var gIsoLoadN Int
//@ ghost var gIsoLoadArg Slice
//@ ghost var gIsoClearN Int
//@ func ClearRules() err
//@   assumed
//@   ensures gIsoClearN == old(gIsoClearN) + 1
//@   modifies gIsoClearN

// ---- C15: lock discipline of the rule tables (a load, store or use of the variable outside its lock is a data race)
//@ guarded ruleMap by rwMux {C15}
//@ guarded currentRules by updateRuleMux {C15}
//@ lockorder updateRuleMux rwMux {C15}
