//go:build verif

package isolation

// Contracts for core/isolation (property C04).

//@ func checkPass(ctx) (passed, rule, snapshot)
//@   props C04
//@   requires ctx != nil && ctx.Input != nil && ctx.Resource != nil
//@   requires forall k Int :: 0 <= k && k < len(ruleMap[ctx.Resource.name]) ==> ruleMap[ctx.Resource.name][k] != nil
//@   let cur = max(ctx.StatNode.CurrentConcurrency(), 0)
//@   let rs = ruleMap[ctx.Resource.name]
//@   ensures[admit-iff] passed <==> (forall k Int :: 0 <= k && k < len(rs) && rs[k].MetricType == Concurrency ==> cur + ctx.Input.BatchCount <= rs[k].Threshold)
//@   ensures[blame] !passed ==> rule != nil && rule.MetricType == Concurrency && cur + ctx.Input.BatchCount > rule.Threshold && snapshot == cur
//@   modifies nothing
//@   witness curRaw = ctx.StatNode.CurrentConcurrency()
//@   witness batch = ctx.Input.BatchCount
//@   witness n = len(ruleMap[ctx.Resource.name])
//@   witness thr0 = ruleMap[ctx.Resource.name][0].Threshold
//@   witness thr1 = ruleMap[ctx.Resource.name][1].Threshold
//@   witness thr2 = ruleMap[ctx.Resource.name][2].Threshold
//@   witness thr3 = ruleMap[ctx.Resource.name][3].Threshold
//@   witness mt0 = ruleMap[ctx.Resource.name][0].MetricType
//@   witness mt1 = ruleMap[ctx.Resource.name][1].MetricType
//@   witness mt2 = ruleMap[ctx.Resource.name][2].MetricType
//@   witness mt3 = ruleMap[ctx.Resource.name][3].MetricType
//@   replay isolation_checkpass
//@   loop 1:
//@     invariant[prefix-admits] forall k Int :: 0 <= k && k < #i && rs[k].MetricType == Concurrency ==> cur + ctx.Input.BatchCount <= rs[k].Threshold

//@ func getRulesOfResource(res) r
//@   props C04
//@   ensures[copy] len(r) == len(ruleMap[res]) && (forall k Int :: 0 <= k && k < len(r) ==> r[k] == ruleMap[res][k])
//@   modifies nothing
//@   loop 1:
//@     invariant[copied] len(ret) == #i && #i <= len(resRules) && fresh(base(ret)) && (forall k Int :: 0 <= k && k < #i ==> ret[k] == resRules[k])
//@     invariant[frame] frame()
