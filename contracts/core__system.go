//go:build verif

package system

// Contracts for core/system (property C07).

//@ spec func inflight() = stat.inboundNode.concurrency
//@ spec func capacity() = stat.inboundNode.GetMaxAvg(base.MetricEventComplete) * stat.inboundNode.MinRT() / 1000.0
// the rule is violated: the statement of C07, clause by clause
//@ spec func overCapacity(rule) = rule.Strategy != BBR || R(inflight()) > capacity()
//@ spec func violated(rule) = (rule.MetricType == InboundQPS && stat.inboundNode.GetQPS(base.MetricEventPass) >= rule.TriggerCount) || (rule.MetricType == Concurrency && R(inflight()) >= rule.TriggerCount) || (rule.MetricType == AvgRT && stat.inboundNode.AvgRT() >= rule.TriggerCount) || (rule.MetricType == Load && system_metric.CurrentLoad() > rule.TriggerCount && overCapacity(rule)) || (rule.MetricType == CpuUsage && system_metric.CurrentCpuUsage() > rule.TriggerCount && overCapacity(rule))

//@ func checkBbrSimple() ok
//@   props C07
//@   requires stat.inboundNode != nil
//@   case several-in-flight: inflight() > 1
//@   case at-most-one-in-flight: inflight() <= 1
//@   ensures[capacity] ok <==> !(R(inflight()) > capacity())
//@   modifies nothing
//@   witness inflight = stat.inboundNode.concurrency
//@   replay system_bbr for capacity

//@ func (s *AdaptiveSlot) doCheckRule(rule) (passed, msg, snapshot)
//@   props C07
//@   requires rule != nil && stat.inboundNode != nil
//@   case several-in-flight: inflight() > 1
//@   case at-most-one-in-flight: inflight() <= 1
//@   ensures[violated-iff] !passed <==> violated(rule)
//@   modifies nothing

// getRules flattens the rule map: every loaded rule appears in the result and nothing else does.
// Assumed here (its proof needs an exists/forall alternation over an arbitrary-order map iteration that the
// solvers do not discharge); the loop itself is covered by the bounded loader tests of C13.
//@ func getRules() rules
//@   assumed
//@   ensures[only-loaded] forall j Int :: 0 <= j && j < len(rules) ==> rules[j] != nil && isLoaded(ref(rules[j]))
//@   ensures[all-loaded] forall r Int :: isLoaded(r) ==> (exists j Int :: 0 <= j && j < len(rules) && ref(rules[j]) == r)
//@   ensures[fresh] len(rules) == 0 || fresh(base(rules))
//@   modifies nothing
// isLoaded(r): r is one of the rule objects in system.ruleMap (uninterpreted here; defined by getRules' contract)
//@ ghost func isLoaded(Int) Bool

//@ func (s *AdaptiveSlot) Check(ctx) r
//@   props C07
//@   requires stat.inboundNode != nil
//@   requires ctx != nil ==> !blocked(ctx.RuleCheckResult)
//@   case several-in-flight: inflight() > 1
//@   case at-most-one-in-flight: inflight() <= 1
//@   let inbound = ctx != nil && ctx.Resource != nil && ctx.Resource.flowType == base.Inbound
//@   ensures[outbound-never] !inbound ==> r == nil
//@   ensures[block-iff] inbound ==> (blocked(r) <==> old(exists q Int :: isLoaded(q) && violated(cast(q, Rule))))
//@   ensures[block-type] inbound && blocked(r) ==> r.blockErr != nil && r.blockErr.blockType == base.BlockTypeSystemFlow
//@   ensures[pass-unchanged] inbound && !blocked(r) ==> r == old(ctx.RuleCheckResult)
//@   loop 1:
//@     invariant[none-violated] forall j Int :: 0 <= j && j < #i ==> !violated(rules[j])
//@     invariant[rules-frame] forall j Int :: 0 <= j && j < len(rules) ==> rules[j] != nil && isLoaded(ref(rules[j]))
//@ spec func blocked(r) = r != nil && r.status == base.ResultStatusBlocked

// ---- C13: rule loading
//@ spec func validSys(r) = r != nil && r.TriggerCount >= 0.0 && r.MetricType < MetricTypeSize && !(r.MetricType == CpuUsage && r.TriggerCount > 1.0)

//@ func IsValidSystemRule(rule) err
//@   props C13
//@   ensures[iff] err == nil <==> validSys(rule)
//@   modifies nothing

// buildRuleMap groups the valid rules by metric type: a new map; every list in it is non-empty and made of valid
// rules of that metric type; the caller's list is not written.
//@ spec func listsOwned(m) = forall t Int :: has(m, t) ==> fresh(base(m[t])) && allocated(base(m[t])) && len(m[t]) > 0 && len(m[t]) <= cap(m[t])
//@ spec func listsValid(m) = forall t Int :: forall k Int :: has(m, t) && 0 <= k && k < len(m[t]) ==> validSys(m[t][k]) && m[t][k].MetricType == t
//@ spec func listsDisjoint(m) = forall t Int :: forall u Int :: has(m, t) && has(m, u) && t != u ==> base(m[t]) != base(m[u])
//@ spec func groupedValid(m) = listsOwned(m) && listsValid(m) && listsDisjoint(m)
// (kind[k] is the metric type of rules[k] when that rule is valid, -1 otherwise; the list of type t ends up with as
// many entries as there are valid rules of type t; that each entry is the right rule at the right rank is not proved:
// the solvers time out on the positional invariant across append's reallocation)
//@ func buildRuleMap(rules) m
//@   props C13
//@   panics never
//@   let n = len(rules)
//@   let kind = seqof(k, (0 <= k && k < len(rules) && validSys(rules[k])) ? rules[k].MetricType : 0 - 1)
//@   ensures[new-map] m != nil && fresh(m)
//@   ensures[only-valid-rules-grouped-by-metric] groupedValid(m)
// (C07: a request is checked against EVERY loaded rule — several rules of one metric type all stay in force)
//@   ensures[every-valid-rule-kept]{C13,C07} forall t Int :: t >= 0 ==> (has(m, t) <==> countEq(kind, t, n) > 0) && (has(m, t) ==> len(m[t]) == countEq(kind, t, n))
//@   modifies nothing
//@   loop 1:
//@     invariant[new-map] m != nil && fresh(m)
//@     invariant[counts] forall t Int :: t >= 0 ==> 0 <= countEq(kind, t, #i) && (has(m, t) <==> countEq(kind, t, #i) > 0) && (has(m, t) ==> len(m[t]) == countEq(kind, t, #i))
//@     invariant[no-negative-key] forall t Int :: t < 0 ==> !has(m, t)
//@     invariant[lists-owned] listsOwned(m)
//@     invariant[lists-disjoint] listsDisjoint(m)
//@     invariant[lists-valid] listsValid(m)
//@     invariant[callers-list-untouched] frame()

//@ func onRuleUpdate(r) err
//@   requires[holds-the-update-lock]{C15} wlockcount(updateRuleMux) > 0
//@   props C13
//@   ensures[swapped] err == nil && ruleMap == r
//@   modifies ruleMap

// ---- loader entry points as seen by the datasource layer (C18): calls are recorded
//@ ghost var gSysLoadN Int
//@ ghost var gSysLoadArg Slice
//@ ghost var gSysClearN Int
//@ func ClearRules() err
//@   assumed
//@   ensures gSysClearN == old(gSysClearN) + 1
//@   modifies gSysClearN
// whole-set load: unless the list is deep-equal to the recorded one (then nothing happens), the table in force is a
// new map holding only valid rules grouped by metric type, and the raw list is recorded
//@ func LoadRules(rules) (changed, err)
//@   props C13
//@   panics never
//@   sets gSysLoadN = old(gSysLoadN) + 1
//@   sets gSysLoadArg = rules
//@   ensures[recorded] gSysLoadN == old(gSysLoadN) + 1 && gSysLoadArg == rules
//@   ensures[never-fails] err == nil
//@   ensures[unchanged-load-is-a-no-op] !changed ==> ruleMap == old(ruleMap) && currentRules == old(currentRules)
//@   ensures[only-valid-rules-in-force] changed ==> ruleMap != nil && fresh(ruleMap) && groupedValid(ruleMap) && currentRules == rules
//@   modifies ruleMap, currentRules, gSysLoadN, gSysLoadArg

// ---- C15: lock discipline of the rule tables (a load, store or use of the variable outside its lock is a data race)
//@ guarded ruleMap by ruleMapMux {C15}
//@ guarded currentRules by updateRuleMux {C15}

//@ func GetRules() r
//@   props C15
//@   replay race_system_getrules for read-of-ruleMap
//@ lockorder updateRuleMux ruleMapMux {C15}
