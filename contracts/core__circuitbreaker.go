//go:build verif

package circuitbreaker

// Contracts for core/circuitbreaker (properties C03, C12, C13, C14). Sequential clause set unless marked concurrent.

// ---- listener protocol: how often each transition was reported, and with which previous state
//@ ghost var gToOpen Int
//@ ghost var gToOpenPrev Int
//@ ghost var gToHalf Int
//@ ghost var gToHalfPrev Int
//@ ghost var gToClosed Int
//@ ghost var gToClosedPrev Int

//@ iface StateChangeListener.OnTransformToOpen(prev, rule, snapshot)
//@   ensures gToOpen == old(gToOpen) + 1 && gToOpenPrev == prev
//@   modifies gToOpen, gToOpenPrev
//@ iface StateChangeListener.OnTransformToHalfOpen(prev, rule)
//@   ensures gToHalf == old(gToHalf) + 1 && gToHalfPrev == prev
//@   modifies gToHalf, gToHalfPrev
//@ iface StateChangeListener.OnTransformToClosed(prev, rule)
//@   ensures gToClosed == old(gToClosed) + 1 && gToClosedPrev == prev
//@   modifies gToClosed, gToClosedPrev

//@ spec func baseOK(b) = b != nil && b.state != nil && b.rule != nil
//@ spec func st(b) = deref(b.state)
//@ spec func nListeners() = len(stateChangeListeners)

//@ func (b *circuitBreakerBase) fromClosedToOpen(snapshot) ok
//@   replay breaker_stale_deadline for deadline-before-open
//@   concurrent C12
//@   shared deref(b.state), b.nextRetryTimestampMs, b.curProbeNumber
//@   ensures[reported-iff-own-cas]{C12} gToOpen == old(gToOpen) + (ok ? nListeners() : 0) && (ok && nListeners() > 0 ==> gToOpenPrev == Closed) && (ok <==> wrote(deref(b.state), Closed, Open))
//@   onwrite[legal-edge]{C12} deref(b.state): prev == Closed && new == Open
//@   onwrite[deadline-before-open]{C12} deref(b.state): new == Open ==> b.nextRetryTimestampMs >= clock_ms + b.retryTimeoutMs
//@   onwrite[deadline-rearmed-from-now]{C12} b.nextRetryTimestampMs: new == clock_ms + b.retryTimeoutMs
//@   props C03, C12
//@   requires baseOK(b)
//@   ensures[cas] ok <==> old(st(b)) == Closed
//@   ensures[state] st(b) == (ok ? Open : old(st(b)))
//@   ensures[deadline] b.nextRetryTimestampMs == (ok ? clock_ms + b.retryTimeoutMs : old(b.nextRetryTimestampMs))
//@   ensures[listeners] gToOpen == old(gToOpen) + (ok ? nListeners() : 0) && (ok && nListeners() > 0 ==> gToOpenPrev == Closed)
//@   modifies deref(b.state), b.nextRetryTimestampMs, gToOpen, gToOpenPrev
//@   loop 1:
//@     invariant gToOpen == old(gToOpen) + #i && (#i > 0 ==> gToOpenPrev == Closed)

//@ func (b *circuitBreakerBase) fromHalfOpenToOpen(snapshot) ok
//@   replay breaker_stale_deadline for deadline-before-open
//@   concurrent C12
//@   shared deref(b.state), b.nextRetryTimestampMs, b.curProbeNumber
//@   ensures[reported-iff-own-cas]{C12} gToOpen == old(gToOpen) + (ok ? nListeners() : 0) && (ok && nListeners() > 0 ==> gToOpenPrev == HalfOpen) && (ok <==> wrote(deref(b.state), HalfOpen, Open))
//@   onwrite[legal-edge]{C12} deref(b.state): prev == HalfOpen && new == Open
//@   onwrite[deadline-before-open]{C12} deref(b.state): new == Open ==> b.nextRetryTimestampMs >= clock_ms + b.retryTimeoutMs
//@   onwrite[deadline-rearmed-from-now]{C12} b.nextRetryTimestampMs: new == clock_ms + b.retryTimeoutMs
//@   props C03, C12
//@   requires baseOK(b)
//@   ensures[cas] ok <==> old(st(b)) == HalfOpen
//@   ensures[state] st(b) == (ok ? Open : old(st(b)))
//@   ensures[deadline] b.nextRetryTimestampMs == (ok ? clock_ms + b.retryTimeoutMs : old(b.nextRetryTimestampMs))
//@   ensures[probes-reset] b.curProbeNumber == (ok ? 0 : old(b.curProbeNumber))
//@   ensures[listeners] gToOpen == old(gToOpen) + (ok ? nListeners() : 0) && (ok && nListeners() > 0 ==> gToOpenPrev == HalfOpen)
//@   modifies deref(b.state), b.nextRetryTimestampMs, b.curProbeNumber, gToOpen, gToOpenPrev
//@   loop 1:
//@     invariant gToOpen == old(gToOpen) + #i && (#i > 0 ==> gToOpenPrev == HalfOpen)

//@ func (b *circuitBreakerBase) fromHalfOpenToClosed() ok
//@   concurrent C12
//@   shared deref(b.state), b.nextRetryTimestampMs, b.curProbeNumber
//@   ensures[reported-iff-own-cas]{C12} gToClosed == old(gToClosed) + (ok ? nListeners() : 0) && (ok && nListeners() > 0 ==> gToClosedPrev == HalfOpen) && (ok <==> wrote(deref(b.state), HalfOpen, Closed))
//@   onwrite[legal-edge]{C12} deref(b.state): prev == HalfOpen && new == Closed
//@   props C03, C12
//@   requires baseOK(b)
//@   ensures[cas] ok <==> old(st(b)) == HalfOpen
//@   ensures[state] st(b) == (ok ? Closed : old(st(b)))
//@   ensures[probes-reset] b.curProbeNumber == (ok ? 0 : old(b.curProbeNumber))
//@   ensures[listeners] gToClosed == old(gToClosed) + (ok ? nListeners() : 0) && (ok && nListeners() > 0 ==> gToClosedPrev == HalfOpen)
//@   modifies deref(b.state), b.curProbeNumber, gToClosed, gToClosedPrev
//@   loop 1:
//@     invariant gToClosed == old(gToClosed) + #i && (#i > 0 ==> gToClosedPrev == HalfOpen)

// Open -> HalfOpen admits the probe; a rollback hook is registered on the probe's entry
//@ func (b *circuitBreakerBase) fromOpenToHalfOpen(ctx) ok
//@   concurrent C12
//@   shared deref(b.state), b.nextRetryTimestampMs, b.curProbeNumber
//@   ensures[reported-iff-own-cas]{C12} gToHalf == old(gToHalf) + (ok ? nListeners() : 0) && (ok && nListeners() > 0 ==> gToHalfPrev == Open) && (ok <==> wrote(deref(b.state), Open, HalfOpen))
//@   onwrite[legal-edge]{C12} deref(b.state): prev == Open && new == HalfOpen
//@   props C03, C12
//@   requires baseOK(b) && ctx != nil
//@   ensures[cas] ok <==> old(st(b)) == Open
//@   ensures[state] st(b) == (ok ? HalfOpen : old(st(b)))
//@   ensures[deadline-kept] b.nextRetryTimestampMs == old(b.nextRetryTimestampMs)
//@   ensures[listeners] gToHalf == old(gToHalf) + (ok ? nListeners() : 0) && (ok && nListeners() > 0 ==> gToHalfPrev == Open)
//@   ensures[hook] ok && ctx.entry != nil ==> len(ctx.entry.exitHandlers) == old(len(ctx.entry.exitHandlers)) + 1
//@   ensures[hook-only-for-the-winner]{C03,C12} ctx.entry != nil ==> len(ctx.entry.exitHandlers) == old(len(ctx.entry.exitHandlers)) + (ok ? 1 : 0)
//@   modifies deref(b.state), gToHalf, gToHalfPrev, ctx.entry.exitHandlers, elems(ctx.entry.exitHandlers)
//@   loop 1:
//@     invariant gToHalf == old(gToHalf) + #i && (#i > 0 ==> gToHalfPrev == Open)

// the rollback hook: a probe that was blocked by a later rule returns the breaker to Open, deadline unchanged
//@ func fromOpenToHalfOpen$1(entry, ctx) err
//@   concurrent C12
//@   shared deref(b.state), b.nextRetryTimestampMs, b.curProbeNumber
//@   ensures[reported-iff-own-cas]{C12} gToOpen == old(gToOpen) + (wrote(deref(b.state), HalfOpen, Open) ? nListeners() : 0) && (wrote(deref(b.state), HalfOpen, Open) && nListeners() > 0 ==> gToOpenPrev == HalfOpen)
//@   onwrite[legal-edge]{C12} deref(b.state): prev == HalfOpen && new == Open && wasBlocked
//@   props C03, C12
//@   requires baseOK(b) && ctx != nil
//@   let wasBlocked = ctx.RuleCheckResult != nil && ctx.RuleCheckResult.status == base.ResultStatusBlocked
//@   ensures[rollback] st(b) == (wasBlocked && old(st(b)) == HalfOpen ? Open : old(st(b)))
//@   ensures[deadline-kept] b.nextRetryTimestampMs == old(b.nextRetryTimestampMs)
//@   ensures[listeners] gToOpen == old(gToOpen) + (wasBlocked && old(st(b)) == HalfOpen ? nListeners() : 0) && (wasBlocked && old(st(b)) == HalfOpen && nListeners() > 0 ==> gToOpenPrev == HalfOpen)
//@   ensures[no-error] err == nil
//@   modifies deref(b.state), gToOpen, gToOpenPrev
//@   loop 1:
//@     invariant gToOpen == old(gToOpen) + #i && (#i > 0 ==> gToOpenPrev == HalfOpen)

// ---- the window statistics of the error-based breakers (assumed: their relation to the leap array is C08's
// placement/selection contract instantiated for this bucket generator)
//@ ghost var gCurErr Int
//@ ghost var gAllErr Slice
//@ spec func errCounters() = ptrslice(gAllErr, errorCounter)
//@ spec func countersOK(cs) = len(cs) <= 65536 && (forall j Int :: 0 <= j && j < len(cs) ==> cs[j] != nil && allocated(cs[j]) && cs[j].totalCount <= 1099511627776 && cs[j].errorCount <= 1099511627776) && (forall j Int :: forall k Int :: 0 <= j && j < k && k < len(cs) ==> cs[j] != cs[k])

//@ func (s *errorCounterLeapArray) currentCounter() (c, err)
//@   assumed
//@   ensures (c == nil) <==> (err != nil)
//@   ensures c != nil ==> allocated(c) && c.totalCount < 1099511627776 && c.errorCount < 1099511627776
//@   ensures gCurErr == ref(c)
//@   modifies gCurErr

//@ func (s *errorCounterLeapArray) allCounter() r
//@   assumed
//@   ensures gAllErr == r && countersOK(r) && (len(r) == 0 || fresh(base(r)))
//@   ensures[no-boundary-between-reads] gCurErr != 0 ==> usum(seqof(j, r[j].totalCount), len(r)) >= 1
//@   modifies gAllErr

//@ spec rec usum(a (Array Int Int), k Int) Int = k <= 0 ? 0 : usum(a, k - 1) + sel(a, k - 1)
//@ spec func totalOf(cs) = usum(seqof(j, cs[j].totalCount), len(cs))
//@ spec func errorsOf(cs) = usum(seqof(j, cs[j].errorCount), len(cs))

//@ func (b *errorCountCircuitBreaker) TryPass(ctx) r
//@   concurrent C12
//@   shared deref(b.state), b.nextRetryTimestampMs, b.curProbeNumber
//@   ensures[closed-passes]{C12} firstload(deref(b.state)) == Closed ==> r
//@   ensures[open-admits-only-own-cas]{C12} firstload(deref(b.state)) == Open ==> (r <==> wrote(deref(b.state), Open, HalfOpen))
//@   ensures[open-waits-for-deadline]{C12} firstload(deref(b.state)) == Open && r ==> clock_ms >= firstload(b.nextRetryTimestampMs)
//@   ensures[half-open-admits-none]{C12} firstload(deref(b.state)) == HalfOpen ==> (r <==> b.probeNumber > 0)
//@   ensures[one-report-per-passage]{C12} gToHalf == old(gToHalf) + (wrote(deref(b.state), Open, HalfOpen) ? nListeners() : 0)
//@   onwrite[legal-edge]{C12} deref(b.state): prev == Open && new == HalfOpen
//@   props C03, C12
//@   requires b != nil && baseOK(b.circuitBreakerBase) && ctx != nil
//@   let s0 = st(b.circuitBreakerBase)
//@   ensures[closed] s0 == Closed ==> r && st(b.circuitBreakerBase) == Closed && gToHalf == old(gToHalf)
//@   ensures[open-wait] s0 == Open && clock_ms < old(b.nextRetryTimestampMs) ==> !r && st(b.circuitBreakerBase) == Open && gToHalf == old(gToHalf)
//@   ensures[open-probe] s0 == Open && clock_ms >= old(b.nextRetryTimestampMs) ==> r && st(b.circuitBreakerBase) == HalfOpen && gToHalf == old(gToHalf) + nListeners() && (nListeners() > 0 ==> gToHalfPrev == Open)
//@   ensures[half-open] s0 == HalfOpen ==> (r <==> b.probeNumber > 0) && st(b.circuitBreakerBase) == HalfOpen && gToHalf == old(gToHalf)
//@   ensures[deadline-kept] b.nextRetryTimestampMs == old(b.nextRetryTimestampMs)

//@ func (b *errorCountCircuitBreaker) resetMetric()
//@   props C03
//@   requires b != nil && b.stat != nil
//@   ensures[all-zero] forall j Int :: 0 <= j && j < len(errCounters()) ==> errCounters()[j].errorCount == 0 && errCounters()[j].totalCount == 0
//@   modifies gAllErr, all(errorCounter.errorCount), all(errorCounter.totalCount)
//@   loop 1:
//@     invariant forall j Int :: 0 <= j && j < #i ==> errCounters()[j].errorCount == 0 && errCounters()[j].totalCount == 0

//@ func (b *errorCountCircuitBreaker) OnRequestComplete(rt, err)
//@   props C03
//@   requires b != nil && baseOK(b.circuitBreakerBase) && b.stat != nil && b.curProbeNumber < 4611686018427387904
//@   let s0 = st(b.circuitBreakerBase)
//@   let base = b.circuitBreakerBase
//@   ensures[not-recorded] gCurErr == 0 ==> st(base) == s0 && gToOpen == old(gToOpen) && gToClosed == old(gToClosed)
//@   ensures[straggler] s0 == Open ==> st(base) == Open && base.nextRetryTimestampMs == old(base.nextRetryTimestampMs) && gToOpen == old(gToOpen) && gToClosed == old(gToClosed) && gToHalf == old(gToHalf)
//@   ensures[counted] gCurErr != 0 && st(base) != Closed ==> cast(gCurErr, errorCounter).totalCount == old(cast(now(gCurErr), errorCounter).totalCount) + 1 && cast(gCurErr, errorCounter).errorCount == old(cast(now(gCurErr), errorCounter).errorCount) + (err != nil ? 1 : 0)
//@   ensures[open-iff] gCurErr != 0 && s0 == Closed ==> (st(base) == Open <==> totalOf(errCounters()) >= b.minRequestAmount && errorsOf(errCounters()) >= b.errorCountThreshold)
//@   ensures[open-effects] gCurErr != 0 && s0 == Closed && st(base) == Open ==> base.nextRetryTimestampMs == clock_ms + base.retryTimeoutMs && gToOpen == old(gToOpen) + nListeners() && (nListeners() > 0 ==> gToOpenPrev == Closed)
//@   ensures[closed-stays] gCurErr != 0 && s0 == Closed && st(base) != Open ==> st(base) == Closed && gToOpen == old(gToOpen) && base.nextRetryTimestampMs == old(base.nextRetryTimestampMs)
//@   ensures[probe-fail] gCurErr != 0 && s0 == HalfOpen && err != nil ==> st(base) == Open && base.nextRetryTimestampMs == clock_ms + base.retryTimeoutMs && base.curProbeNumber == 0 && gToOpen == old(gToOpen) + nListeners()
//@   ensures[probe-ok] gCurErr != 0 && s0 == HalfOpen && err == nil && (base.probeNumber == 0 || old(base.curProbeNumber) + 1 >= base.probeNumber) ==> st(base) == Closed && base.curProbeNumber == 0 && gToClosed == old(gToClosed) + nListeners() && (forall j Int :: 0 <= j && j < len(errCounters()) ==> errCounters()[j].errorCount == 0 && errCounters()[j].totalCount == 0)
//@   ensures[probe-more] gCurErr != 0 && s0 == HalfOpen && err == nil && base.probeNumber != 0 && old(base.curProbeNumber) + 1 < base.probeNumber ==> st(base) == HalfOpen && base.curProbeNumber == old(base.curProbeNumber) + 1
//@   loop 1:
//@     let ts = seqof(j, counters[j].totalCount)
//@     let es = seqof(j, counters[j].errorCount)
//@     invariant[sums] totalCount == usum(ts, #i) && errorCount == usum(es, #i) && totalCount <= #i * 1099511627777 && errorCount <= #i * 1099511627777

// ---- error-ratio breaker (same statistics; opens when errors/total reaches the threshold, with the 1e-8 tolerance
// of util.Float64Equals made explicit)
//@ func (b *errorRatioCircuitBreaker) TryPass(ctx) r
//@   concurrent C12
//@   shared deref(b.state), b.nextRetryTimestampMs, b.curProbeNumber
//@   ensures[closed-passes]{C12} firstload(deref(b.state)) == Closed ==> r
//@   ensures[open-admits-only-own-cas]{C12} firstload(deref(b.state)) == Open ==> (r <==> wrote(deref(b.state), Open, HalfOpen))
//@   ensures[open-waits-for-deadline]{C12} firstload(deref(b.state)) == Open && r ==> clock_ms >= firstload(b.nextRetryTimestampMs)
//@   ensures[half-open-admits-none]{C12} firstload(deref(b.state)) == HalfOpen ==> (r <==> b.probeNumber > 0)
//@   ensures[one-report-per-passage]{C12} gToHalf == old(gToHalf) + (wrote(deref(b.state), Open, HalfOpen) ? nListeners() : 0)
//@   onwrite[legal-edge]{C12} deref(b.state): prev == Open && new == HalfOpen
//@   props C03, C12
//@   requires b != nil && baseOK(b.circuitBreakerBase) && ctx != nil
//@   let s0 = st(b.circuitBreakerBase)
//@   ensures[closed] s0 == Closed ==> r && st(b.circuitBreakerBase) == Closed && gToHalf == old(gToHalf)
//@   ensures[open-wait] s0 == Open && clock_ms < old(b.nextRetryTimestampMs) ==> !r && st(b.circuitBreakerBase) == Open && gToHalf == old(gToHalf)
//@   ensures[open-probe] s0 == Open && clock_ms >= old(b.nextRetryTimestampMs) ==> r && st(b.circuitBreakerBase) == HalfOpen && gToHalf == old(gToHalf) + nListeners() && (nListeners() > 0 ==> gToHalfPrev == Open)
//@   ensures[half-open] s0 == HalfOpen ==> (r <==> b.probeNumber > 0) && st(b.circuitBreakerBase) == HalfOpen && gToHalf == old(gToHalf)
//@   ensures[deadline-kept] b.nextRetryTimestampMs == old(b.nextRetryTimestampMs)

//@ func (b *errorRatioCircuitBreaker) resetMetric()
//@   props C03
//@   requires b != nil && b.stat != nil
//@   ensures[all-zero] forall j Int :: 0 <= j && j < len(errCounters()) ==> errCounters()[j].errorCount == 0 && errCounters()[j].totalCount == 0
//@   modifies gAllErr, all(errorCounter.errorCount), all(errorCounter.totalCount)
//@   loop 1:
//@     invariant forall j Int :: 0 <= j && j < #i ==> errCounters()[j].errorCount == 0 && errCounters()[j].totalCount == 0

//@ func (b *errorRatioCircuitBreaker) OnRequestComplete(rt, err)
//@   props C03
//@   requires b != nil && baseOK(b.circuitBreakerBase) && b.stat != nil && b.curProbeNumber < 4611686018427387904
//@   let s0 = st(b.circuitBreakerBase)
//@   let base = b.circuitBreakerBase
//@   ensures[not-recorded] gCurErr == 0 ==> st(base) == s0 && gToOpen == old(gToOpen) && gToClosed == old(gToClosed)
//@   ensures[straggler] s0 == Open ==> st(base) == Open && base.nextRetryTimestampMs == old(base.nextRetryTimestampMs) && gToOpen == old(gToOpen) && gToClosed == old(gToClosed) && gToHalf == old(gToHalf)
//@   ensures[counted] gCurErr != 0 && st(base) != Closed ==> cast(gCurErr, errorCounter).totalCount == old(cast(now(gCurErr), errorCounter).totalCount) + 1 && cast(gCurErr, errorCounter).errorCount == old(cast(now(gCurErr), errorCounter).errorCount) + (err != nil ? 1 : 0)
//@   ensures[opens-when-reached] gCurErr != 0 && s0 == Closed && totalOf(errCounters()) >= b.minRequestAmount && totalOf(errCounters()) > 0 && R(errorsOf(errCounters())) / R(totalOf(errCounters())) >= b.errorRatioThreshold ==> st(base) == Open
//@   ensures[opens-only-near-threshold] gCurErr != 0 && s0 == Closed && st(base) == Open ==> totalOf(errCounters()) >= b.minRequestAmount && R(errorsOf(errCounters())) / R(totalOf(errCounters())) > b.errorRatioThreshold - util.precision
//@   ensures[open-effects] gCurErr != 0 && s0 == Closed && st(base) == Open ==> base.nextRetryTimestampMs == clock_ms + base.retryTimeoutMs && gToOpen == old(gToOpen) + nListeners() && (nListeners() > 0 ==> gToOpenPrev == Closed)
//@   ensures[closed-stays] gCurErr != 0 && s0 == Closed && st(base) != Open ==> st(base) == Closed && gToOpen == old(gToOpen) && base.nextRetryTimestampMs == old(base.nextRetryTimestampMs)
//@   ensures[probe-fail] gCurErr != 0 && s0 == HalfOpen && err != nil ==> st(base) == Open && base.nextRetryTimestampMs == clock_ms + base.retryTimeoutMs && base.curProbeNumber == 0 && gToOpen == old(gToOpen) + nListeners()
//@   ensures[probe-ok] gCurErr != 0 && s0 == HalfOpen && err == nil && (base.probeNumber == 0 || old(base.curProbeNumber) + 1 >= base.probeNumber) ==> st(base) == Closed && base.curProbeNumber == 0 && gToClosed == old(gToClosed) + nListeners() && (forall j Int :: 0 <= j && j < len(errCounters()) ==> errCounters()[j].errorCount == 0 && errCounters()[j].totalCount == 0)
//@   ensures[probe-more] gCurErr != 0 && s0 == HalfOpen && err == nil && base.probeNumber != 0 && old(base.curProbeNumber) + 1 < base.probeNumber ==> st(base) == HalfOpen && base.curProbeNumber == old(base.curProbeNumber) + 1
//@   loop 1:
//@     let ts = seqof(j, counters[j].totalCount)
//@     let es = seqof(j, counters[j].errorCount)
//@     invariant[sums] totalCount == usum(ts, #i) && errorCount == usum(es, #i) && totalCount <= #i * 1099511627777 && errorCount <= #i * 1099511627777

// ---- slow-request-ratio breaker
//@ ghost var gCurSlow Int
//@ ghost var gAllSlow Slice
//@ spec func slowCounters() = ptrslice(gAllSlow, slowRequestCounter)
//@ spec func slowCountersOK(cs) = len(cs) <= 65536 && (forall j Int :: 0 <= j && j < len(cs) ==> cs[j] != nil && allocated(cs[j]) && cs[j].totalCount <= 1099511627776 && cs[j].slowCount <= 1099511627776) && (forall j Int :: forall k Int :: 0 <= j && j < k && k < len(cs) ==> cs[j] != cs[k])
//@ spec func slowOf(cs) = usum(seqof(j, cs[j].slowCount), len(cs))
//@ func (s *slowRequestLeapArray) currentCounter() (c, err)
//@   assumed
//@   ensures (c == nil) <==> (err != nil)
//@   ensures c != nil ==> allocated(c) && c.totalCount < 1099511627776 && c.slowCount < 1099511627776
//@   ensures gCurSlow == ref(c)
//@   modifies gCurSlow
//@ func (s *slowRequestLeapArray) allCounter() r
//@   assumed
//@   ensures gAllSlow == r && slowCountersOK(r) && (len(r) == 0 || fresh(base(r)))
//@   ensures[no-boundary-between-reads] gCurSlow != 0 ==> usum(seqof(j, r[j].totalCount), len(r)) >= 1
//@   modifies gAllSlow
//@ func (b *slowRtCircuitBreaker) TryPass(ctx) r
//@   concurrent C12
//@   shared deref(b.state), b.nextRetryTimestampMs, b.curProbeNumber
//@   ensures[closed-passes]{C12} firstload(deref(b.state)) == Closed ==> r
//@   ensures[open-admits-only-own-cas]{C12} firstload(deref(b.state)) == Open ==> (r <==> wrote(deref(b.state), Open, HalfOpen))
//@   ensures[open-waits-for-deadline]{C12} firstload(deref(b.state)) == Open && r ==> clock_ms >= firstload(b.nextRetryTimestampMs)
//@   ensures[half-open-admits-none]{C12} firstload(deref(b.state)) == HalfOpen ==> (r <==> b.probeNumber > 0)
//@   ensures[one-report-per-passage]{C12} gToHalf == old(gToHalf) + (wrote(deref(b.state), Open, HalfOpen) ? nListeners() : 0)
//@   onwrite[legal-edge]{C12} deref(b.state): prev == Open && new == HalfOpen
//@   props C03, C12
//@   requires b != nil && baseOK(b.circuitBreakerBase) && ctx != nil
//@   let s0 = st(b.circuitBreakerBase)
//@   ensures[closed] s0 == Closed ==> r && st(b.circuitBreakerBase) == Closed && gToHalf == old(gToHalf)
//@   ensures[open-wait] s0 == Open && clock_ms < old(b.nextRetryTimestampMs) ==> !r && st(b.circuitBreakerBase) == Open && gToHalf == old(gToHalf)
//@   ensures[open-probe] s0 == Open && clock_ms >= old(b.nextRetryTimestampMs) ==> r && st(b.circuitBreakerBase) == HalfOpen && gToHalf == old(gToHalf) + nListeners() && (nListeners() > 0 ==> gToHalfPrev == Open)
//@   ensures[half-open] s0 == HalfOpen ==> (r <==> b.probeNumber > 0) && st(b.circuitBreakerBase) == HalfOpen && gToHalf == old(gToHalf)
//@   ensures[deadline-kept] b.nextRetryTimestampMs == old(b.nextRetryTimestampMs)

//@ func (b *slowRtCircuitBreaker) resetMetric()
//@   props C03
//@   requires b != nil && b.stat != nil
//@   ensures[all-zero] forall j Int :: 0 <= j && j < len(slowCounters()) ==> slowCounters()[j].slowCount == 0 && slowCounters()[j].totalCount == 0
//@   modifies gAllSlow, all(slowRequestCounter.slowCount), all(slowRequestCounter.totalCount)
//@   loop 1:
//@     invariant forall j Int :: 0 <= j && j < #i ==> slowCounters()[j].slowCount == 0 && slowCounters()[j].totalCount == 0

//@ func (b *slowRtCircuitBreaker) OnRequestComplete(rt, err)
//@   props C03
//@   requires b != nil && baseOK(b.circuitBreakerBase) && b.stat != nil && b.curProbeNumber < 4611686018427387904
//@   let s0 = st(b.circuitBreakerBase)
//@   let base = b.circuitBreakerBase
//@   ensures[not-recorded] gCurSlow == 0 ==> st(base) == s0 && gToOpen == old(gToOpen) && gToClosed == old(gToClosed)
//@   ensures[straggler] s0 == Open ==> st(base) == Open && base.nextRetryTimestampMs == old(base.nextRetryTimestampMs) && gToOpen == old(gToOpen) && gToClosed == old(gToClosed) && gToHalf == old(gToHalf)
//@   ensures[counted] gCurSlow != 0 && st(base) != Closed ==> cast(gCurSlow, slowRequestCounter).totalCount == old(cast(now(gCurSlow), slowRequestCounter).totalCount) + 1 && cast(gCurSlow, slowRequestCounter).slowCount == old(cast(now(gCurSlow), slowRequestCounter).slowCount) + (rt > b.maxAllowedRt ? 1 : 0)
//@   ensures[opens-when-reached] gCurSlow != 0 && s0 == Closed && totalOf(slowCounters()) >= b.minRequestAmount && totalOf(slowCounters()) > 0 && R(slowOf(slowCounters())) / R(totalOf(slowCounters())) >= b.maxSlowRequestRatio ==> st(base) == Open
//@   ensures[opens-only-near-threshold] gCurSlow != 0 && s0 == Closed && st(base) == Open ==> totalOf(slowCounters()) >= b.minRequestAmount && R(slowOf(slowCounters())) / R(totalOf(slowCounters())) > b.maxSlowRequestRatio - util.precision
//@   ensures[open-effects] gCurSlow != 0 && s0 == Closed && st(base) == Open ==> base.nextRetryTimestampMs == clock_ms + base.retryTimeoutMs && gToOpen == old(gToOpen) + nListeners() && (nListeners() > 0 ==> gToOpenPrev == Closed)
//@   ensures[closed-stays] gCurSlow != 0 && s0 == Closed && st(base) != Open ==> st(base) == Closed && gToOpen == old(gToOpen) && base.nextRetryTimestampMs == old(base.nextRetryTimestampMs)
//@   ensures[probe-fail] gCurSlow != 0 && s0 == HalfOpen && rt > b.maxAllowedRt ==> st(base) == Open && base.nextRetryTimestampMs == clock_ms + base.retryTimeoutMs && base.curProbeNumber == 0 && gToOpen == old(gToOpen) + nListeners()
//@   ensures[probe-ok] gCurSlow != 0 && s0 == HalfOpen && rt <= b.maxAllowedRt && (base.probeNumber == 0 || old(base.curProbeNumber) + 1 >= base.probeNumber) ==> st(base) == Closed && base.curProbeNumber == 0 && gToClosed == old(gToClosed) + nListeners() && (forall j Int :: 0 <= j && j < len(slowCounters()) ==> slowCounters()[j].slowCount == 0 && slowCounters()[j].totalCount == 0)
//@   ensures[probe-more] gCurSlow != 0 && s0 == HalfOpen && rt <= b.maxAllowedRt && base.probeNumber != 0 && old(base.curProbeNumber) + 1 < base.probeNumber ==> st(base) == HalfOpen && base.curProbeNumber == old(base.curProbeNumber) + 1
//@   loop 1:
//@     let ts = seqof(j, counters[j].totalCount)
//@     let es = seqof(j, counters[j].slowCount)
//@     invariant[sums] totalCount == usum(ts, #i) && slowCount == usum(es, #i) && totalCount <= #i * 1099511627777 && slowCount <= #i * 1099511627777

// ---- slot level: which breakers are consulted / informed, in which order (ghost call sequences)
//@ ghost var gTryN Int
//@ ghost var gTryRecv (Array Int Int)
//@ ghost var gTryRes (Array Int Bool)
//@ ghost var gLastTry (Array Int Bool)
//@ ghost var gDoneN Int
//@ ghost var gDoneRecv (Array Int Int)
//@ ghost var gDoneRt (Array Int Int)
//@ ghost var gDoneErr (Array Int Iface)

//@ ghost var gStateAfterTry (Array Int Int)
//@ iface CircuitBreaker.TryPass(ctx) r
//@   ensures gTryN == old(gTryN) + 1 && gTryRecv == upd(old(gTryRecv), old(gTryN), dynptr(this)) && gTryRes == upd(old(gTryRes), old(gTryN), r)
//@   ensures gLastTry == upd(old(gLastTry), dynptr(this), r)
//@   ensures gStateAfterTry == upd(old(gStateAfterTry), dynptr(this), this.CurrentState())
//@   modifies gStateAfterTry, gLastTry, gTryN, gTryRecv, gTryRes, all(circuitBreakerBase.nextRetryTimestampMs), all(circuitBreakerBase.curProbeNumber), cells(State), gToHalf, gToHalfPrev
//@ iface CircuitBreaker.BoundRule() r
//@   pure
//@ iface CircuitBreaker.CurrentState() r
//@   pure
//@ iface CircuitBreaker.OnRequestComplete(rtt, err)
//@   ensures gDoneN == old(gDoneN) + 1 && gDoneRecv == upd(old(gDoneRecv), old(gDoneN), dynptr(this)) && gDoneRt == upd(old(gDoneRt), old(gDoneN), rtt) && gDoneErr == upd(old(gDoneErr), old(gDoneN), err)
//@   modifies gDoneN, gDoneRecv, gDoneRt, gDoneErr

//@ func checkPass(ctx) (passed, rule)
//@   props C03
//@   requires ctx != nil && ctx.Resource != nil
//@   let cbs = breakers[ctx.Resource.name]
//@   let n0 = gTryN
//@   ensures[in-order] forall j Int :: n0 <= j && j < gTryN ==> sel(gTryRecv, j) == dynptr(cbs[j - n0])
//@   ensures[all-passed] passed ==> gTryN == n0 + len(cbs) && rule == nil && (forall j Int :: n0 <= j && j < gTryN ==> sel(gTryRes, j))
//@   modifies gStateAfterTry, gLastTry, gTryN, gTryRecv, gTryRes, all(circuitBreakerBase.nextRetryTimestampMs), all(circuitBreakerBase.curProbeNumber), cells(State), gToHalf, gToHalfPrev
//@   ensures[first-reject] !passed ==> gTryN > n0 && gTryN <= n0 + len(cbs) && !sel(gTryRes, gTryN - 1) && (forall j Int :: n0 <= j && j < gTryN - 1 ==> sel(gTryRes, j)) && rule == cbs[gTryN - 1 - n0].BoundRule()
//@   loop 1:
//@     invariant[count] gTryN == n0 + #i
//@     invariant[passed-so-far] forall j Int :: n0 <= j && j < gTryN ==> sel(gTryRes, j)
//@     invariant[in-order] forall j Int :: n0 <= j && j < gTryN ==> sel(gTryRecv, j) == dynptr(cbs[j - n0])

//@ spec func blocked(r) = r != nil && r.status == base.ResultStatusBlocked
//@ func (b *Slot) Check(ctx) r
//@   props C03
//@   requires ctx != nil && ctx.Resource != nil && !blocked(ctx.RuleCheckResult)
//@   let cbs = breakers[ctx.Resource.name]
//@   let n0 = gTryN
//@   ensures[empty-name] len(ctx.Resource.name) == 0 ==> r == old(ctx.RuleCheckResult) && gTryN == n0
//@   ensures[block-iff] len(ctx.Resource.name) > 0 ==> (blocked(r) <==> gTryN > n0 && !sel(gTryRes, gTryN - 1))
//@   ensures[block-type] blocked(r) ==> r.blockErr != nil && r.blockErr.blockType == base.BlockTypeCircuitBreaking
//@   ensures[pass-unchanged] !blocked(r) ==> r == old(ctx.RuleCheckResult)

//@ func (c *MetricStatSlot) OnCompleted(ctx)
//@   props C03
//@   requires ctx != nil && ctx.Resource != nil
//@   let cbs = breakers[ctx.Resource.name]
//@   let n0 = gDoneN
//@   ensures[each-once-in-order] gDoneN == n0 + len(cbs) && (forall j Int :: n0 <= j && j < gDoneN ==> sel(gDoneRecv, j) == dynptr(cbs[j - n0]) && sel(gDoneErr, j) == old(ctx.err))
//@   loop 1:
//@     invariant gDoneN == n0 + #i && (forall j Int :: n0 <= j && j < gDoneN ==> sel(gDoneRecv, j) == dynptr(cbs[j - n0]) && sel(gDoneErr, j) == old(ctx.err))

// ---- C13: whole-set load. The grouping loop must cope with any element, including nil; the rebuild itself
// (onRuleUpdate) is under a separate contract.
//@ func LogRuleUpdate(m)
//@   assumed
//@   panics never
//@   modifies nothing
//@ spec func allValidLists(m) = (forall r Str :: has(m, r) ==> allocated(base(m[r]))) && (forall r Str :: forall k Int :: has(m, r) && 0 <= k && k < len(m[r]) ==> validRule(m[r][k]))
//@ func onRuleUpdate(rawResRulesMap) err
//@   props C13, C14
//@   requires[holds-the-update-lock]{C15} wlockcount(updateRuleMux) > 0
//@   requires breakers != nil && breakerRules != nil && allocated(breakers) && allocated(breakerRules)
//@   ensures[raw-recorded] err == nil ==> currentRules == rawResRulesMap
//@   ensures[new-tables-swapped-in] err == nil ==> breakers != nil && fresh(breakers) && breakerRules != nil && fresh(breakerRules)
//@   ensures[only-valid-rules-enforced] err == nil ==> allValidLists(breakerRules)
//@   let pub = breakers
//@   ensures[published-lists-not-rewritten]{C13,C15} forall r Str :: forall k Int :: old(has(pub, r)) && old(allocated(base(pub[r]))) && 0 <= k && k < len(old(pub[r])) ==> old(pub[r])[k] == old(pub[r][k])
//@   modifies breakers, breakerRules, currentRules
//@   loop 1:
//@     invariant[valid-map-is-new] validResRulesMap != nil && fresh(validResRulesMap) && allValidLists(validResRulesMap)
//@     invariant[nothing-else-written]{seq} frame()
//@     invariant[published-lists-untouched]{conc} forall r Str :: forall k Int :: old(has(pub, r)) && old(allocated(base(pub[r]))) && 0 <= k && k < len(old(pub[r])) ==> old(pub[r])[k] == old(pub[r][k])
//@   loop 2:
//@     invariant[valid-map-is-new] validResRulesMap != nil && fresh(validResRulesMap) && allValidLists(validResRulesMap)
//@     invariant[valid-list-is-new] (cap(validResRules) == 0 || fresh(base(validResRules))) && (forall k Int :: 0 <= k && k < len(validResRules) ==> validRule(validResRules[k]))
//@     invariant[valid-list-is-not-in-the-map-yet] forall r Str :: has(validResRulesMap, r) ==> base(validResRulesMap[r]) != base(validResRules)
//@     invariant[nothing-else-written]{seq} frame()
//@     invariant[published-lists-untouched]{conc} forall r Str :: forall k Int :: old(has(pub, r)) && old(allocated(base(pub[r]))) && 0 <= k && k < len(old(pub[r])) ==> old(pub[r])[k] == old(pub[r][k])
//@   loop 3:
//@     invariant[clone-is-new] breakersClone != nil && fresh(breakersClone) && (forall r Str :: has(breakersClone, r) ==> fresh(base(breakersClone[r])))
//@     invariant[clone-lists-allocated] forall r Str :: has(breakersClone, r) ==> allocated(base(breakersClone[r])) && base(breakersClone[r]) != 0
//@     invariant[clone-domain] forall r Str :: has(breakersClone, r) ==> has(breakers, r) && sel(#seen, r) && len(breakersClone[r]) == len(breakers[r])
//@     invariant[clone-is-complete-so-far] forall r Str :: has(breakers, r) && sel(#seen, r) ==> has(breakersClone, r)
//@     invariant[clone-lists-are-separate] forall r Str :: forall q Str :: has(breakersClone, r) && has(breakersClone, q) && r != q && allocated(base(breakersClone[r])) && allocated(base(breakersClone[q])) ==> base(breakersClone[r]) != base(breakersClone[q])
//@     invariant[valid-lists] allValidLists(validResRulesMap)
//@     invariant[nothing-else-written]{seq} frame()
//@     invariant[published-lists-untouched]{conc} forall r Str :: forall k Int :: old(has(pub, r)) && old(allocated(base(pub[r]))) && 0 <= k && k < len(old(pub[r])) ==> old(pub[r])[k] == old(pub[r][k])
//@   loop 4:
//@     invariant[new-table] newBreakers != nil && fresh(newBreakers)
//@     invariant[clone-lists-are-private] forall r Str :: has(breakersClone, r) ==> fresh(base(breakersClone[r]))
//@     invariant[clone-lists-allocated] forall r Str :: has(breakersClone, r) ==> allocated(base(breakersClone[r])) && base(breakersClone[r]) != 0
//@     invariant[clone-lists-are-separate] forall r Str :: forall q Str :: has(breakersClone, r) && has(breakersClone, q) && r != q && allocated(base(breakersClone[r])) && allocated(base(breakersClone[q])) ==> base(breakersClone[r]) != base(breakersClone[q])
//@     invariant[clone-domain] forall r Str :: (has(breakersClone, r) <==> has(breakers, r)) && (has(breakers, r) ==> len(breakersClone[r]) == len(breakers[r]))
//@     invariant[valid-lists] allValidLists(validResRulesMap)
//@     invariant[nothing-else-written]{seq} frame()
//@     invariant[published-lists-untouched]{conc} forall r Str :: forall k Int :: old(has(pub, r)) && old(allocated(base(pub[r]))) && 0 <= k && k < len(old(pub[r])) ==> old(pub[r])[k] == old(pub[r][k])
//@ func LoadRules(rules) (changed, err)
//@   props C13
//@   objinv breakers != nil && breakerRules != nil && allocated(breakers) && allocated(breakerRules)
//@   panics never
//@   sets gCbLoadN = old(gCbLoadN) + 1
//@   sets gCbLoadArg = rules
//@   ensures[recorded] gCbLoadN == old(gCbLoadN) + 1 && gCbLoadArg == rules
//@   modifies heap, gCbLoadN, gCbLoadArg
//@   witness n = len(rules)
//@   replay loadrules_nil

// ---- C13: per-resource load
//@ spec func validRule(r) = r != nil && len(r.Resource) > 0 && r.StatIntervalMs > 0 && r.RetryTimeoutMs > 0 && r.Threshold >= 0.0 && !(r.Strategy == SlowRequestRatio && r.Threshold > 1.0) && !(r.Strategy == ErrorRatio && r.Threshold > 1.0)

//@ func IsValidRule(r) err
//@   props C13
//@   ensures[iff] err == nil <==> validRule(r)
//@   modifies nothing

// only rules that passed the validity check may reach the breaker builder
//@ func BuildResourceCircuitBreaker(res, rulesOfRes, oldResCbs) r
//@   assumed
//@   requires[all-valid] forall k Int :: 0 <= k && k < len(rulesOfRes) ==> validRule(rulesOfRes[k])
//@   ensures len(r) == 0 || fresh(base(r))
//@   modifies elems(oldResCbs)

//@ func onResourceRuleUpdate(res, rawResRules) err
//@   props C13
//@   requires[holds-the-update-lock]{C15} wlockcount(updateRuleMux) > 0
//@   requires breakers != nil && breakerRules != nil && currentRules != nil && breakerRules != currentRules && ref(breakers) != ref(breakerRules) && ref(breakers) != ref(currentRules)
//@   let n = len(rawResRules)
//@   let pick = seqof(k, 0 <= k && k < len(rawResRules) && validRule(rawResRules[k]))
//@   ensures[reported-are-the-valid-ones] err == nil && has(breakers, res) ==> len(breakerRules[res]) == countTrue(pick, n) && (forall k Int :: 0 <= k && k < n && sel(pick, k) ==> breakerRules[res][countTrue(pick, k)] == rawResRules[k])
//@   ensures[other-resources-untouched] forall s Str :: s != res ==> has(breakers, s) == old(has(breakers, s)) && breakers[s] == old(breakers[s]) && breakerRules[s] == old(breakerRules[s])
//@   witness n = len(rawResRules)
//@   replay cb_invalid_rule_enforced
//@   loop 1:
//@     invariant[length] len(validResRules) == countTrue(pick, #i) && fresh(base(validResRules)) && 0 <= countTrue(pick, #i)
//@     invariant[positions] forall k Int :: 0 <= k && k < #i && sel(pick, k) ==> 0 <= countTrue(pick, k) && countTrue(pick, k) < len(validResRules)
//@     invariant[placed] forall k Int :: 0 <= k && k < #i && sel(pick, k) ==> validResRules[countTrue(pick, k)] == rawResRules[k]
//@     invariant[all-valid] forall j Int :: 0 <= j && j < len(validResRules) ==> validRule(validResRules[j])
//@     invariant[frame] frame()

// ---- C14: which old breaker is kept for a reloaded rule
//@ spec func baseEq(a, b) = b != nil && a.Resource == b.Resource && a.Strategy == b.Strategy && a.RetryTimeoutMs == b.RetryTimeoutMs && a.MinRequestAmount == b.MinRequestAmount && a.StatIntervalMs == b.StatIntervalMs && a.StatSlidingWindowBucketCount == b.StatSlidingWindowBucketCount && a.ProbeNum == b.ProbeNum
//@ spec func thrEq(a, b) = abs(a.Threshold - b.Threshold) < util.precision
//@ spec func eqRule(a, b) = baseEq(a, b) && ((b.Strategy == SlowRequestRatio && a.MaxAllowedRtMs == b.MaxAllowedRtMs && thrEq(a, b)) || (b.Strategy == ErrorRatio && thrEq(a, b)) || (b.Strategy == ErrorCount && thrEq(a, b)))
//@ spec func statReusable(a, b) = b != nil && a.Resource == b.Resource && a.Strategy == b.Strategy && a.StatIntervalMs == b.StatIntervalMs && a.StatSlidingWindowBucketCount == b.StatSlidingWindowBucketCount

//@ func (r *Rule) isEqualsTo(newRule) res
//@   props C14, C13
//@   requires r != nil
//@   ensures[def] res <==> eqRule(r, newRule)
//@   ensures[identical-rules-are-equal] baseEq(r, newRule) && r.MaxAllowedRtMs == newRule.MaxAllowedRtMs && r.Threshold == newRule.Threshold && (newRule.Strategy == SlowRequestRatio || newRule.Strategy == ErrorRatio || newRule.Strategy == ErrorCount) ==> res
//@   modifies nothing

// (under C03 too: a breaker that inherits the window of a rule with another strategy or interval trips on figures that
// are not its own)
//@ func (r *Rule) isStatReusable(newRule) res
//@   props C14, C03
//@   requires r != nil
//@   ensures[def] res <==> statReusable(r, newRule)
//@   modifies nothing

//@ func calculateReuseIndexFor(r, oldResCbs) (equalIdx, reuseStatIdx)
//@   props C14, C13
//@   requires forall j Int :: 0 <= j && j < len(oldResCbs) ==> oldResCbs[j] != nil && oldResCbs[j].BoundRule() != nil
//@   let n = len(oldResCbs)
//@   ensures[ranges] 0 - 1 <= equalIdx && equalIdx < n && 0 - 1 <= reuseStatIdx && reuseStatIdx < n
//@   ensures[first-equal] equalIdx >= 0 ==> eqRule(oldResCbs[equalIdx].BoundRule(), r) && (forall j Int :: 0 <= j && j < equalIdx ==> !eqRule(oldResCbs[j].BoundRule(), r))
//@   ensures[none-equal] equalIdx < 0 ==> (forall j Int :: 0 <= j && j < n ==> !eqRule(oldResCbs[j].BoundRule(), r))
//@   ensures[first-stat-reusable] reuseStatIdx >= 0 ==> statReusable(oldResCbs[reuseStatIdx].BoundRule(), r) && (forall j Int :: 0 <= j && j < reuseStatIdx ==> !statReusable(oldResCbs[j].BoundRule(), r))
//@   modifies nothing
//@   loop 1:
//@     invariant[no-equal-yet] equalIdx == 0 - 1 && (forall j Int :: 0 <= j && j < #i ==> !eqRule(oldResCbs[j].BoundRule(), r))
//@     invariant[stat-idx] 0 - 1 <= reuseStatIdx && reuseStatIdx < #i && (reuseStatIdx >= 0 ==> statReusable(oldResCbs[reuseStatIdx].BoundRule(), r) && (forall j Int :: 0 <= j && j < reuseStatIdx ==> !statReusable(oldResCbs[j].BoundRule(), r)))
//@     invariant[no-stat-yet] reuseStatIdx < 0 ==> (forall j Int :: 0 <= j && j < #i ==> !statReusable(oldResCbs[j].BoundRule(), r))

// the statistic handed to a new / modified rule never comes from a breaker that an unchanged rule further down the
// list is going to keep (that breaker would otherwise be dropped from the candidates and the unchanged rule rebuilt,
// losing its state); among the others it is the first statistic-compatible one
//@ func statReuseIndexFor(r, oldResCbs, laterRules) idx
//@   props C14
//@   requires forall j Int :: 0 <= j && j < len(oldResCbs) ==> oldResCbs[j] != nil && oldResCbs[j].BoundRule() != nil
//@   let n = len(oldResCbs)
//@   ensures[range] 0 - 1 <= idx && idx < n
//@   ensures[stat-compatible] idx >= 0 ==> statReusable(oldResCbs[idx].BoundRule(), r)
//@   ensures[never-a-breaker-kept-by-a-later-rule] idx >= 0 ==> (forall k Int :: 0 <= k && k < len(laterRules) ==> !eqRule(oldResCbs[idx].BoundRule(), laterRules[k]))
//@   ensures[first-such] forall j Int :: 0 <= j && j < (idx >= 0 ? idx : n) && statReusable(oldResCbs[j].BoundRule(), r) ==> (exists k Int :: 0 <= k && k < len(laterRules) && eqRule(oldResCbs[j].BoundRule(), laterRules[k]))
//@   modifies nothing
//@   loop 1:
//@     invariant[skipped-are-incompatible-or-kept] forall j Int :: 0 <= j && j < #i && statReusable(oldResCbs[j].BoundRule(), r) ==> (exists k Int :: 0 <= k && k < len(laterRules) && eqRule(oldResCbs[j].BoundRule(), laterRules[k]))
//@   loop 2:
//@     invariant[not-kept-so-far] !kept && (forall k Int :: 0 <= k && k < #i ==> !eqRule(oldRule, laterRules[k]))

// ---- loader entry points as seen by the datasource layer (C18): calls are recorded
//@ ghost var gCbLoadN Int
//@ ghost var gCbLoadArg Slice
//@ ghost var gCbClearN Int
//@ func ClearRules() err
//@   assumed
//@   ensures gCbClearN == old(gCbClearN) + 1
//@   modifies gCbClearN

// ---- C15: lock discipline of the rule tables (a load, store or use of the variable outside its lock is a data race)
//@ guarded breakerRules by updateMux {C15}
//@ guarded breakers by updateMux {C15}
//@ guarded currentRules by updateRuleMux {C15}
//@ lockorder updateRuleMux updateMux {C15}
