//go:build verif

package util

// Contracts for util: the thin wrappers around the operating system that verified functions call.

// the current position of a file is the operating system's (lseek): assumed not to panic and to write nothing the
// contracts can see
//@ func FilePosition(file) (pos, err)
//@   assumed
//@   panics never
//@   modifies nothing
