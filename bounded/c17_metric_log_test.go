package metric

// Bounded stand-in (C17). The metric log is file I/O (os, bufio, encoding/binary) around string formatting: outside
// the verified subset except for the searcher's resume logic (contract on getOffsetStartAndFileIdx). The rest of the
// property is checked here on the real writer / searcher / reader in a temp directory, against a model:
//
//   retained      the lines still on disk are a suffix of the accepted lines (order kept, no duplicate, nothing but
//                 whole oldest files lost), all of them when no file was ever removed; file count <= configured max
//   search        on ONE searcher instance, a random sequence of FindByTimeAndResource / FindFromTimeWithMaxLines
//                 queries (with repeats) returns exactly what the model computes from the retained lines
//   truncation    the last data file, then its index file, cut at every byte (every k-th at the quick tier): a fresh
//                 searcher never fails or panics, returns only lines that were written, and returns every retained
//                 line that — together with its index entry — lies wholly before the cut
//
// Bounded: VERIF_BOUND pseudo-random cases (seeded, reproducible), 5-30 seconds of batches each.

import (
	"fmt"
	"math/rand"
	"os"
	"path/filepath"
	"strconv"
	"strings"
	"sync"
	"testing"

	"github.com/alibaba/sentinel-golang/core/base"
	"github.com/alibaba/sentinel-golang/util"
)

type c17Line struct {
	sec  uint64
	res  string
	text string // the fat string that was written
}

func c17Fat(it *base.MetricItem) string { s, _ := it.ToFatString(); return s }

// expected result of FindByTimeAndResource on the retained lines
func c17ByTime(r []c17Line, beginMs, endMs uint64, res string) []string {
	var out []string
	started := false
	for _, l := range r {
		if !started {
			if l.sec < beginMs/1000 {
				continue
			}
			started = true
		}
		if l.sec < beginMs/1000 || l.sec > endMs/1000 {
			break
		}
		if res == "" || res == l.res {
			out = append(out, l.text)
		}
	}
	return out
}

// expected result of FindFromTimeWithMaxLines: whole seconds until at least maxLines lines were collected
func c17MaxLines(r []c17Line, beginMs uint64, maxLines uint32) []string {
	var out []string
	last := uint64(0)
	for _, l := range r {
		if l.sec < beginMs/1000 {
			continue
		}
		if uint32(len(out)) >= maxLines && l.sec != last {
			break
		}
		out = append(out, l.text)
		last = l.sec
	}
	return out
}

func c17Same(a, b []string) bool {
	if len(a) != len(b) {
		return false
	}
	for i := range a {
		if a[i] != b[i] {
			return false
		}
	}
	return true
}

func c17Texts(items []*base.MetricItem) []string {
	var out []string
	for _, it := range items {
		out = append(out, c17Fat(it))
	}
	return out
}

func c17ReadRetained(dir, baseName string) (lines []string, files []string, err error) {
	files, err = listMetricFiles(dir+string(os.PathSeparator), baseName)
	if err != nil {
		return
	}
	for _, f := range files {
		data, e := os.ReadFile(f)
		if e != nil {
			return nil, files, e
		}
		for _, ln := range strings.Split(string(data), "\n") {
			if ln != "" {
				lines = append(lines, ln)
			}
		}
	}
	return
}

func c17Search(dir, baseName string, f func(s MetricSearcher) ([]*base.MetricItem, error)) (texts []string, err error, panicked interface{}) {
	defer func() { panicked = recover() }()
	s, e := NewDefaultMetricSearcher(dir, baseName)
	if e != nil {
		return nil, e, nil
	}
	items, e := f(s)
	return c17Texts(items), e, nil
}

func TestVerifBounded(t *testing.T) {
	n := 30
	if v, err := strconv.Atoi(os.Getenv("VERIF_BOUND")); err == nil && v > 0 {
		n = v
	}
	tmpBase := os.Getenv("TMPDIR")
	if tmpBase == "" {
		tmpBase = "/var/tmp"
	}
	root, err := os.MkdirTemp(tmpBase, "c17log")
	if err != nil {
		t.Fatal(err)
	}
	defer os.RemoveAll(root)
	cases, bad := 0, 0
	seen := map[string]int{}
	fail := func(format string, args ...interface{}) {
		bad++
		key := strings.SplitN(format, ":", 2)[0]
		seen[key]++
		if seen[key] <= 2 {
			msg := fmt.Sprintf(format, args...)
			if len(msg) > 2500 {
				msg = msg[:2500] + "..."
			}
			fmt.Println("BOUNDED-FAIL " + msg)
		}
	}
	resources := []string{"a", "b", "res with space", "svc/α", "x_y"}
	for c := 0; c < n; c++ {
		cases++
		rng := rand.New(rand.NewSource(int64(1000 + c)))
		dir := filepath.Join(root, fmt.Sprintf("case%d", c))
		os.MkdirAll(dir, 0o755)
		baseName := "c17-metrics.log"
		maxSize := []uint64{300, 700, 2500, 1 << 20}[rng.Intn(4)]
		maxFiles := []uint32{1, 2, 3, 6}[rng.Intn(4)]
		w := &DefaultMetricLogWriter{maxSingleSize: maxSize, maxFileAmount: maxFiles, baseDir: dir, baseFilename: baseName, mux: new(sync.RWMutex)}
		if err := w.initialize(); err != nil {
			fail("check=harness case=%d: cannot initialise the writer: %v", c, err)
			continue
		}
		t0 := (util.CurrentTimeMillis()/1000 + 2) * 1000
		if c%5 == 4 {
			// a run that crosses midnight (the writer rolls on a new day)
			t0 = ((util.CurrentTimeMillis()/1000)/86400+1)*86400*1000 - 3000
		}
		var accepted []c17Line
		sec, latest := t0/1000, uint64(0)
		steps := 5 + rng.Intn(26)
		if c%4 == 3 {
			// many rolls on one day: every batch overflows the file, so the roll numbers reach two digits
			// (name order .9 < .10 matters for retention, for the next roll number and for the search order)
			w.maxSingleSize, maxSize = 60, 60
			maxFiles = []uint32{3, 6, 12, 40}[rng.Intn(4)]
			w.maxFileAmount = maxFiles
			steps = 24 + rng.Intn(14)
		}
		for s := 0; s < steps; s++ {
			switch rng.Intn(6) {
			case 0: // same second again
			case 1:
				sec += uint64(2 + rng.Intn(3)) // a gap
			case 2:
				if sec > t0/1000+1 && rng.Intn(2) == 0 {
					sec-- // a batch that arrives late: the writer ignores it
				} else {
					sec++
				}
			default:
				sec++
			}
			ts := sec*1000 + uint64(rng.Intn(1000))
			var items []*base.MetricItem
			for k := 0; k < 1+rng.Intn(4); k++ {
				items = append(items, &base.MetricItem{Resource: resources[rng.Intn(len(resources))], Classification: int32(rng.Intn(3)), PassQps: uint64(rng.Intn(100000)), BlockQps: uint64(rng.Intn(50)),
					CompleteQps: uint64(rng.Intn(100000)), ErrorQps: uint64(rng.Intn(9)), AvgRt: uint64(rng.Intn(3000)), OccupiedPassQps: uint64(rng.Intn(3)), Concurrency: uint32(rng.Intn(400))})
			}
			if err := w.Write(ts, items); err != nil {
				fail("check=write-accepted case=%d: Write(%d) failed: %v", c, ts, err)
			}
			if sec >= latest { // the writer accepts seconds that do not go back
				latest = sec
				for _, it := range items {
					accepted = append(accepted, c17Line{sec: sec, res: it.Resource, text: c17Fat(it)})
				}
			} else {
				sec = latest
			}
		}
		w.Close()

		// ---- retained lines against accepted lines
		raw, files, err := c17ReadRetained(dir, baseName)
		if err != nil {
			fail("check=harness case=%d: %v", c, err)
			continue
		}
		if uint32(len(files)) > maxFiles {
			fail("check=file-count-bounded case=%d: %d log files, configured maximum %d", c, len(files), maxFiles)
		}
		if len(raw) > len(accepted) {
			fail("check=retained-is-suffix case=%d: %d lines on disk, only %d accepted", c, len(raw), len(accepted))
			continue
		}
		off := len(accepted) - len(raw)
		okSuffix := true
		for i, ln := range raw {
			if ln != accepted[off+i].text {
				okSuffix = false
				fail("check=retained-is-suffix case=%d: line %d on disk is %q, expected %q", c, i, ln, accepted[off+i].text)
				break
			}
		}
		if !okSuffix {
			continue
		}
		retained := accepted[off:]

		// ---- queries on one searcher instance
		s, err := NewDefaultMetricSearcher(dir, baseName)
		if err != nil {
			fail("check=harness case=%d: %v", c, err)
			continue
		}
		span := int(latest-t0/1000) + 3
		trace := ""
		type q struct {
			kind       int
			begin, end uint64
			res        string
			max        uint32
		}
		var prev *q
		for k := 0; k < 8; k++ {
			var cur q
			if prev != nil && rng.Intn(3) == 0 {
				cur = *prev // the identical query again
			} else {
				cur = q{kind: rng.Intn(2), begin: t0 - 1000 + uint64(rng.Intn(span))*1000 + uint64(rng.Intn(1000))}
				cur.end = cur.begin + uint64(rng.Intn(span))*1000
				cur.res = append([]string{""}, resources...)[rng.Intn(len(resources)+1)]
				cur.max = uint32(1 + rng.Intn(12))
			}
			prev = &cur
			var got []*base.MetricItem
			var want []string
			var qerr error
			if cur.kind == 0 {
				trace += fmt.Sprintf("ByTime(+%d,+%d,%q) ", int64(cur.begin/1000)-int64(t0/1000), int64(cur.end/1000)-int64(t0/1000), cur.res)
				got, qerr = s.FindByTimeAndResource(cur.begin, cur.end, cur.res)
				want = c17ByTime(retained, cur.begin, cur.end, cur.res)
			} else {
				trace += fmt.Sprintf("MaxLines(+%d,%d) ", int64(cur.begin/1000)-int64(t0/1000), cur.max)
				got, qerr = s.FindFromTimeWithMaxLines(cur.begin, cur.max)
				want = c17MaxLines(retained, cur.begin, cur.max)
			}
			if qerr != nil {
				fail("check=search-succeeds case=%d queries=%s: error %v", c, trace, qerr)
				break
			}
			g := c17Texts(got)
			if cur.kind == 1 {
				// line-limited search: the property fixes order, start and "no duplicates", not where exactly the
				// reader stops once the limit is reached (inside a file it completes the second, at the end of a
				// file it stops). Accepted: a prefix of the model answer that reaches the limit.
				all := c17MaxLines(retained, cur.begin, 1<<30)
				min := int(cur.max)
				if len(all) < min {
					min = len(all)
				}
				if len(g) >= min && len(g) <= len(want) && c17Same(g, want[:len(g)]) {
					continue
				}
			}
			if !c17Same(g, want) {
				fail("check=search-matches-model case=%d (maxSize %d, files %d/%d) queries=%s: got %d items, expected %d\n  got first: %v\n  want first: %v\n  layout:%s", c, maxSize, len(files), maxFiles, trace, len(g), len(want), first(g), first(want), c17Layout(dir, baseName, t0))
				break
			}
		}

		// ---- truncation of the last data file and of its index file
		if len(files) == 0 {
			continue
		}
		lastFile := files[len(files)-1]
		data, _ := os.ReadFile(lastFile)
		idx, _ := os.ReadFile(formMetricIdxFileName(lastFile))
		written := map[string]bool{}
		for _, l := range accepted {
			written[l.text] = true
		}
		linesBefore := len(raw) - len(strings.Split(strings.TrimSuffix(string(data), "\n"), "\n"))
		if len(data) == 0 {
			linesBefore = len(raw)
		}
		step := 1
		if n <= 40 {
			step = 1 + len(data)/60
		}
		cutCheck := func(what string, cut int, mustHave []string) {
			texts, qerr, pan := c17Search(dir, baseName, func(s MetricSearcher) ([]*base.MetricItem, error) { return s.FindFromTimeWithMaxLines(t0-1000, 1<<30) })
			if pan != nil {
				fail("check=truncation-no-panic case=%d %s cut at byte %d: panic %v", c, what, cut, pan)
				return
			}
			if qerr != nil {
				fail("check=truncation-no-error case=%d %s cut at byte %d: %v", c, what, cut, qerr)
				return
			}
			for _, tx := range texts {
				if !written[tx] {
					fail("check=truncation-only-written-items case=%d %s cut at byte %d: returned %q, which was never written", c, what, cut, tx)
					return
				}
			}
			have := map[string]int{}
			for _, tx := range texts {
				have[tx]++
			}
			for _, tx := range mustHave {
				if have[tx] == 0 {
					fail("check=truncation-keeps-whole-items case=%d %s cut at byte %d: %q lies wholly before the cut but was not returned (%d of %d returned)", c, what, cut, tx, len(texts), len(mustHave))
					return
				}
				have[tx]--
			}
		}
		for cut := 0; cut <= len(data); cut += step {
			os.WriteFile(lastFile, data[:cut], 0o644)
			whole := strings.Count(string(data[:cut]), "\n")
			var must []string
			for i := 0; i < linesBefore+whole && i < len(raw); i++ {
				must = append(must, raw[i])
			}
			cutCheck("data file", cut, must)
		}
		os.WriteFile(lastFile, data, 0o644)
		for cut := 0; cut <= len(idx); cut++ {
			os.WriteFile(formMetricIdxFileName(lastFile), idx[:cut], 0o644)
			// with a damaged index of the last file, at least everything in the earlier files must still come back
			var must []string
			for i := 0; i < linesBefore && i < len(raw); i++ {
				must = append(must, raw[i])
			}
			cutCheck("index file", cut, must)
		}
		os.WriteFile(formMetricIdxFileName(lastFile), idx, 0o644)
		os.RemoveAll(dir)
	}
	res := "ok"
	if bad > 0 {
		res = "fail"
	}
	fmt.Printf("BOUNDED cases=%d failures=%d result=%s\n", cases, bad, res)
}

// c17Layout describes the files on disk: per file, its lines' seconds and its index entries (second -> offset).
func c17Layout(dir, baseName string, t0 uint64) string {
	files, _ := listMetricFiles(dir+string(os.PathSeparator), baseName)
	var b strings.Builder
	for _, f := range files {
		data, _ := os.ReadFile(f)
		fmt.Fprintf(&b, "\n    %s (%d bytes) line seconds:", filepath.Base(f), len(data))
		off := 0
		for _, ln := range strings.Split(string(data), "\n") {
			if ln != "" {
				ts, _ := strconv.ParseUint(strings.SplitN(ln, "|", 2)[0], 10, 64)
				fmt.Fprintf(&b, " +%d@%d", int64(ts/1000)-int64(t0/1000), off)
			}
			off += len(ln) + 1
		}
		ix, _ := os.ReadFile(formMetricIdxFileName(f))
		b.WriteString("  index:")
		for i := 0; i+16 <= len(ix); i += 16 {
			var sec, o uint64
			for k := 0; k < 8; k++ {
				sec = sec<<8 | uint64(ix[i+k])
				o = o<<8 | uint64(ix[i+8+k])
			}
			fmt.Fprintf(&b, " (+%d -> %d)", int64(sec)-int64(t0/1000), o)
		}
	}
	return b.String()
}

func first(l []string) []string {
	if len(l) > 2 {
		return l[:2]
	}
	return l
}
