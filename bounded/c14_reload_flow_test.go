package flow

// Bounded stand-in (C14, flow rules). The controller builder (buildResourceTrafficShapingController: in-place edits
// of the candidate list, user-registered generator functions) is only partly under contract; what a reload does to
// the runtime state of unchanged rules is checked here on the real loaders, against the property itself:
//
//   kept-state        for every rule of the new list that is field-for-field identical to a rule of the old list
//                     (matched with multiplicity), the breaker enforcing it after the reload is the SAME object
//                     that enforced it before — so an open breaker stays open with its deadline — whatever else was
//                     added, removed, modified, duplicated or reordered in the same load
//   in-order          the new table has one breaker per rule, bound to that rule, in list order
//   stats-not-shared  no statistic is handed to two breakers, and the statistic of a kept breaker is not handed to another
//   stats-reused      (lists without duplicates) a modified rule with unchanged statistic parameters gets the
//                     statistic of an old breaker of its class when one is left after the kept ones
//
// "breaker" below reads "traffic shaping controller" (throttling queue position, warm-up tokens live in that object).
// Statistic identity is only observable for standalone statistics (StatIntervalInMs above the global interval).
//
// Bounded: EVERY old list of length <= 2 and new list of length <= N over a pool of 6 rules (three statistic
// classes, reject / throttling / warm-up), through LoadRulesOfResource and through LoadRules.

import (
	"fmt"
	"os"
	"strconv"
	"testing"

	"github.com/alibaba/sentinel-golang/logging"
)

func c14CbPool() []Rule {
	return []Rule{
		{Resource: "c14", TokenCalculateStrategy: Direct, ControlBehavior: Reject, Threshold: 10, StatIntervalInMs: 20000},
		{Resource: "c14", TokenCalculateStrategy: Direct, ControlBehavior: Reject, Threshold: 20, StatIntervalInMs: 20000},
		{Resource: "c14", TokenCalculateStrategy: Direct, ControlBehavior: Throttling, Threshold: 10, MaxQueueingTimeMs: 500, StatIntervalInMs: 1000},
		{Resource: "c14", TokenCalculateStrategy: Direct, ControlBehavior: Reject, Threshold: 10, StatIntervalInMs: 1000},
		{Resource: "c14", TokenCalculateStrategy: WarmUp, ControlBehavior: Reject, Threshold: 100, WarmUpPeriodSec: 10, StatIntervalInMs: 20000},
		{Resource: "c14", TokenCalculateStrategy: Direct, ControlBehavior: Reject, Threshold: 10, StatIntervalInMs: 30000},
	}
}

// statistic class; "" when the rule keeps no statistic of its own that could be told apart (none, or the resource's)
func c14CbStatClass(r *Rule) string {
	if !r.needStatistic() || r.StatIntervalInMs <= 10000 {
		return ""
	}
	return fmt.Sprintf("%d", r.StatIntervalInMs)
}

type c14Tc struct{ tc *TrafficShapingController }

func (c c14Tc) BoundRule() *Rule { return c.tc.rule }
func (c c14Tc) BoundStat() interface{} {
	if c.tc.boundStat.writeOnlyMetric == nil || !c.tc.rule.needStatistic() {
		return nil // the resource's own statistic, or the shared no-op statistic
	}
	return c.tc.boundStat.writeOnlyMetric
}

func getBreakersOfResource(res string) []c14Tc {
	var out []c14Tc
	for _, tc := range getTrafficControllerListFor(res) {
		out = append(out, c14Tc{tc})
	}
	return out
}

func TestVerifBounded(t *testing.T) {
	n := 3
	if v, err := strconv.Atoi(os.Getenv("VERIF_BOUND")); err == nil && v > 0 {
		n = v
	}
	logging.ResetGlobalLoggerLevel(logging.ErrorLevel)
	pool := c14CbPool()
	cases, bad := 0, 0
	seen := map[string]int{}
	fail := func(check, format string, args ...interface{}) {
		bad++
		seen[check]++
		if seen[check] <= 3 {
			fmt.Printf("BOUNDED-FAIL check=%s "+format+"\n", append([]interface{}{check}, args...)...)
		}
	}
	var lists [][]int
	var gen func(cur []int, max int)
	gen = func(cur []int, max int) {
		lists = append(lists, append([]int(nil), cur...))
		if len(cur) == max {
			return
		}
		for i := range pool {
			gen(append(cur, i), max)
		}
	}
	gen(nil, n)
	mk := func(idx []int) []*Rule {
		out := make([]*Rule, 0, len(idx))
		for _, i := range idx {
			r := pool[i] // a fresh object each time: "field-for-field identical", not the same pointer
			out = append(out, &r)
		}
		return out
	}
	for _, whole := range []bool{false, true} {
		load := func(rs []*Rule) {
			if whole {
				LoadRules(rs)
			} else if len(rs) == 0 {
				ClearRulesOfResource("c14")
			} else {
				LoadRulesOfResource("c14", rs)
			}
		}
		for _, oldIdx := range lists {
			if len(oldIdx) > 2 {
				continue
			}
			for _, newIdx := range lists {
				cases++
				ClearRules()
				load(mk(oldIdx))
				oldCbs := getBreakersOfResource("c14")
				if len(oldCbs) != len(oldIdx) {
					fail("harness", "old list %v: %d breakers", oldIdx, len(oldCbs))
					continue
				}
				load(mk(newIdx))
				newCbs := getBreakersOfResource("c14")
				if len(newCbs) != len(newIdx) {
					fail("in-order", "old %v new %v whole=%v: %d breakers for %d rules", oldIdx, newIdx, whole, len(newCbs), len(newIdx))
					continue
				}
				for i, cb := range newCbs {
					want := pool[newIdx[i]]
					if !cb.BoundRule().isEqualsTo(&want) {
						fail("in-order", "old %v new %v whole=%v: breaker %d is bound to %v", oldIdx, newIdx, whole, i, cb.BoundRule())
					}
				}
				// kept-state: the k-th occurrence of pool rule p in the new list keeps one of the old breakers of p,
				// as long as there are old breakers of p left
				usedOld := map[int]bool{}
				keptNew := map[int]bool{}
				for p := range pool {
					var oldOf, newOf []int
					for j, q := range oldIdx {
						if q == p {
							oldOf = append(oldOf, j)
						}
					}
					for i, q := range newIdx {
						if q == p {
							newOf = append(newOf, i)
						}
					}
					want := len(oldOf)
					if len(newOf) < want {
						want = len(newOf)
					}
					got := 0
					for _, i := range newOf {
						for _, j := range oldOf {
							if !usedOld[j] && newCbs[i] == oldCbs[j] {
								usedOld[j], keptNew[i] = true, true
								got++
								break
							}
						}
					}
					if got != want {
						fail("kept-state", "old %v new %v whole=%v: rule #%d is in both lists (%d old, %d new) but only %d of its breakers were kept: the others lost their state (an open breaker closes)", oldIdx, newIdx, whole, p, len(oldOf), len(newOf), got)
					}
				}
				// statistics
				statOwner := map[interface{}]int{}
				for i, cb := range newCbs {
					st := cb.BoundStat()
					if st == nil {
						continue
					}
					if k, dup := statOwner[st]; dup {
						fail("stats-not-shared", "old %v new %v whole=%v: breakers %d and %d share one statistic", oldIdx, newIdx, whole, k, i)
					}
					statOwner[st] = i
					if !keptNew[i] {
						for j, ocb := range oldCbs {
							if usedOld[j] && ocb.BoundStat() == st {
								fail("stats-not-shared", "old %v new %v whole=%v: new breaker %d got the statistic of the kept breaker (old position %d)", oldIdx, newIdx, whole, i, j)
							}
						}
					}
				}
				dupFree := func(l []int) bool {
					m := map[int]bool{}
					for _, q := range l {
						if m[q] {
							return false
						}
						m[q] = true
					}
					return true
				}
				if dupFree(oldIdx) && dupFree(newIdx) {
					classes := map[string]bool{}
					for _, q := range newIdx {
						r := pool[q]
						if c14CbStatClass(&r) == "" {
							continue
						}
						classes[c14CbStatClass(&r)] = true
					}
					for cl := range classes {
						avail, need, reused := 0, 0, 0
						for j, q := range oldIdx {
							r := pool[q]
							if c14CbStatClass(&r) == cl && !usedOld[j] {
								avail++
							}
						}
						for i, q := range newIdx {
							r := pool[q]
							if c14CbStatClass(&r) != cl || keptNew[i] {
								continue
							}
							need++
							for j, ocb := range oldCbs {
								if !usedOld[j] && ocb.BoundStat() == newCbs[i].BoundStat() {
									reused++
								}
							}
						}
						want := need
						if avail < want {
							want = avail
						}
						if reused != want {
							fail("stats-reused", "old %v new %v whole=%v class %s: %d modified rules, %d old statistics left, %d reused", oldIdx, newIdx, whole, cl, need, avail, reused)
						}
					}
				}
			}
		}
	}
	ClearRules()
	res := "ok"
	if bad > 0 {
		res = "fail"
	}
	fmt.Printf("BOUNDED cases=%d failures=%d result=%s\n", cases, bad, res)
}
