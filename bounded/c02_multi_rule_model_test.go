package api

// Bounded stand-in (C02). The reject checker, the window selection and the statistic wiring of ONE rule are under
// contract; that several rules on one resource — each with its own window geometry, some on a view of the resource's
// global array, some on a standalone array — are decided independently of one another and all see every admitted token
// exactly once is checked here on the real public API (api.Entry with the default slot chain, flow.LoadRules) against a
// model that is the property itself:
//
//   admit-iff-every-rule-has-room
//        a request of batch b is admitted iff for EVERY Direct/Reject rule of the resource
//        (tokens admitted in the rule's bucket-aligned window ending at the current bucket) + b <= threshold,
//        where the window of a rule with interval I has buckets of 500 ms when I is a multiple of 500 ms up to 10 s
//        (a view of the resource's global array when I divides 10 s, a standalone array otherwise) or the default
//        1000 ms, and one bucket of I ms otherwise (standalone array); admitted tokens are counted once per rule, whatever the other rules of the resource are
//
// Bounded: VERIF_BOUND x 60 seeded random histories of 60 requests (batch 1..3, clock steps 0..700 ms with occasional
// idle gaps) on a resource with 1..3 rules (intervals 0 / 1000 / 2000 / 3000 / 700 / 300 / 20000 ms, thresholds 1..8).

import (
	"fmt"
	"math/rand"
	"os"
	"strconv"
	"testing"
	"time"

	"github.com/alibaba/sentinel-golang/core/base"
	"github.com/alibaba/sentinel-golang/core/flow"
	"github.com/alibaba/sentinel-golang/logging"
	"github.com/alibaba/sentinel-golang/util"
)

type c02Clock struct{ ms uint64 }

func (c *c02Clock) Now() time.Time            { return time.Unix(0, int64(c.ms)*1000000) }
func (c *c02Clock) Sleep(d time.Duration)     {}
func (c *c02Clock) CurrentTimeMillis() uint64 { return c.ms }
func (c *c02Clock) CurrentTimeNano() uint64   { return c.ms * 1000000 }

type c02Event struct {
	at    uint64
	batch uint32
}

func TestVerifBounded(t *testing.T) {
	n := 2
	if v, err := strconv.Atoi(os.Getenv("VERIF_BOUND")); err == nil && v > 0 {
		n = v
	}
	logging.ResetGlobalLoggerLevel(logging.ErrorLevel + 1)
	clock := &c02Clock{ms: 1700000000000}
	util.SetClock(clock)
	if err := InitDefault(); err != nil {
		fmt.Println("BOUNDED-FAIL check=harness init:", err)
		fmt.Println("BOUNDED cases=0 failures=1 result=fail")
		return
	}
	cases, bad := 0, 0
	seen := map[string]int{}
	fail := func(check, format string, args ...interface{}) {
		bad++
		seen[check]++
		if seen[check] <= 3 {
			fmt.Printf("BOUNDED-FAIL check=%s %s\n", check, fmt.Sprintf(format, args...))
		}
	}
	intervals := []uint32{0, 1000, 2000, 3000, 700, 300, 20000}
	// bucket length and window span of a rule's statistic
	geom := func(I uint32) (L, span uint64) {
		switch {
		case I == 0 || I == 1000:
			return 500, 1000
		case I%500 == 0 && I <= 10000:
			return 500, uint64(I) // 500 ms buckets: a view of the global array when I divides 10 s, a standalone array otherwise
		default:
			return uint64(I), uint64(I)
		}
	}
	for c := 0; c < n*60; c++ {
		cases++
		rng := rand.New(rand.NewSource(int64(2000 + c)))
		res := fmt.Sprintf("c02-res-%d", c) // a new resource per case: its node starts empty
		clock.ms += 60000                   // and every earlier standalone window is long gone
		var rules []*flow.Rule
		for k := 1 + rng.Intn(3); k > 0; k-- {
			rules = append(rules, &flow.Rule{Resource: res, TokenCalculateStrategy: flow.Direct, ControlBehavior: flow.Reject,
				Threshold: float64(1 + rng.Intn(8)), StatIntervalInMs: intervals[rng.Intn(len(intervals))]})
		}
		if _, err := flow.LoadRulesOfResource(res, rules); err != nil {
			fail("harness", "case %d: LoadRulesOfResource: %v", c, err)
			continue
		}
		desc := ""
		for _, r := range rules {
			desc += fmt.Sprintf(" {%v per %dms}", r.Threshold, r.StatIntervalInMs)
		}
		var admitted []c02Event
		trace := ""
		for step := 0; step < 60; step++ {
			switch rng.Intn(10) {
			case 0:
				clock.ms += uint64(1000 + rng.Intn(25000))
			default:
				clock.ms += uint64(rng.Intn(700))
			}
			now := clock.ms
			b := uint32(1 + rng.Intn(3))
			want := true
			why := ""
			for _, r := range rules {
				L, span := geom(r.StatIntervalInMs)
				end := now - now%L
				start := uint64(0)
				if end+L >= span {
					start = end + L - span
				}
				sum := uint32(0)
				for _, e := range admitted {
					if s := e.at - e.at%L; s >= start && s <= end {
						sum += e.batch
					}
				}
				if float64(sum)+float64(b) > r.Threshold {
					want = false
					why += fmt.Sprintf(" [rule %v per %dms has %d in its window]", r.Threshold, r.StatIntervalInMs, sum)
				}
			}
			e, blk := Entry(res, WithBatchCount(b), WithTrafficType(base.Inbound))
			trace += fmt.Sprintf(" @%d:%d%s", now%100000, b, map[bool]string{true: "+", false: "-"}[blk == nil])
			if (blk == nil) != want {
				fail("admit-iff-every-rule-has-room", "case %d rules%s: request of %d at %d admitted=%v, want %v%s\n  %s", c, desc, b, now%100000, blk == nil, want, why, trace)
				if e != nil {
					e.Exit()
				}
				break
			}
			if e != nil {
				admitted = append(admitted, c02Event{at: now, batch: b})
				e.Exit()
			}
		}
		_, _ = flow.LoadRulesOfResource(res, nil)
	}
	res := "ok"
	if bad > 0 {
		res = "fail"
	}
	fmt.Printf("BOUNDED cases=%d failures=%d result=%s\n", cases, bad, res)
}
