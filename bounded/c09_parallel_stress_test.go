package base

// Bounded stand-in (C09, "randomized large-scale parallel stress"). The thread-modular obligations bound what each
// recorder may write; what whole schedules add up to is sampled here on the real BucketLeapArray with explicit
// (virtual) timestamps:
//
//   exact     rounds in which one goroutine performs the rollover alone and then G goroutines record concurrently
//             inside the bucket (no recorder overlaps the rollover of its own bucket): the window sum read afterwards
//             must equal the recorded totals of the buckets inside the window, exactly (pass counts, and response
//             times recorded in descending order so that every call also lowers the bucket's minimum)
//   bounded   rounds in which all goroutines race across the bucket boundary (rollover included): the window sum
//             must never exceed what was recorded with timestamps inside the window, no amount may show up in a
//             bucket other than the one its timestamp selects, and every call returns
//
//   slots     16 goroutines, each recording only into its own slot of a 16-slot array and jumping a whole cycle ahead
//             every time, so that every call rolls over a DIFFERENT slot while the others do the same: the single
//             update lock is contended by rollovers of unrelated slots; every call must return (a recorder that
//             waits for "its" slot to be refreshed by whoever holds the lock waits for ever) and right after its
//             call each recorder finds exactly its own amount in its slot
//
// Bounded: VERIF_BOUND rounds x 8 goroutines x 2000 records (+ VERIF_BOUND x 50 rollovers x 16 goroutines);
// schedules are whatever the runtime produces.

import (
	"fmt"
	"os"
	"strconv"
	"sync"
	"testing"
	"time"

	"github.com/alibaba/sentinel-golang/core/base"
	"github.com/alibaba/sentinel-golang/util"
)

func TestVerifBounded(t *testing.T) {
	rounds := 40
	if v, err := strconv.Atoi(os.Getenv("VERIF_BOUND")); err == nil && v > 0 {
		rounds = v
	}
	const G, N, L = 8, 2000, uint64(500)
	cases, bad := 0, 0
	fail := func(format string, args ...interface{}) {
		bad++
		if bad <= 8 {
			fmt.Printf("BOUNDED-FAIL "+format+"\n", args...)
		}
	}
	done := make(chan struct{})
	go func() { // every recorder and reader terminates: a wedged round fails the run instead of hanging it
		select {
		case <-done:
		case <-time.After(120 * time.Second):
			fmt.Println("BOUNDED-FAIL check=termination: the stress run did not finish within 120 s")
			fmt.Printf("BOUNDED cases=%d failures=%d result=fail\n", cases, bad+1)
			os.Exit(1)
		}
	}()
	for _, mode := range []string{"exact", "bounded"} {
		bla := NewBucketLeapArray(2, 1000)
		t0 := (util.CurrentTimeMillis()/1000 + 2) * 1000
		recorded := map[uint64]int64{} // bucket start -> amount recorded with a timestamp inside that bucket
		recordedRt := map[uint64]int64{} // bucket start -> response time recorded (descending values: every call lowers the minimum)
		for r := 0; r < rounds; r++ {
			cases++
			start := t0 + uint64(r)*L
			if mode == "exact" {
				// the rollover happens alone
				if _, err := bla.data.currentBucketOfTime(start, bla); err != nil {
					fail("check=exact mode round=%d: rollover failed: %v", r, err)
					continue
				}
			}
			var wg sync.WaitGroup
			var mu sync.Mutex
			for g := 0; g < G; g++ {
				wg.Add(1)
				go func(g int) {
					defer wg.Done()
					local := map[uint64]int64{}
					localRt := map[uint64]int64{}
					for i := 0; i < N; i++ {
						ts := start + uint64((g*31+i*7)%int(L)) // somewhere inside this round's bucket
						if mode == "bounded" && i%3 == 0 {
							ts += L // every third record already belongs to the next bucket: recorders race across the boundary
						}
						amount := int64(1 + (g+i)%3)
						bla.addCountWithTime(ts, base.MetricEventPass, amount)
						local[ts-ts%L] += amount
						if i%4 == 0 {
							rt := int64(4*N - 4*i + g) // descending: each response time is a new minimum for its recorder
							bla.addCountWithTime(ts, base.MetricEventRt, rt)
							localRt[ts-ts%L] += rt
						}
					}
					mu.Lock()
					for k, v := range local {
						recorded[k] += v
					}
					for k, v := range localRt {
						recordedRt[k] += v
					}
					mu.Unlock()
				}(g)
			}
			wg.Wait()
			// per-bucket view at the end of the round: every bucket still retained holds at most (exactly, in the
			// exact mode) what was recorded with timestamps of that bucket
			now := start + L - 1
			if mode == "bounded" {
				now = start + 2*L - 1
			}
			for _, bw := range bla.data.valuesWithTime(now) {
				mb := bw.Value.Load().(*MetricBucket)
				got, want := mb.Get(base.MetricEventPass), recorded[bw.BucketStart]
				if got > want {
					fail("check=%s-never-more-than-recorded round=%d: bucket %d reports %d, only %d was recorded with its timestamps", mode, r, bw.BucketStart-t0, got, want)
				}
				if mode == "exact" && got != want {
					fail("check=exact-sums round=%d: bucket %d reports %d, recorded %d, and no recorder overlapped its rollover", r, bw.BucketStart-t0, got, want)
				}
				gotRt, wantRt := mb.Get(base.MetricEventRt), recordedRt[bw.BucketStart]
				if gotRt > wantRt {
					fail("check=%s-never-more-than-recorded round=%d: bucket %d reports a response-time total of %d, only %d was recorded with its timestamps", mode, r, bw.BucketStart-t0, gotRt, wantRt)
				}
				if mode == "exact" && gotRt != wantRt {
					fail("check=exact-sums round=%d: bucket %d reports a response-time total of %d, recorded %d, and no recorder overlapped its rollover", r, bw.BucketStart-t0, gotRt, wantRt)
				}
			}
			if mode == "exact" {
				sum := int64(0)
				for _, bw := range bla.data.valuesWithTime(now) {
					sum += recorded[bw.BucketStart]
				}
				if got := bla.CountWithTime(now, base.MetricEventPass); got != sum {
					fail("check=exact-window-sum round=%d: window reports %d, recorded %d", r, got, sum)
				}
			}
		}
	}
	// ---- slots: concurrent rollovers of different slots
	{
		const S = 16
		bla := NewBucketLeapArray(S, uint32(S)*uint32(L))
		t0 := (util.CurrentTimeMillis()/1000 + 2) * 1000
		t0 -= t0 % (S * L)
		var wg sync.WaitGroup
		var stuck int64
		finished := make(chan struct{})
		var mu sync.Mutex
		for g := 0; g < S; g++ {
			wg.Add(1)
			go func(g int) {
				defer wg.Done()
				for i := 0; i < rounds*50; i++ {
					ts := t0 + uint64(i)*S*L + uint64(g)*L + uint64(i%int(L))
					bla.addCountWithTime(ts, base.MetricEventPass, int64(g+1))
					w, err := bla.data.currentBucketOfTime(ts, bla)
					if err != nil || w == nil {
						continue
					}
					if got := w.Value.Load().(*MetricBucket).Get(base.MetricEventPass); w.BucketStart == ts-ts%L && got != int64(g+1) {
						mu.Lock()
						fail("check=slots-own-amount goroutine=%d rollover=%d: the slot holds %d right after recording %d into a freshly rolled bucket nobody else writes", g, i, got, g+1)
						mu.Unlock()
					}
				}
			}(g)
		}
		go func() { wg.Wait(); close(finished) }()
		cases++
		select {
		case <-finished:
		case <-time.After(30 * time.Second):
			stuck = 1
			fmt.Println("BOUNDED-FAIL check=slots-termination: recorders rolling over different slots of one array did not all return within 30 s")
			fmt.Printf("BOUNDED cases=%d failures=%d result=fail\n", cases, bad+1)
			os.Exit(1)
		}
		_ = stuck
	}
	close(done)
	res := "ok"
	if bad > 0 {
		res = "fail"
	}
	fmt.Printf("BOUNDED cases=%d failures=%d result=%s\n", cases, bad, res)
}
