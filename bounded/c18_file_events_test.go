package file

// Bounded stand-in (C18, file datasource). The watcher goroutine (select over fsnotify channels) is outside the
// verified subset, so "a file datasource converges to the file's current content after each write and clears the
// rules when the file is removed" is checked on the real RefreshableFileDataSource with the real flow rule manager:
// every sequence of at most N events over {write A, write B, truncate to empty, write malformed JSON}, followed by a
// rename-away or a remove. After each event the rules in force must converge (within 5 s) to the model
// "valid rules of the last decodable content" (a malformed write keeps the previous rules; empty clears). After a
// rename-away (short histories only, it costs a second each) a new file is created at the path: its content must be
// picked up without a further write.
// Bounded (N = VERIF_BOUND), not a proof; convergence is observed by polling.

import (
	"encoding/json"
	"fmt"
	"os"
	"path/filepath"
	"sort"
	"strconv"
	"testing"
	"time"

	"github.com/alibaba/sentinel-golang/core/flow"
	"github.com/alibaba/sentinel-golang/ext/datasource"
)

func c18InForce() []string {
	var out []string
	for _, r := range flow.GetRules() {
		out = append(out, fmt.Sprintf("%s/%s/%v", r.ID, r.Resource, r.Threshold))
	}
	sort.Strings(out)
	return out
}

func c18Same(a, b []string) bool {
	if len(a) != len(b) {
		return false
	}
	for i := range a {
		if a[i] != b[i] {
			return false
		}
	}
	return true
}

func c18Await(want []string) bool {
	deadline := time.Now().Add(5 * time.Second)
	for time.Now().Before(deadline) {
		if c18Same(c18InForce(), want) {
			// stay converged for a moment: a late stale event must not undo it
			time.Sleep(15 * time.Millisecond)
			if c18Same(c18InForce(), want) {
				return true
			}
		}
		time.Sleep(2 * time.Millisecond)
	}
	return false
}

func TestVerifBounded(t *testing.T) {
	n := 2
	if v, err := strconv.Atoi(os.Getenv("VERIF_BOUND")); err == nil && v > 0 {
		n = v
	}
	ruleA := []*flow.Rule{{ID: "a1", Resource: "c18-file-1", Threshold: 10, StatIntervalInMs: 1000}, {ID: "a2", Resource: "c18-file-2", Threshold: 20, StatIntervalInMs: 1000}}
	ruleB := []*flow.Rule{{ID: "b1", Resource: "c18-file-1", Threshold: 5, StatIntervalInMs: 1000}}
	pa, _ := json.Marshal(ruleA)
	pb, _ := json.Marshal(ruleB)
	wantA := []string{"a1/c18-file-1/10", "a2/c18-file-2/20"}
	wantB := []string{"b1/c18-file-1/5"}
	type op struct {
		name    string
		content []byte
		model   func(prev []string) []string
	}
	ops := []op{
		{"writeA", pa, func([]string) []string { return wantA }},
		{"writeB", pb, func([]string) []string { return wantB }},
		{"truncate", []byte{}, func([]string) []string { return nil }},
		{"malformed", []byte(`[{"resource": "c18-file-1", "threshold": ]]`), func(p []string) []string { return p }},
	}
	base := os.Getenv("TMPDIR")
	if base == "" {
		base = "/var/tmp"
	}
	dir, err := os.MkdirTemp(base, "c18file")
	if err != nil {
		t.Fatal(err)
	}
	defer os.RemoveAll(dir)
	cases, bad := 0, 0
	fail := func(format string, args ...interface{}) {
		bad++
		if bad <= 8 {
			fmt.Printf("BOUNDED-FAIL "+format+"\n", args...)
		}
	}
	run := func(seq []int, end string) {
		cases++
		flow.ClearRules()
		path := filepath.Join(dir, fmt.Sprintf("rules-%d.json", cases))
		if err := os.WriteFile(path, pa, 0o644); err != nil {
			t.Fatal(err)
		}
		ds := NewFileDataSource(path, datasource.NewFlowRulesHandler(datasource.FlowRuleJsonArrayParser))
		if err := ds.Initialize(); err != nil {
			fail("check=file-initialize: %v", err)
			return
		}
		// Close is issued asynchronously: on the pinned tree it can block for ever once the watcher goroutine has
		// left its select loop (after a remove, or while it retries after a rename) — a leak outside this property
		defer func() { go ds.Close() }()
		model := wantA
		trace := "init(A) "
		if !c18Await(model) {
			fail("check=file-initial-content history=%s: in force %v, expected %v", trace, c18InForce(), model)
			return
		}
		for _, i := range seq {
			o := ops[i]
			trace += o.name + " "
			if o.name == "malformed" {
				// corrupt in place with one write and no truncation: os.WriteFile truncates first, and the datasource
				// would rightly apply the momentarily empty file (clearing the rules) before seeing the bad content
				f, err := os.OpenFile(path, os.O_WRONLY, 0)
				if err != nil {
					t.Fatal(err)
				}
				f.WriteAt(o.content, 0)
				f.Close()
			} else if err := os.WriteFile(path, o.content, 0o644); err != nil {
				t.Fatal(err)
			}
			model = o.model(model)
			if !c18Await(model) {
				fail("check=file-converges-after-write history=%s: in force %v, expected %v", trace, c18InForce(), model)
				return
			}
		}
		trace += end
		switch end {
		case "remove":
			os.Remove(path)
		case "rename-away":
			os.Rename(path, path+".gone")
			defer os.Remove(path + ".gone")
		}
		if !c18Await(nil) {
			fail("check=file-%s-clears history=%s: in force %v, expected none", end, trace, c18InForce())
			return
		}
		if end == "rename-away" && len(seq) <= 1 {
			// a new file appears at the watched path (log rotation, atomic replace): the datasource re-attaches its
			// watcher (it retries once a second) and must converge to the new file's content without a further write
			trace += " recreate(B)"
			if err := os.WriteFile(path, pb, 0o644); err != nil {
				t.Fatal(err)
			}
			if !c18Await(wantB) {
				fail("check=file-converges-after-recreation history=%s: in force %v, expected %v", trace, c18InForce(), wantB)
				return
			}
			os.Remove(path)
			if !c18Await(nil) {
				fail("check=file-remove-clears history=%s remove: in force %v, expected none", trace, c18InForce())
			}
		}
	}
	var rec func(seq []int)
	rec = func(seq []int) {
		end := "remove"
		if len(seq)%2 == 1 {
			end = "rename-away"
		}
		run(seq, end)
		if len(seq) == n {
			return
		}
		for i := range ops {
			rec(append(append([]int(nil), seq...), i))
		}
	}
	rec(nil)
	flow.ClearRules()
	res := "ok"
	if bad > 0 {
		res = "fail"
	}
	fmt.Printf("BOUNDED cases=%d failures=%d result=%s\n", cases, bad, res)
}
