package cache

// Bounded stand-in (C05/C06): the assumed contract of the parameter cache — "a map from argument value to a stable
// counter cell; AddIfAbsent returns the existing cell or nil after binding the new one; Get finds exactly the bound
// cells; other keys are untouched" — is checked on the real LruCacheMap for every operation sequence of length <= N
// over 4 keys with capacity 4 (never exceeded, which is the contract's domain). Bounded, not a proof.

import (
	"fmt"
	"os"
	"strconv"
	"testing"
)

func TestVerifBounded(t *testing.T) {
	n := 5
	if v, err := strconv.Atoi(os.Getenv("VERIF_BOUND")); err == nil && v > 0 {
		n = v
	}
	keys := []interface{}{"a", 7, true, 2.5}
	cases, bad := 0, 0
	var rec func(ops []int)
	run := func(ops []int) {
		cases++
		c := NewLRUCacheMap(4)
		model := map[interface{}]*int64{}
		ok := true
		for _, op := range ops {
			k := keys[op%4]
			switch op / 4 {
			case 0: // AddIfAbsent
				cell := new(int64)
				prior := c.AddIfAbsent(k, cell)
				if old, has := model[k]; has {
					if prior != old {
						ok = false
					}
				} else {
					if prior != nil {
						ok = false
					}
					model[k] = cell
				}
			case 1: // Get
				v, found := c.Get(k)
				old, has := model[k]
				if found != has || (has && v != old) {
					ok = false
				}
			}
			for kk, cell := range model { // every bound cell stays bound to the same pointer
				if v, found := c.Get(kk); !found || v != cell {
					ok = false
				}
			}
			if c.Len() != len(model) {
				ok = false
			}
		}
		if !ok {
			bad++
			if bad == 1 {
				fmt.Printf("BOUNDED-COUNTEREXAMPLE ops %v\n", ops)
			}
		}
	}
	rec = func(ops []int) {
		run(ops)
		if len(ops) == n {
			return
		}
		for op := 0; op < 8; op++ {
			rec(append(append([]int{}, ops...), op))
		}
	}
	rec(nil)
	res := "ok"
	if bad > 0 {
		res = "FAIL"
	}
	fmt.Printf("BOUNDED name=c05_lru_conformance bound=%d cases=%d result=%s\n", n, cases, res)
}
