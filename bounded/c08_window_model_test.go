package base

// Bounded stand-in (C08). The kernels of the window code are under contract (slot / start arithmetic, placement and
// refresh, selection of the live buckets of a window, sums and rates); the readers built on top of them — MinRT, AvgRT,
// GetMaxOfSingleBucket, GetPreviousQPS, SecondMetricsOnCondition / metricItemFromBuckets — and the composition over a
// whole history are checked here on the real BucketLeapArray / SlidingWindowMetric against a reference model of the
// property itself: a recorded amount belongs to the bucket its timestamp selects; a bucket's data is visible exactly
// while that bucket is inside the bucket-aligned window of the reader and not older than the array retains; nothing
// older is ever counted; a write for a bucket older than what its slot already holds is refused (accepted into the
// newer bucket only by a one-bucket array).
//
//   window-sum        view.getSumWithTime(now, e)           == model sum over the view's aligned window
//   window-rate       view.getQPSWithTime(now, e)           == sum / (interval in seconds)
//   previous-rate     GetPreviousQPS(e) under a mock clock  == rate of the window one view-bucket earlier
//   max-bucket        GetMaxOfSingleBucket(e)               == largest single-bucket count in the window
//   min-rt            MinRT()                               == smallest recorded rt in the window (>= 1, default when none)
//   peak-concurrency  MaxConcurrency()                      == largest concurrency recorded in a bucket of the window
//   avg-rt            AvgRT()                               == rt sum / complete count (only checked when complete > 0)
//   per-second-items  SecondMetricsOnCondition(all)         == for every second: the sums of the retained buckets of
//                                                              that second (pass, block, complete, error, avg rt, peak concurrency),
//                                                              one item per second that has a live bucket, timestamps
//                                                              second-aligned
//   array-count       BucketLeapArray.CountWithTime(now, e) == model sum over the array's own span
//
// Bounded: VERIF_BOUND x 60 seeded random histories of 40 steps (idle gaps longer than the array, reads exactly on bucket
// and cycle boundaries, late recorders, a quarter of the histories starting near time zero) over 6 array geometries and
// every view that tiles them.

import (
	"fmt"
	"math/rand"
	"os"
	"sort"
	"strconv"
	"testing"
	"time"

	"github.com/alibaba/sentinel-golang/core/base"
	"github.com/alibaba/sentinel-golang/util"
)

// a clock that is set, not advanced (util.MockClock only moves by Sleep)
type c08Clock struct{ ms uint64 }

func (c *c08Clock) Now() time.Time            { return time.Unix(0, int64(c.ms)*1000000) }
func (c *c08Clock) Sleep(d time.Duration)     {}
func (c *c08Clock) CurrentTimeMillis() uint64 { return c.ms }
func (c *c08Clock) CurrentTimeNano() uint64   { return c.ms * 1000000 }

type c08Bucket struct {
	start uint64
	cnt   [base.MetricEventTotal]int64
	minRt int64
	maxCc int32
}

type c08Model struct {
	n    uint32 // sample count of the array
	span uint32 // interval of the array
	l    uint64 // bucket length
	slot map[uint64]*c08Bucket
}

func (m *c08Model) add(ts uint64, ev base.MetricEvent, v int64) {
	idx, start := (ts/m.l)%uint64(m.n), ts-ts%m.l
	b := m.slot[idx]
	switch {
	case b == nil || b.start < start:
		b = &c08Bucket{start: start, minRt: base.DefaultStatisticMaxRt}
		m.slot[idx] = b
	case b.start > start && m.n != 1:
		return // refused: the slot already holds a newer bucket
	}
	b.cnt[ev] += v
	if ev == base.MetricEventRt && v < b.minRt {
		b.minRt = v
	}
}

func (m *c08Model) concurrency(ts uint64, cc int32) {
	m.add(ts, base.MetricEventPass, 0) // same placement / refusal rule
	idx, start := (ts/m.l)%uint64(m.n), ts-ts%m.l
	if b := m.slot[idx]; (b.start == start || m.n == 1) && cc > b.maxCc {
		b.maxCc = cc
	}
}

// a read that first refreshes the current slot (CountWithTime, Values): an older bucket there makes room for the empty
// bucket of `now`
func (m *c08Model) touch(now uint64) {
	idx, start := (now/m.l)%uint64(m.n), now-now%m.l
	if b := m.slot[idx]; b == nil || b.start < start {
		m.slot[idx] = &c08Bucket{start: start, minRt: base.DefaultStatisticMaxRt}
	}
}

// live buckets of the array at time now
func (m *c08Model) live(now uint64) []*c08Bucket {
	var out []*c08Bucket
	for _, b := range m.slot {
		if b.start > now || now-b.start > uint64(m.span) {
			continue
		}
		out = append(out, b)
	}
	sort.Slice(out, func(i, j int) bool { return out[i].start < out[j].start })
	return out
}

// buckets inside the aligned window of a view of the given interval at time now
func (m *c08Model) window(now uint64, interval uint32) []*c08Bucket {
	end := now - now%m.l
	start := uint64(0)
	if end+m.l >= uint64(interval) {
		start = end - uint64(interval) + m.l
	}
	var out []*c08Bucket
	for _, b := range m.live(now) {
		if b.start >= start && b.start <= end {
			out = append(out, b)
		}
	}
	return out
}

func TestVerifBounded(t *testing.T) {
	n := 2
	if v, err := strconv.Atoi(os.Getenv("VERIF_BOUND")); err == nil && v > 0 {
		n = v
	}
	clock := &c08Clock{}
	util.SetClock(clock)
	cases, bad := 0, 0
	seen := map[string]int{}
	fail := func(check, format string, args ...interface{}) {
		bad++
		seen[check]++
		if seen[check] <= 3 {
			fmt.Printf("BOUNDED-FAIL check=%s %s\n", check, fmt.Sprintf(format, args...))
		}
	}
	geoms := [][2]uint32{{1, 1000}, {2, 1000}, {5, 1000}, {4, 2000}, {10, 5000}, {20, 10000}}
	events := []base.MetricEvent{base.MetricEventPass, base.MetricEventBlock, base.MetricEventComplete, base.MetricEventError, base.MetricEventRt}
	for c := 0; c < n*60; c++ {
		cases++
		rng := rand.New(rand.NewSource(int64(8000 + c)))
		g := geoms[rng.Intn(len(geoms))]
		now := uint64(1700000000000) + uint64(rng.Intn(100000))
		if c%4 == 3 {
			now = uint64(1 + rng.Intn(3000)) // a history that starts near time zero
		}
		clock.ms = now // the array is created "now": its slots start out as the empty buckets of the cycle beginning now
		bla := NewBucketLeapArray(g[0], g[1])
		model := &c08Model{n: g[0], span: g[1], l: uint64(g[1] / g[0]), slot: map[uint64]*c08Bucket{}}
		for k, st := uint64(0), now-now%model.l; k < uint64(g[0]); k, st = k+1, st+model.l {
			model.slot[(st/model.l)%uint64(g[0])] = &c08Bucket{start: st, minRt: base.DefaultStatisticMaxRt}
		}
		// every view (s, I) that the constructor accepts over this array, up to the array's own geometry
		var views []*SlidingWindowMetric
		for _, I := range []uint32{200, 500, 1000, 2000, 2500, 5000, 10000} {
			for _, s := range []uint32{1, 2, 4, 5, 10, 20} {
				if v, err := NewSlidingWindowMetric(s, I, bla); err == nil {
					views = append(views, v)
				}
			}
		}
		if len(views) == 0 {
			fail("harness", "no view for geometry %v", g)
			continue
		}
		trace := fmt.Sprintf("array %dx%dms:", g[0], g[1]/g[0])
		for step := 0; step < 40; step++ {
			switch rng.Intn(8) {
			case 0:
				now += uint64(g[1]) + uint64(rng.Intn(int(g[1]))) // a whole span or more: everything expires
			case 1, 2:
				now += model.l + uint64(rng.Intn(int(2*model.l)))
			default:
				now += uint64(rng.Intn(int(model.l)))
			}
			switch rng.Intn(12) {
			case 0, 1:
				now += model.l - now%model.l // exactly on a bucket boundary
			case 2:
				now += uint64(g[1]) - now%uint64(g[1]) // exactly on a cycle boundary
			}
			for k := rng.Intn(4); k > 0; k-- {
				ts := now
				if rng.Intn(5) == 0 && ts > 3*model.l {
					ts -= uint64(rng.Intn(int(3 * model.l))) // a late recorder: same or an older bucket
				}
				if rng.Intn(5) == 0 {
					cc := int32(1 + rng.Intn(50))
					bla.updateConcurrencyWithTime(ts, cc)
					model.concurrency(ts, cc)
					trace += fmt.Sprintf(" cc%d@%d", cc, ts%100000)
					continue
				}
				ev := events[rng.Intn(len(events))]
				v := int64(1 + rng.Intn(9))
				if ev == base.MetricEventRt {
					v = int64(1 + rng.Intn(3000))
				}
				bla.addCountWithTime(ts, ev, v)
				model.add(ts, ev, v)
				trace += fmt.Sprintf(" +%d@%d(e%d)", v, ts%100000, ev)
			}
			clock.ms = now // the clock-based readers see the same `now`
			view := views[rng.Intn(len(views))]
			win := model.window(now, view.intervalInMs)
			for _, ev := range events {
				want := int64(0)
				maxOne := int64(0)
				for _, b := range win {
					want += b.cnt[ev]
					if b.cnt[ev] > maxOne {
						maxOne = b.cnt[ev]
					}
				}
				if got := view.getSumWithTime(now, ev); got != want {
					fail("window-sum", "case %d view %dx%dms event %d at %d: got %d, the buckets inside the aligned window hold %d\n  %s", c, view.sampleCount, view.intervalInMs, ev, now%100000, got, want, trace)
				}
				if got, w := view.getQPSWithTime(now, ev), float64(want)/(float64(view.intervalInMs)/1000.0); got != w {
					fail("window-rate", "case %d view %dx%dms event %d: got %v, want %v", c, view.sampleCount, view.intervalInMs, ev, got, w)
				}
				if got := view.GetSum(ev); got != want {
					fail("window-sum", "case %d view %dx%dms event %d: GetSum under the mock clock %d, want %d", c, view.sampleCount, view.intervalInMs, ev, got, want)
				}
				if got := view.GetMaxOfSingleBucket(ev); got != maxOne {
					fail("max-bucket", "case %d view %dx%dms event %d: got %d, want %d", c, view.sampleCount, view.intervalInMs, ev, got, maxOne)
				}
				prev := int64(0)
				for _, b := range model.window(now-uint64(view.bucketLengthInMs), view.intervalInMs) {
					prev += b.cnt[ev]
				}
				// (a previous window read at time 0 is left out: this code does not treat 0 as a time, recording at 0 is refused as well)
				if got, w := view.GetPreviousQPS(ev), float64(prev)/(float64(view.intervalInMs)/1000.0); got != w && now != uint64(view.bucketLengthInMs) {
					fail("previous-rate", "case %d view %dx%dms event %d at %d: got %v, want %v (window one view-bucket earlier)\n  %s", c, view.sampleCount, view.intervalInMs, ev, now%100000, got, w, trace)
				}
				got := bla.CountWithTime(now, ev)
				model.touch(now)
				arr := int64(0)
				for _, b := range model.live(now) {
					arr += b.cnt[ev]
				}
				if got != arr {
					fail("array-count", "case %d event %d at %d: CountWithTime %d, the live buckets hold %d\n  %s", c, ev, now%100000, got, arr, trace)
				}
			}
			minRt := base.DefaultStatisticMaxRt
			var rtSum, complete int64
			for _, b := range win {
				if b.minRt < minRt {
					minRt = b.minRt
				}
				rtSum += b.cnt[base.MetricEventRt]
				complete += b.cnt[base.MetricEventComplete]
			}
			if minRt < 1 {
				minRt = 1
			}
			maxCc := int32(0)
			for _, b := range win {
				if b.maxCc > maxCc {
					maxCc = b.maxCc
				}
			}
			if got := view.MaxConcurrency(); got != maxCc {
				fail("peak-concurrency", "case %d view %dx%dms at %d: got %d, want %d\n  %s", c, view.sampleCount, view.intervalInMs, now%100000, got, maxCc, trace)
			}
			if got := view.MinRT(); got != float64(minRt) {
				fail("min-rt", "case %d view %dx%dms: got %v, want %d", c, view.sampleCount, view.intervalInMs, got, minRt)
			}
			if complete > 0 {
				if got, w := view.AvgRT(), float64(rtSum)/float64(complete); got != w {
					fail("avg-rt", "case %d view %dx%dms: got %v, want %v", c, view.sampleCount, view.intervalInMs, got, w)
				}
			}
			// per-second items over the live buckets of the array
			type secAgg struct {
				pass, block, complete, errs, rt int64
				cc                          int32
			}
			wantSec := map[uint64]*secAgg{}
			for _, b := range model.live(now) {
				s := b.start - b.start%1000
				a := wantSec[s]
				if a == nil {
					a = &secAgg{}
					wantSec[s] = a
				}
				a.pass += b.cnt[base.MetricEventPass]
				a.block += b.cnt[base.MetricEventBlock]
				a.complete += b.cnt[base.MetricEventComplete]
				a.errs += b.cnt[base.MetricEventError]
				a.rt += b.cnt[base.MetricEventRt]
				if b.maxCc > a.cc {
					a.cc = b.maxCc
				}
			}
			items := view.SecondMetricsOnCondition(func(uint64) bool { return true })
			gotSec := map[uint64]bool{}
			for _, it := range items {
				if it.Timestamp%1000 != 0 || gotSec[it.Timestamp] {
					fail("per-second-items", "case %d view %dx%dms: item timestamp %d is not second-aligned or appears twice", c, view.sampleCount, view.intervalInMs, it.Timestamp)
					continue
				}
				gotSec[it.Timestamp] = true
				a := wantSec[it.Timestamp]
				if a == nil {
					fail("per-second-items", "case %d view %dx%dms: item for second %d, no live bucket belongs to it", c, view.sampleCount, view.intervalInMs, it.Timestamp%100000)
					continue
				}
				avg := uint64(a.rt)
				if a.complete > 0 {
					avg = uint64(a.rt / a.complete)
				}
				if int64(it.PassQps) != a.pass || int64(it.BlockQps) != a.block || int64(it.CompleteQps) != a.complete || int64(it.ErrorQps) != a.errs || it.AvgRt != avg || it.Concurrency != uint32(a.cc) {
					fail("per-second-items", "case %d view %dx%dms second %d: item pass/block/complete/error/avgRt/concurrency = %d/%d/%d/%d/%d/%d, the buckets of that second hold %d/%d/%d/%d/%d/%d\n  %s", c, view.sampleCount, view.intervalInMs, it.Timestamp%100000,
						it.PassQps, it.BlockQps, it.CompleteQps, it.ErrorQps, it.AvgRt, it.Concurrency, a.pass, a.block, a.complete, a.errs, avg, a.cc, trace)
				}
			}
			if len(gotSec) != len(wantSec) {
				fail("per-second-items", "case %d view %dx%dms: %d items, %d seconds have a live bucket", c, view.sampleCount, view.intervalInMs, len(gotSec), len(wantSec))
			}
		}
	}
	res := "ok"
	if bad > 0 {
		res = "fail"
	}
	fmt.Printf("BOUNDED cases=%d failures=%d result=%s\n", cases, bad, res)
}
