package api

// Bounded stand-in (C15), run under the race detector (`go test -race`): mixed traffic, rule churn and readers across
// all modules. The lock-discipline obligations cover the rule tables and the node registry; whether the rest of the
// public API is race free under real schedules, and whether a request racing with a rule switch is decided by the old
// or by the new rule list of its resource, is sampled here:
//
//   race-free      no data race is reported while G goroutines call Entry/Exit/TraceError, every module's
//                  LoadRules / LoadRulesOfResource / ClearRules / GetRules and the statistics getters concurrently
//   old-or-new     a resource's flow rule is switched between "threshold 0" (blocks everything) and "threshold 1e9"
//                  (admits everything) while requests run: every decision must be explainable by one of the two lists
//                  (trivially true here) and — the checkable part — a resource whose rule is never touched ("steady",
//                  threshold 0) must be blocked on every single request while other resources' rules churn
//   no-deadlock    everything terminates (120 s watchdog)
//
// Bounded: VERIF_BOUND x 200 iterations per goroutine; schedules are whatever the runtime produces under -race.

import (
	"errors"
	"fmt"
	"os"
	"strconv"
	"sync"
	"sync/atomic"
	"testing"
	"time"

	"github.com/alibaba/sentinel-golang/core/base"
	cb "github.com/alibaba/sentinel-golang/core/circuitbreaker"
	"github.com/alibaba/sentinel-golang/core/flow"
	"github.com/alibaba/sentinel-golang/core/hotspot"
	"github.com/alibaba/sentinel-golang/core/isolation"
	"github.com/alibaba/sentinel-golang/core/stat"
	"github.com/alibaba/sentinel-golang/core/system"
)

func TestVerifBounded(t *testing.T) {
	n := 2
	if v, err := strconv.Atoi(os.Getenv("VERIF_BOUND")); err == nil && v > 0 {
		n = v
	}
	iters := n * 200
	if err := InitDefault(); err != nil {
		t.Fatal(err)
	}
	done := make(chan struct{})
	go func() {
		select {
		case <-done:
		case <-time.After(120 * time.Second):
			fmt.Println("BOUNDED-FAIL check=no-deadlock: the run did not finish within 120 s")
			fmt.Println("BOUNDED cases=0 failures=1 result=fail")
			os.Exit(1)
		}
	}()
	var bad, cases int64
	fail := func(format string, args ...interface{}) {
		if atomic.AddInt64(&bad, 1) <= 8 {
			fmt.Printf("BOUNDED-FAIL "+format+"\n", args...)
		}
	}
	// the steady resource: blocked by a rule nobody touches
	flow.LoadRulesOfResource("c15-steady", []*flow.Rule{{Resource: "c15-steady", Threshold: 0, StatIntervalInMs: 1000}})
	var wg sync.WaitGroup
	run := func(f func(i int)) {
		wg.Add(1)
		go func() {
			defer wg.Done()
			for i := 0; i < iters; i++ {
				f(i)
			}
		}()
	}
	// traffic
	for g := 0; g < 4; g++ {
		g := g
		run(func(i int) {
			res := fmt.Sprintf("c15-res-%d", (g+i)%3)
			e, b := Entry(res, WithTrafficType(base.Inbound), WithArgs(i%5, "k"))
			if b == nil {
				if i%7 == 0 {
					TraceError(e, errors.New("x"))
				}
				e.Exit()
			}
			atomic.AddInt64(&cases, 1)
			e2, b2 := Entry("c15-steady")
			if b2 == nil {
				e2.Exit()
				fail("check=other-resources-unaffected: a request on the steady resource (threshold 0, rule never touched) was admitted while other resources' rules were being switched")
			}
		})
	}
	// rule churn, all modules
	run(func(i int) {
		thr := float64(0)
		if i%2 == 0 {
			thr = 1e9
		}
		res := fmt.Sprintf("c15-res-%d", i%3)
		flow.LoadRulesOfResource(res, []*flow.Rule{{Resource: res, Threshold: thr, StatIntervalInMs: 1000}})
		if i%50 == 0 {
			flow.ClearRulesOfResource(res)
		}
	})
	run(func(i int) {
		res := fmt.Sprintf("c15-res-%d", i%3)
		isolation.LoadRulesOfResource(res, []*isolation.Rule{{Resource: res, MetricType: isolation.Concurrency, Threshold: uint32(1 + i%100)}})
		cb.LoadRulesOfResource(res, []*cb.Rule{{Resource: res, Strategy: cb.ErrorCount, RetryTimeoutMs: 1000, MinRequestAmount: 10, StatIntervalMs: 1000, Threshold: float64(1 + i%50)}})
	})
	run(func(i int) {
		res := fmt.Sprintf("c15-res-%d", i%3)
		hotspot.LoadRulesOfResource(res, []*hotspot.Rule{{Resource: res, MetricType: hotspot.Concurrency, ParamIndex: 0, Threshold: int64(100 + i%10), DurationInSec: 1}})
		system.LoadRules([]*system.Rule{{MetricType: system.Concurrency, TriggerCount: float64(100000 + i%10)}})
	})
	// readers
	run(func(i int) {
		flow.GetRules()
		flow.GetRulesOfResource("c15-res-1")
		isolation.GetRules()
		cb.GetRules()
		hotspot.GetRules()
		system.GetRules()
		if node := stat.GetResourceNode(fmt.Sprintf("c15-res-%d", i%3)); node != nil {
			node.GetQPS(base.MetricEventPass)
			node.CurrentConcurrency()
			node.GetSum(base.MetricEventBlock)
		}
		stat.ResourceNodeList()
	})
	wg.Wait()
	close(done)
	flow.ClearRules()
	isolation.ClearRules()
	cb.ClearRules()
	hotspot.ClearRules()
	system.ClearRules()
	res := "ok"
	if atomic.LoadInt64(&bad) > 0 {
		res = "fail"
	}
	fmt.Printf("BOUNDED cases=%d failures=%d result=%s\n", atomic.LoadInt64(&cases), atomic.LoadInt64(&bad), res)
}
