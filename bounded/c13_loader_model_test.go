package api

// Bounded stand-in (C13). The loaders are under contract function by function; this harness checks the composed,
// observable statement of the property on the real public API of five modules, against a model that is the
// property itself:
//
//   reported-is-latest-valid   after every LoadRules / LoadRulesOfResource / ClearRules / ClearRulesOfResource the
//                              getters report, per resource and in order, exactly the rules of the most recent load
//                              for that resource that pass the module's validity check (and, for modules that build a
//                              controller per rule, name a supported strategy); previously loaded rules of the
//                              affected scope are gone, other resources are untouched
//   reported-rule-of-unsupported-strategy-is-not-enforced
//                              (split off from the above) the getters report exactly the rules that pass the validity
//                              check, but one of them names a strategy without a registered generator: reported, yet no
//                              controller enforces it
//   no-panic                   loading never panics (nil elements, invalid rules, empty lists, empty resource name)
//   identical-reload-unchanged loading the same rules again reports "unchanged"
//
// (Rules naming another resource than the one of a per-resource load are not generated: caller error, outcome not fixed.)
//
// Bounded: VERIF_BOUND x 150 seeded random histories of 12 operations per module over a pool of 9 rule shapes
// (valid rules of three resources, duplicates, invalid rules, nil, unsupported strategies).

import (
	"fmt"
	"math/rand"
	"os"
	"reflect"
	"sort"
	"strconv"
	"strings"
	"testing"

	cb "github.com/alibaba/sentinel-golang/core/circuitbreaker"
	"github.com/alibaba/sentinel-golang/core/flow"
	"github.com/alibaba/sentinel-golang/core/hotspot"
	"github.com/alibaba/sentinel-golang/core/isolation"
	"github.com/alibaba/sentinel-golang/core/system"
	"github.com/alibaba/sentinel-golang/logging"
)

// c13Module adapts one rule module: rules are handled as printed values ("" for nil) so that the model is generic.
type c13Module struct {
	name        string
	pool        int                           // number of rule shapes
	perResource bool                          // has LoadRulesOfResource / ClearRulesOfResource / GetRulesOfResource
	resOf       func(i int) string            // resource (scope key) of shape i, "" for nil
	inForce     func(i int) bool              // valid (module's own check) and buildable
	valid       func(i int) bool              // passes the module's own check (nil when that is all inForce asks)
	text        func(i int) string            // printed form of shape i as the getters would report it
	load        func(idx []int) (bool, error) // LoadRules with fresh objects of these shapes
	loadRes     func(res string, idx []int) (bool, error)
	clear       func() error
	clearRes    func(res string) error
	get         func() map[string][]string // reported rules per scope key, in order
	getRes      func(res string) []string
}

func c13Flow() *c13Module {
	shapes := []*flow.Rule{
		{Resource: "r1", Threshold: 10, StatIntervalInMs: 1000},
		{Resource: "r1", Threshold: 20, ControlBehavior: flow.Throttling, MaxQueueingTimeMs: 100, StatIntervalInMs: 1000},
		{Resource: "r2", Threshold: 0, StatIntervalInMs: 1000},
		{Resource: "r3", Threshold: 5, TokenCalculateStrategy: flow.WarmUp, WarmUpPeriodSec: 10, WarmUpColdFactor: 3, StatIntervalInMs: 1000},
		{Resource: "r1", Threshold: -1, StatIntervalInMs: 1000}, // invalid
		{Resource: "", Threshold: 1}, // invalid
		nil,                          // nil element
		{Resource: "r2", Threshold: 7, TokenCalculateStrategy: flow.TokenCalculateStrategy(7)}, // passes the check, no controller
		{Resource: "r3", Threshold: 9, RelationStrategy: flow.AssociatedResource, RefResource: "r1", StatIntervalInMs: 1000},
	}
	mk := func(idx []int) []*flow.Rule {
		var out []*flow.Rule
		for _, i := range idx {
			if shapes[i] == nil {
				out = append(out, nil)
				continue
			}
			r := *shapes[i]
			out = append(out, &r)
		}
		return out
	}
	pr := func(r flow.Rule) string { r.ID = ""; return fmt.Sprintf("%+v", r) }
	return &c13Module{name: "flow", pool: len(shapes), perResource: true,
		resOf: func(i int) string {
			if shapes[i] == nil {
				return ""
			}
			return shapes[i].Resource
		},
		inForce: func(i int) bool {
			return shapes[i] != nil && flow.IsValidRule(shapes[i]) == nil && int(shapes[i].TokenCalculateStrategy) <= int(flow.MemoryAdaptive)
		},
		text:     func(i int) string { return pr(*shapes[i]) },
		load:     func(idx []int) (bool, error) { return flow.LoadRules(mk(idx)) },
		loadRes:  func(res string, idx []int) (bool, error) { return flow.LoadRulesOfResource(res, mk(idx)) },
		clear:    flow.ClearRules,
		clearRes: flow.ClearRulesOfResource,
		get: func() map[string][]string {
			m := map[string][]string{}
			for _, r := range flow.GetRules() {
				m[r.Resource] = append(m[r.Resource], pr(r))
			}
			return m
		},
		getRes: func(res string) []string {
			var out []string
			for _, r := range flow.GetRulesOfResource(res) {
				out = append(out, pr(r))
			}
			return out
		},
	}
}

func c13Isolation() *c13Module {
	shapes := []*isolation.Rule{
		{Resource: "r1", MetricType: isolation.Concurrency, Threshold: 10},
		{Resource: "r1", MetricType: isolation.Concurrency, Threshold: 3},
		{Resource: "r2", MetricType: isolation.Concurrency, Threshold: 1},
		{Resource: "r3", MetricType: isolation.Concurrency, Threshold: 5},
		{Resource: "r1", MetricType: isolation.Concurrency, Threshold: 0}, // invalid
		{Resource: "", MetricType: isolation.Concurrency, Threshold: 1},   // invalid
		nil,
		{Resource: "r2", MetricType: isolation.MetricType(3), Threshold: 7}, // invalid metric type
		{Resource: "r3", MetricType: isolation.Concurrency, Threshold: 4294967295},
	}
	mk := func(idx []int) []*isolation.Rule {
		var out []*isolation.Rule
		for _, i := range idx {
			if shapes[i] == nil {
				out = append(out, nil)
				continue
			}
			r := *shapes[i]
			out = append(out, &r)
		}
		return out
	}
	pr := func(r isolation.Rule) string { r.ID = ""; return fmt.Sprintf("%+v", r) }
	return &c13Module{name: "isolation", pool: len(shapes), perResource: true,
		resOf: func(i int) string {
			if shapes[i] == nil {
				return ""
			}
			return shapes[i].Resource
		},
		inForce:  func(i int) bool { return shapes[i] != nil && isolation.IsValidRule(shapes[i]) == nil },
		text:     func(i int) string { return pr(*shapes[i]) },
		load:     func(idx []int) (bool, error) { return isolation.LoadRules(mk(idx)) },
		loadRes:  func(res string, idx []int) (bool, error) { return isolation.LoadRulesOfResource(res, mk(idx)) },
		clear:    isolation.ClearRules,
		clearRes: isolation.ClearRulesOfResource,
		get: func() map[string][]string {
			m := map[string][]string{}
			for _, r := range isolation.GetRules() {
				m[r.Resource] = append(m[r.Resource], pr(r))
			}
			return m
		},
		getRes: func(res string) []string {
			var out []string
			for _, r := range isolation.GetRulesOfResource(res) {
				out = append(out, pr(r))
			}
			return out
		},
	}
}

func c13Hotspot() *c13Module {
	shapes := []*hotspot.Rule{
		{Resource: "r1", MetricType: hotspot.QPS, ControlBehavior: hotspot.Reject, ParamIndex: 0, Threshold: 5, DurationInSec: 1},
		{Resource: "r1", MetricType: hotspot.Concurrency, ParamIndex: 1, Threshold: 3},
		{Resource: "r2", MetricType: hotspot.QPS, ControlBehavior: hotspot.Throttling, ParamIndex: 0, Threshold: 5, DurationInSec: 1, MaxQueueingTimeMs: 10},
		{Resource: "r3", MetricType: hotspot.QPS, ControlBehavior: hotspot.Reject, ParamKey: "k", Threshold: 5, DurationInSec: 2, SpecificItems: map[interface{}]int64{"vip": 9}},
		{Resource: "r1", MetricType: hotspot.QPS, ControlBehavior: hotspot.Reject, Threshold: -1, DurationInSec: 1}, // invalid
		{Resource: "", MetricType: hotspot.QPS, Threshold: 1, DurationInSec: 1},                                     // invalid
		nil,
		{Resource: "r2", MetricType: hotspot.QPS, ControlBehavior: hotspot.ControlBehavior(7), Threshold: 7, DurationInSec: 1},    // passes the check, no controller
		{Resource: "r3", MetricType: hotspot.QPS, ControlBehavior: hotspot.Reject, ParamIndex: 2, Threshold: 5, DurationInSec: 0}, // invalid duration
	}
	mk := func(idx []int) []*hotspot.Rule {
		var out []*hotspot.Rule
		for _, i := range idx {
			if shapes[i] == nil {
				out = append(out, nil)
				continue
			}
			r := *shapes[i]
			out = append(out, &r)
		}
		return out
	}
	pr := func(r hotspot.Rule) string {
		r.ID = ""
		if len(r.SpecificItems) == 0 {
			r.SpecificItems = nil
		}
		return fmt.Sprintf("%+v", r)
	}
	return &c13Module{name: "hotspot", pool: len(shapes), perResource: true,
		resOf: func(i int) string {
			if shapes[i] == nil {
				return ""
			}
			return shapes[i].Resource
		},
		inForce: func(i int) bool {
			return shapes[i] != nil && hotspot.IsValidRule(shapes[i]) == nil && (shapes[i].ControlBehavior == hotspot.Reject || shapes[i].ControlBehavior == hotspot.Throttling)
		},
		text:     func(i int) string { return pr(*shapes[i]) },
		load:     func(idx []int) (bool, error) { return hotspot.LoadRules(mk(idx)) },
		loadRes:  func(res string, idx []int) (bool, error) { return hotspot.LoadRulesOfResource(res, mk(idx)) },
		clear:    hotspot.ClearRules,
		clearRes: hotspot.ClearRulesOfResource,
		get: func() map[string][]string {
			m := map[string][]string{}
			for _, r := range hotspot.GetRules() {
				m[r.Resource] = append(m[r.Resource], pr(r))
			}
			return m
		},
		getRes: func(res string) []string {
			var out []string
			for _, r := range hotspot.GetRulesOfResource(res) {
				out = append(out, pr(r))
			}
			return out
		},
	}
}

func c13Cb() *c13Module {
	shapes := []*cb.Rule{
		{Resource: "r1", Strategy: cb.ErrorCount, RetryTimeoutMs: 1000, MinRequestAmount: 1, StatIntervalMs: 1000, Threshold: 1},
		{Resource: "r1", Strategy: cb.ErrorRatio, RetryTimeoutMs: 1000, MinRequestAmount: 1, StatIntervalMs: 1000, Threshold: 0.5},
		{Resource: "r2", Strategy: cb.SlowRequestRatio, RetryTimeoutMs: 1000, MinRequestAmount: 1, StatIntervalMs: 1000, MaxAllowedRtMs: 20, Threshold: 0.5},
		{Resource: "r3", Strategy: cb.ErrorCount, RetryTimeoutMs: 3000, MinRequestAmount: 5, StatIntervalMs: 2000, Threshold: 7},
		{Resource: "r1", Strategy: cb.ErrorCount, RetryTimeoutMs: 0, StatIntervalMs: 1000, Threshold: 1},  // invalid
		{Resource: "", Strategy: cb.ErrorCount, RetryTimeoutMs: 1000, StatIntervalMs: 1000, Threshold: 1}, // invalid
		nil,
		{Resource: "r2", Strategy: cb.Strategy(9), RetryTimeoutMs: 1000, StatIntervalMs: 1000, Threshold: 1},  // passes the check, no breaker
		{Resource: "r3", Strategy: cb.ErrorRatio, RetryTimeoutMs: 1000, StatIntervalMs: 1000, Threshold: 1.5}, // invalid ratio
	}
	mk := func(idx []int) []*cb.Rule {
		var out []*cb.Rule
		for _, i := range idx {
			if shapes[i] == nil {
				out = append(out, nil)
				continue
			}
			r := *shapes[i]
			out = append(out, &r)
		}
		return out
	}
	pr := func(r cb.Rule) string { r.Id = ""; return fmt.Sprintf("%+v", r) }
	return &c13Module{name: "circuitbreaker", pool: len(shapes), perResource: true,
		resOf: func(i int) string {
			if shapes[i] == nil {
				return ""
			}
			return shapes[i].Resource
		},
		inForce: func(i int) bool {
			return shapes[i] != nil && cb.IsValidRule(shapes[i]) == nil && shapes[i].Strategy <= cb.ErrorCount
		},
		valid:    func(i int) bool { return shapes[i] != nil && cb.IsValidRule(shapes[i]) == nil },
		text:     func(i int) string { return pr(*shapes[i]) },
		load:     func(idx []int) (bool, error) { return cb.LoadRules(mk(idx)) },
		loadRes:  func(res string, idx []int) (bool, error) { return cb.LoadRulesOfResource(res, mk(idx)) },
		clear:    cb.ClearRules,
		clearRes: cb.ClearRulesOfResource,
		get: func() map[string][]string {
			m := map[string][]string{}
			for _, r := range cb.GetRules() {
				m[r.Resource] = append(m[r.Resource], pr(r))
			}
			return m
		},
		getRes: func(res string) []string {
			var out []string
			for _, r := range cb.GetRulesOfResource(res) {
				out = append(out, pr(r))
			}
			return out
		},
	}
}

func c13System() *c13Module {
	shapes := []*system.Rule{
		{MetricType: system.InboundQPS, TriggerCount: 100},
		{MetricType: system.InboundQPS, TriggerCount: 50},
		{MetricType: system.Concurrency, TriggerCount: 10},
		{MetricType: system.CpuUsage, TriggerCount: 0.8, Strategy: system.BBR},
		{MetricType: system.Load, TriggerCount: -1},      // invalid
		{MetricType: system.CpuUsage, TriggerCount: 1.5}, // invalid
		nil,
		{MetricType: system.MetricTypeSize, TriggerCount: 1}, // invalid
		{MetricType: system.AvgRT, TriggerCount: 30},
	}
	mk := func(idx []int) []*system.Rule {
		var out []*system.Rule
		for _, i := range idx {
			if shapes[i] == nil {
				out = append(out, nil)
				continue
			}
			r := *shapes[i]
			out = append(out, &r)
		}
		return out
	}
	pr := func(r system.Rule) string { r.ID = ""; return fmt.Sprintf("%+v", r) }
	return &c13Module{name: "system", pool: len(shapes), perResource: false,
		resOf: func(i int) string {
			if shapes[i] == nil {
				return ""
			}
			return fmt.Sprint(shapes[i].MetricType) // system rules are grouped by metric type
		},
		inForce: func(i int) bool { return shapes[i] != nil && system.IsValidSystemRule(shapes[i]) == nil },
		text:    func(i int) string { return pr(*shapes[i]) },
		load:    func(idx []int) (bool, error) { return system.LoadRules(mk(idx)) },
		clear:   system.ClearRules,
		get: func() map[string][]string {
			m := map[string][]string{}
			for _, r := range system.GetRules() {
				k := fmt.Sprint(r.MetricType)
				m[k] = append(m[k], pr(r))
			}
			return m
		},
	}
}

func c13Show(m map[string][]string) string {
	var ks []string
	for k := range m {
		ks = append(ks, k)
	}
	sort.Strings(ks)
	var b strings.Builder
	for _, k := range ks {
		fmt.Fprintf(&b, " %s:%d", k, len(m[k]))
	}
	return b.String()
}

func TestVerifBounded(t *testing.T) {
	n := 2
	if v, err := strconv.Atoi(os.Getenv("VERIF_BOUND")); err == nil && v > 0 {
		n = v
	}
	logging.ResetGlobalLoggerLevel(logging.ErrorLevel + 1)
	cases, bad := 0, 0
	seen := map[string]int{}
	fail := func(check, format string, args ...interface{}) {
		bad++
		seen[check]++
		if seen[check] <= 3 {
			msg := fmt.Sprintf(format, args...)
			if len(msg) > 1500 {
				msg = msg[:1500] + "..."
			}
			fmt.Printf("BOUNDED-FAIL check=%s %s\n", check, msg)
		}
	}
	resources := []string{"r1", "r2", "r3", "r4", ""}
	for _, mod := range []*c13Module{c13Flow(), c13Isolation(), c13Hotspot(), c13Cb(), c13System()} {
		for c := 0; c < n*150; c++ {
			cases++
			rng := rand.New(rand.NewSource(int64(7000 + c)))
			mod.clear()
			model := map[string][]string{}  // valid and buildable
			model2 := map[string][]string{} // valid (whether or not the module can build a controller for the strategy)
			v2 := func(i int) bool {
				if mod.valid != nil {
					return mod.valid(i)
				}
				return mod.inForce(i)
			}
			trace := ""
			var lastWhole []int
			lastWholeValid := false
			for step := 0; step < 12; step++ {
				op := rng.Intn(10)
				var idx []int
				for k := rng.Intn(5); k > 0; k-- {
					idx = append(idx, rng.Intn(mod.pool))
				}
				func() {
					defer func() {
						if p := recover(); p != nil {
							fail("no-panic", "%s case %d after%s: panic %v", mod.name, c, trace, p)
						}
					}()
					switch {
					case op < 4 || !mod.perResource && op < 8: // whole-set load
						trace += fmt.Sprintf(" Load%v", idx)
						changed, _ := mod.load(idx)
						if lastWholeValid && reflect.DeepEqual(lastWhole, idx) && changed {
							fail("identical-reload-unchanged", "%s case %d after%s: loading the same rules again reported changed", mod.name, c, trace)
						}
						model, model2 = map[string][]string{}, map[string][]string{}
						for _, i := range idx {
							if mod.inForce(i) {
								model[mod.resOf(i)] = append(model[mod.resOf(i)], mod.text(i))
							}
							if v2(i) {
								model2[mod.resOf(i)] = append(model2[mod.resOf(i)], mod.text(i))
							}
						}
						lastWhole, lastWholeValid = idx, true
					case op < 8: // per-resource load
						res := resources[rng.Intn(len(resources))]
						// a rule that names ANOTHER resource in a per-resource load is a caller error whose outcome the
						// property does not fix (flow drops it, isolation keeps it under the loaded resource): not generated
						var own []int
						for _, i := range idx {
							if !v2(i) || mod.resOf(i) == res {
								own = append(own, i)
							}
						}
						idx = own
						trace += fmt.Sprintf(" LoadRes(%q)%v", res, idx)
						mod.loadRes(res, idx)
						lastWholeValid = false
						if res == "" {
							return // rejected: nothing changes
						}
						delete(model, res)
						delete(model2, res)
						for _, i := range idx {
							if mod.inForce(i) && mod.resOf(i) == res {
								model[res] = append(model[res], mod.text(i))
							}
							if v2(i) && mod.resOf(i) == res {
								model2[res] = append(model2[res], mod.text(i))
							}
						}
					case op == 8 && mod.perResource:
						res := resources[rng.Intn(4)]
						trace += fmt.Sprintf(" ClearRes(%q)", res)
						mod.clearRes(res)
						delete(model, res)
						delete(model2, res)
						lastWholeValid = false
					default:
						trace += " Clear"
						mod.clear()
						model, model2 = map[string][]string{}, map[string][]string{}
						lastWholeValid = false
					}
				}()
				got := mod.get()
				for k, v := range got {
					if len(v) == 0 {
						delete(got, k)
					}
				}
				if !reflect.DeepEqual(got, model) && reflect.DeepEqual(got, model2) {
					// exactly the valid rules are reported, but some of them name a strategy the module has no generator
					// for: reported by the getters although nothing enforces them
					fail("reported-rule-of-unsupported-strategy-is-not-enforced", "%s case %d after%s: reported%s, enforceable%s", mod.name, c, trace, c13Show(got), c13Show(model))
					break
				}
				if !reflect.DeepEqual(got, model) {
					detail := ""
					for k := range model {
						if !reflect.DeepEqual(got[k], model[k]) {
							detail = fmt.Sprintf("scope %q reports %v, the latest valid rules are %v", k, got[k], model[k])
						}
					}
					for k := range got {
						if _, ok := model[k]; !ok {
							detail = fmt.Sprintf("scope %q still reports %v, nothing valid was loaded for it last", k, got[k])
						}
					}
					fail("reported-is-latest-valid", "%s case %d after%s: reported%s, expected%s; %s", mod.name, c, trace, c13Show(got), c13Show(model), detail)
					break
				}
				if mod.perResource {
					for _, res := range resources[:4] {
						if g := mod.getRes(res); !(len(g) == 0 && len(model[res]) == 0) && !reflect.DeepEqual(g, model[res]) {
							fail("reported-is-latest-valid", "%s case %d after%s: GetRulesOfResource(%q) = %v, expected %v", mod.name, c, trace, res, g, model[res])
						}
					}
				}
			}
			mod.clear()
		}
	}
	res := "ok"
	if bad > 0 {
		res = "fail"
	}
	fmt.Printf("BOUNDED cases=%d failures=%d result=%s\n", cases, bad, res)
}
