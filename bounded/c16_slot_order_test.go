package base

// Bounded stand-in (C16, ordering clause): sort.SliceStable is outside the verified subset, so the clause
// "slots run in ascending Order(), insertion order on ties" is checked on the real Add*Slot functions for all
// insertion sequences of at most N slots over 3 distinct order values, plus seeded pseudo-random long sequences
// (13 to 40 slots, long groups of equal orders followed by lower ones: the sizes at which an unstable sort first
// differs from a stable one). Bounded, not a proof.

import (
	"fmt"
	"math/rand"
	"os"
	"strconv"
	"testing"
)

type vbSlot struct {
	order uint32
	id    int
}

func (s *vbSlot) Order() uint32                                  { return s.order }
func (s *vbSlot) Prepare(ctx *EntryContext)                      {}
func (s *vbSlot) Check(ctx *EntryContext) *TokenResult           { return nil }
func (s *vbSlot) OnEntryPassed(ctx *EntryContext)                {}
func (s *vbSlot) OnEntryBlocked(ctx *EntryContext, b *BlockError) {}
func (s *vbSlot) OnCompleted(ctx *EntryContext)                  {}

func TestVerifBounded(t *testing.T) {
	n := 5
	if v, err := strconv.Atoi(os.Getenv("VERIF_BOUND")); err == nil && v > 0 {
		n = v
	}
	cases, bad := 0, 0
	var rec func(seq []uint32)
	check := func(seq []uint32) {
		cases++
		sc := NewSlotChain()
		for i, o := range seq {
			s := &vbSlot{order: o, id: i}
			sc.AddStatPrepareSlot(s)
			sc.AddRuleCheckSlot(s)
			sc.AddStatSlot(s)
		}
		ok := len(sc.statPres) == len(seq) && len(sc.ruleChecks) == len(seq) && len(sc.stats) == len(seq)
		for k := 1; ok && k < len(seq); k++ {
			for _, pair := range [][2]*vbSlot{
				{sc.statPres[k-1].(*vbSlot), sc.statPres[k].(*vbSlot)},
				{sc.ruleChecks[k-1].(*vbSlot), sc.ruleChecks[k].(*vbSlot)},
				{sc.stats[k-1].(*vbSlot), sc.stats[k].(*vbSlot)}} {
				a, b := pair[0], pair[1]
				if a.order > b.order || (a.order == b.order && a.id > b.id) {
					ok = false
				}
			}
		}
		if !ok {
			bad++
			if bad == 1 {
				fmt.Printf("BOUNDED-FAIL check=ascending-and-stable: insertion orders %v\n", seq)
			}
		}
	}
	rec = func(seq []uint32) {
		check(seq)
		if len(seq) == n {
			return
		}
		for _, o := range []uint32{10, 20, 30} {
			rec(append(append([]uint32{}, seq...), o))
		}
	}
	rec(nil)
	// long sequences: library sorts switch algorithm with the length (insertion sort up to 12 elements), so short
	// exhaustive sequences cannot tell a stable sort from an unstable one
	for c := 0; c < 40*n; c++ {
		rng := rand.New(rand.NewSource(int64(7000 + c)))
		ln := 13 + rng.Intn(28)
		seq := make([]uint32, 0, ln)
		tie := uint32(10 * (1 + rng.Intn(3)))
		for len(seq) < ln {
			switch {
			case len(seq) < 12+rng.Intn(8):
				seq = append(seq, tie) // a long group of equal orders first
			case rng.Intn(3) == 0:
				seq = append(seq, uint32(5*rng.Intn(8)))
			default:
				seq = append(seq, tie)
			}
		}
		check(seq)
	}
	res := "ok"
	if bad > 0 {
		res = "FAIL"
	}
	fmt.Printf("BOUNDED name=c16_slot_order bound=%d cases=%d result=%s\n", n, cases, res)
}
