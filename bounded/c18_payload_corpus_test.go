package datasource

// Bounded stand-in (C18). The five JSON parsers end in encoding/json, which is outside the verified subset, so
// "a rule list written in the module's wire format decodes to exactly the rules it describes" and the behaviour of
// the real handler + updater + rule manager over delivery histories are checked here on the real code:
//
//   round-trip   for each module, a rule list rendered in the module's wire format (the JSON tags of its Rule type;
//                hotspot specific items as {valKind,valStr,threshold}) is delivered to a fresh handler; the rules
//                in force afterwards (module GetRules) must equal the list, field by JSON-tagged field
//   whitespace   the valid payload with a trailing newline / surrounding blanks is accepted like the bare one
//   corpus       [null], mixed null/valid, wrongly typed elements, non-arrays, a complete array followed by left-over bytes, every VERIF_BOUND-th truncation of the
//                valid payload: Handle never panics; an error leaves the previous rules in force; success puts exactly
//                the valid rules of the independently decoded list in force
//   histories    every delivery sequence of length <= N over {A, B, empty, malformed, [null]} on one handler against
//                the model "in force = valid rules of the last decodable payload"; an identical re-delivery must not
//                reach the updater
//
// Bounded (N = VERIF_BOUND), not a proof.

import (
	"encoding/json"
	"fmt"
	"os"
	"reflect"
	"sort"
	"strconv"
	"strings"
	"testing"

	cb "github.com/alibaba/sentinel-golang/core/circuitbreaker"
	"github.com/alibaba/sentinel-golang/core/flow"
	"github.com/alibaba/sentinel-golang/core/hotspot"
	"github.com/alibaba/sentinel-golang/core/isolation"
	"github.com/alibaba/sentinel-golang/core/system"
)

// wireOf renders one rule (struct value) in the wire format given by its JSON tags.
func wireOf(rule interface{}) map[string]interface{} {
	v := reflect.ValueOf(rule)
	for v.Kind() == reflect.Ptr {
		v = v.Elem()
	}
	out := map[string]interface{}{}
	for i := 0; i < v.NumField(); i++ {
		tag := v.Type().Field(i).Tag.Get("json")
		if tag == "" || tag == "-" {
			continue
		}
		name := strings.Split(tag, ",")[0]
		f := v.Field(i)
		if m, ok := f.Interface().(map[interface{}]int64); ok {
			items := []map[string]interface{}{}
			for k, th := range m {
				switch kv := k.(type) {
				case int:
					items = append(items, map[string]interface{}{"valKind": 0, "valStr": strconv.Itoa(kv), "threshold": th})
				case string:
					items = append(items, map[string]interface{}{"valKind": 1, "valStr": kv, "threshold": th})
				case bool:
					items = append(items, map[string]interface{}{"valKind": 2, "valStr": strconv.FormatBool(kv), "threshold": th})
				case float64:
					items = append(items, map[string]interface{}{"valKind": 3, "valStr": strconv.FormatFloat(kv, 'g', -1, 64), "threshold": th})
				}
			}
			sort.Slice(items, func(a, b int) bool { return fmt.Sprint(items[a]) < fmt.Sprint(items[b]) })
			out[name] = items
			continue
		}
		out[name] = f.Interface()
	}
	return out
}

func canon(rules interface{}) []string {
	v := reflect.ValueOf(rules)
	var out []string
	for i := 0; i < v.Len(); i++ {
		e := v.Index(i)
		if e.Kind() == reflect.Ptr && e.IsNil() {
			continue
		}
		b, _ := json.Marshal(wireOf(e.Interface()))
		out = append(out, string(b))
	}
	sort.Strings(out)
	return out
}

func payloadOf(rules interface{}) []byte {
	v := reflect.ValueOf(rules)
	list := []map[string]interface{}{}
	for i := 0; i < v.Len(); i++ {
		list = append(list, wireOf(v.Index(i).Interface()))
	}
	b, _ := json.Marshal(list)
	return b
}

type c18module struct {
	name    string
	parser  PropertyConverter
	updater PropertyUpdater
	inForce func() []string // canonical form of the rules in force
	clear   func()
	setA    interface{} // []*Rule, all valid
	setB    interface{}
	// decodeValid decodes a payload independently of the parser under test and returns the canonical valid rules;
	// ok=false when the payload is not a JSON rule list
	decodeValid func(src []byte) (valid []string, ok bool)
	malformed   []byte
}

func c18modules() []*c18module {
	flowA := []*flow.Rule{
		{ID: "fa1", Resource: "c18-f1", TokenCalculateStrategy: flow.Direct, ControlBehavior: flow.Reject, Threshold: 12.5, RelationStrategy: flow.CurrentResource, StatIntervalInMs: 2000},
		{ID: "fa2", Resource: "c18-f2", TokenCalculateStrategy: flow.WarmUp, ControlBehavior: flow.Throttling, Threshold: 30, RelationStrategy: flow.AssociatedResource, RefResource: "c18-ref", MaxQueueingTimeMs: 17, WarmUpPeriodSec: 9, WarmUpColdFactor: 4, StatIntervalInMs: 1000},
		{ID: "fa3", Resource: "c18-f3", TokenCalculateStrategy: flow.MemoryAdaptive, ControlBehavior: flow.Reject, Threshold: 1, LowMemUsageThreshold: 900, HighMemUsageThreshold: 100, MemLowWaterMarkBytes: 1 << 20, MemHighWaterMarkBytes: 1 << 30, StatIntervalInMs: 1000},
	}
	flowB := []*flow.Rule{{ID: "fb1", Resource: "c18-f1", Threshold: 7, StatIntervalInMs: 1000}}
	isoA := []*isolation.Rule{{ID: "ia1", Resource: "c18-i1", MetricType: isolation.Concurrency, Threshold: 33}, {ID: "ia2", Resource: "c18-i2", MetricType: isolation.Concurrency, Threshold: 4}}
	isoB := []*isolation.Rule{{ID: "ib1", Resource: "c18-i3", MetricType: isolation.Concurrency, Threshold: 5}}
	sysA := []*system.Rule{{ID: "sa1", MetricType: system.Load, TriggerCount: 3.5, Strategy: system.BBR}, {ID: "sa2", MetricType: system.InboundQPS, TriggerCount: 800, Strategy: system.NoAdaptive}, {ID: "sa3", MetricType: system.CpuUsage, TriggerCount: 0.75, Strategy: system.BBR}}
	sysB := []*system.Rule{{ID: "sb1", MetricType: system.Concurrency, TriggerCount: 64, Strategy: system.NoAdaptive}}
	cbA := []*cb.Rule{
		{Id: "ca1", Resource: "c18-c1", Strategy: cb.SlowRequestRatio, RetryTimeoutMs: 3000, MinRequestAmount: 11, StatIntervalMs: 5000, StatSlidingWindowBucketCount: 5, MaxAllowedRtMs: 45, Threshold: 0.4, ProbeNum: 3},
		{Id: "ca2", Resource: "c18-c2", Strategy: cb.ErrorCount, RetryTimeoutMs: 700, MinRequestAmount: 2, StatIntervalMs: 1000, StatSlidingWindowBucketCount: 1, Threshold: 6},
	}
	cbB := []*cb.Rule{{Id: "cb1", Resource: "c18-c1", Strategy: cb.ErrorRatio, RetryTimeoutMs: 900, MinRequestAmount: 5, StatIntervalMs: 2000, StatSlidingWindowBucketCount: 2, Threshold: 0.5}}
	hotA := []*hotspot.Rule{
		{ID: "ha1", Resource: "c18-h1", MetricType: hotspot.QPS, ControlBehavior: hotspot.Reject, ParamIndex: 1, Threshold: 100, BurstCount: 7, DurationInSec: 2, ParamsMaxCapacity: 500, SpecificItems: map[interface{}]int64{"vip": 1000, 42: 7, true: 3}},
		{ID: "ha2", Resource: "c18-h2", MetricType: hotspot.QPS, ControlBehavior: hotspot.Throttling, ParamKey: "tenant", Threshold: 20, MaxQueueingTimeMs: 30, DurationInSec: 1, ParamsMaxCapacity: 100, SpecificItems: map[interface{}]int64{}},
		{ID: "ha3", Resource: "c18-h3", MetricType: hotspot.Concurrency, ParamIndex: -1, Threshold: 8, DurationInSec: 1, ParamsMaxCapacity: 50, SpecificItems: map[interface{}]int64{2.5: 9}},
	}
	hotB := []*hotspot.Rule{{ID: "hb1", Resource: "c18-h1", MetricType: hotspot.Concurrency, ParamIndex: 0, Threshold: 2, DurationInSec: 1, ParamsMaxCapacity: 10, SpecificItems: map[interface{}]int64{}}}

	return []*c18module{
		{name: "flow", parser: FlowRuleJsonArrayParser, updater: FlowRulesUpdater, setA: flowA, setB: flowB,
			inForce: func() []string { return canon(flow.GetRules()) }, clear: func() { flow.ClearRules() },
			decodeValid: func(src []byte) ([]string, bool) {
				var l []*flow.Rule
				if json.Unmarshal(src, &l) != nil {
					return nil, false
				}
				var ok []*flow.Rule
				for _, r := range l {
					if r != nil && flow.IsValidRule(r) == nil {
						ok = append(ok, r)
					}
				}
				return canon(ok), true
			}, malformed: []byte(`[{"resource":"c18-f1","threshold":"ten"}]`)},
		{name: "isolation", parser: IsolationRuleJsonArrayParser, updater: IsolationRulesUpdater, setA: isoA, setB: isoB,
			inForce: func() []string { return canon(isolation.GetRules()) }, clear: func() { isolation.ClearRules() },
			decodeValid: func(src []byte) ([]string, bool) {
				var l []*isolation.Rule
				if json.Unmarshal(src, &l) != nil {
					return nil, false
				}
				var ok []*isolation.Rule
				for _, r := range l {
					if r != nil && isolation.IsValidRule(r) == nil {
						ok = append(ok, r)
					}
				}
				return canon(ok), true
			}, malformed: []byte(`[{"resource":"c18-i1","threshold":-1}]`)},
		{name: "system", parser: SystemRuleJsonArrayParser, updater: SystemRulesUpdater, setA: sysA, setB: sysB,
			inForce: func() []string { return canon(system.GetRules()) }, clear: func() { system.ClearRules() },
			decodeValid: func(src []byte) ([]string, bool) {
				var l []*system.Rule
				if json.Unmarshal(src, &l) != nil {
					return nil, false
				}
				var ok []*system.Rule
				for _, r := range l {
					if r != nil && system.IsValidSystemRule(r) == nil {
						ok = append(ok, r)
					}
				}
				return canon(ok), true
			}, malformed: []byte(`[{"metricType":"load"}]`)},
		{name: "circuitbreaker", parser: CircuitBreakerRuleJsonArrayParser, updater: CircuitBreakerRulesUpdater, setA: cbA, setB: cbB,
			inForce: func() []string { return canon(cb.GetRules()) }, clear: func() { cb.ClearRules() },
			decodeValid: func(src []byte) ([]string, bool) {
				var l []*cb.Rule
				if json.Unmarshal(src, &l) != nil {
					return nil, false
				}
				var ok []*cb.Rule
				for _, r := range l {
					if r != nil && cb.IsValidRule(r) == nil {
						ok = append(ok, r)
					}
				}
				return canon(ok), true
			}, malformed: []byte(`[{"resource":"c18-c1","retryTimeoutMs":1.5}]`)},
		{name: "hotspot", parser: HotSpotParamRuleJsonArrayParser, updater: HotSpotParamRulesUpdater, setA: hotA, setB: hotB,
			inForce: func() []string { return canon(hotspot.GetRules()) }, clear: func() { hotspot.ClearRules() },
			decodeValid: func(src []byte) ([]string, bool) {
				// independent decoding of the hotspot wire format
				var l []map[string]json.RawMessage
				if json.Unmarshal(src, &l) != nil {
					return nil, false
				}
				var ok []*hotspot.Rule
				for _, m := range l {
					if m == nil {
						continue
					}
					r := &hotspot.Rule{SpecificItems: map[interface{}]int64{}}
					bad := false
					get := func(k string, into interface{}) {
						if raw, has := m[k]; has && json.Unmarshal(raw, into) != nil {
							bad = true
						}
					}
					get("id", &r.ID)
					get("resource", &r.Resource)
					get("metricType", &r.MetricType)
					get("controlBehavior", &r.ControlBehavior)
					get("paramIndex", &r.ParamIndex)
					get("paramKey", &r.ParamKey)
					get("threshold", &r.Threshold)
					get("maxQueueingTimeMs", &r.MaxQueueingTimeMs)
					get("burstCount", &r.BurstCount)
					get("durationInSec", &r.DurationInSec)
					get("paramsMaxCapacity", &r.ParamsMaxCapacity)
					var items []struct {
						ValKind   int    `json:"valKind"`
						ValStr    string `json:"valStr"`
						Threshold int64  `json:"threshold"`
					}
					get("specificItems", &items)
					if bad {
						return nil, false
					}
					for _, it := range items {
						switch it.ValKind {
						case 0:
							if n, err := strconv.Atoi(it.ValStr); err == nil {
								r.SpecificItems[n] = it.Threshold
							}
						case 1:
							r.SpecificItems[it.ValStr] = it.Threshold
						case 2:
							if b, err := strconv.ParseBool(it.ValStr); err == nil {
								r.SpecificItems[b] = it.Threshold
							}
						case 3:
							if f, err := strconv.ParseFloat(it.ValStr, 64); err == nil {
								r.SpecificItems[f] = it.Threshold
							}
						}
					}
					if hotspot.IsValidRule(r) == nil {
						ok = append(ok, r)
					}
				}
				return canon(ok), true
			}, malformed: []byte(`[{"resource":"c18-h1","specificItems":{"a":1}}]`)},
	}
}

// diff lists the entries only in want (-) and only in got (+).
func diff(want, got []string) string {
	in := func(l []string, x string) bool {
		for _, y := range l {
			if x == y {
				return true
			}
		}
		return false
	}
	var b strings.Builder
	for _, w := range want {
		if !in(got, w) {
			b.WriteString("\n  - " + w)
		}
	}
	for _, g := range got {
		if !in(want, g) {
			b.WriteString("\n  + " + g)
		}
	}
	return b.String()
}

func sameStrings(a, b []string) bool {
	if len(a) != len(b) {
		return false
	}
	for i := range a {
		if a[i] != b[i] {
			return false
		}
	}
	return true
}

// deliver runs Handle and reports an escaping panic.
func deliver(h *DefaultPropertyHandler, src []byte) (err error, escaped interface{}) {
	defer func() { escaped = recover() }()
	return h.Handle(src), nil
}

func TestVerifBounded(t *testing.T) {
	n := 3
	if v, err := strconv.Atoi(os.Getenv("VERIF_BOUND")); err == nil && v > 0 {
		n = v
	}
	cases, bad := 0, 0
	seen := map[string]int{}
	fail := func(format string, args ...interface{}) {
		bad++
		key := strings.SplitN(format, ":", 2)[0]
		if len(args) > 0 {
			key += fmt.Sprint(args[0])
		}
		seen[key]++
		if seen[key] <= 2 { // two examples per check and module
			msg := fmt.Sprintf(format, args...)
			if len(msg) > 1500 {
				msg = msg[:1500] + "..."
			}
			fmt.Println("BOUNDED-FAIL " + msg)
		}
	}
	for _, m := range c18modules() {
		m.clear()
		pa, pb := payloadOf(m.setA), payloadOf(m.setB)
		wantA, wantB := canon(m.setA), canon(m.setB)

		// ---- round trip of the wire format
		cases++
		h := NewDefaultPropertyHandler(m.parser, m.updater)
		if err, esc := deliver(h, pa); err != nil || esc != nil {
			fail("check=round-trip module=%s: valid payload rejected: err=%v panic=%v", m.name, err, esc)
		} else if got := m.inForce(); !sameStrings(got, wantA) {
			fail("check=round-trip module=%s: rules in force differ from the rules written (- written, + in force):%s", m.name, diff(wantA, got))
		}
		if dv, ok := m.decodeValid(pa); !ok || !sameStrings(dv, wantA) {
			fail("check=harness module=%s: the independent decoder disagrees with the written rules: %v", m.name, dv)
		}

		// ---- insignificant whitespace around the document (every hand-edited file ends in a newline) changes nothing
		for _, padded := range [][]byte{append(append([]byte{}, pa...), '\n'), append(append([]byte(" \t"), pa...), []byte("\r\n")...), append([]byte("\n"), pa...)} {
			cases++
			m.clear()
			hw := NewDefaultPropertyHandler(m.parser, m.updater)
			if err, esc := deliver(hw, padded); err != nil || esc != nil {
				fail("check=round-trip-whitespace module=%s payload=%q: valid payload with surrounding whitespace rejected: err=%v panic=%v", m.name, padded, err, esc)
			} else if got := m.inForce(); !sameStrings(got, wantA) {
				fail("check=round-trip-whitespace module=%s: rules in force differ from the rules written (- written, + in force):%s", m.name, diff(wantA, got))
			}
		}

		// ---- malformed corpus on a fresh handler, previous rules = set B
		corpus := [][]byte{
			[]byte(`[null]`), []byte(`[null,null]`), append(append([]byte(`[null,`), pa[1:len(pa)-1]...), []byte(`,null]`)...),
			[]byte(`[1]`), []byte(`["x"]`), []byte(`[[]]`), []byte(`[true]`), []byte(`{}`), []byte(`"rules"`), []byte(`7`), []byte(`null`), []byte(`[]`), []byte(` `), []byte(`[{}]`),
			[]byte(`[{"resource":5}]`), []byte(`[{"threshold":"x"}]`), []byte(`[{"id":null,"resource":null}]`), m.malformed,
		}
		// a complete array followed by left-over bytes (a shorter file written over a longer one, two documents
		// concatenated): not a JSON document
		corpus = append(corpus, append(append([]byte{}, pa...), []byte(`]`)...), append(append([]byte{}, pa...), pa[len(pa)/2:]...), append(append([]byte{}, pa...), []byte(` x`)...), append(append([]byte{}, pa...), pb...), append([]byte(`[]`), pa...))
		step := 9 - 2*n // quick (3): every 3rd truncation; thorough (>=4): every truncation
		if step < 1 {
			step = 1
		}
		for k := 1; k < len(pa); k += step {
			corpus = append(corpus, pa[:k])
		}
		for _, src := range corpus {
			cases++
			m.clear()
			hb := NewDefaultPropertyHandler(m.parser, m.updater)
			if err, esc := deliver(hb, pb); err != nil || esc != nil || !sameStrings(m.inForce(), wantB) {
				fail("check=corpus module=%s: could not establish the previous rules", m.name)
				continue
			}
			hc := NewDefaultPropertyHandler(m.parser, m.updater)
			err, esc := deliver(hc, src)
			got := m.inForce()
			valid, decodable := m.decodeValid(src)
			switch {
			case esc != nil:
				fail("check=corpus-no-panic module=%s payload=%q: panic escaped Handle: %v", m.name, src, esc)
			case !decodable && err == nil:
				fail("check=corpus-undecodable-rejected module=%s payload=%q: no error for an undecodable payload (in force: %v)", m.name, src, got)
			case err != nil && !sameStrings(got, wantB):
				fail("check=corpus-error-keeps-previous module=%s payload=%q: error %v but the rules in force changed: %v", m.name, src, err, got)
			case err == nil && decodable && !sameStrings(got, valid):
				fail("check=corpus-decoded-list-in-force module=%s payload=%q: (- decoded valid rules, + in force):%s", m.name, src, diff(valid, got))
			}
		}

		// ---- delivery histories on one handler
		alphabet := []struct {
			src  []byte
			kind string
		}{{pa, "A"}, {pb, "B"}, {nil, "empty"}, {m.malformed, "malformed"}, {[]byte(`[null]`), "null-element"}}
		var rec func(seq []int)
		run := func(seq []int) {
			cases++
			m.clear()
			updCalls := 0
			hh := NewDefaultPropertyHandler(m.parser, func(d interface{}) error { updCalls++; return m.updater(d) })
			var model []string
			lastDecoded := "empty" // the handler starts with no property, like an empty payload
			trace := ""
			for _, a := range seq {
				al := alphabet[a]
				trace += al.kind + " "
				before := updCalls
				err, esc := deliver(hh, al.src)
				if esc != nil {
					fail("check=history-no-panic module=%s history=%s: panic escaped: %v", m.name, trace, esc)
					return
				}
				switch al.kind {
				case "A":
					model = wantA
				case "B":
					model = wantB
				case "empty", "null-element":
					model = nil
				}
				if al.kind == "malformed" {
					if err == nil {
						fail("check=history-undecodable-rejected module=%s history=%s: no error", m.name, trace)
						return
					}
				} else {
					if err != nil {
						fail("check=history-valid-accepted module=%s history=%s: error %v", m.name, trace, err)
						return
					}
					if al.kind == lastDecoded && updCalls != before {
						fail("check=history-identical-is-noop module=%s history=%s: identical payload reached the updater again", m.name, trace)
						return
					}
					lastDecoded = al.kind
				}
				if got := m.inForce(); !sameStrings(got, model) {
					fail("check=history-in-force module=%s history=%s: (- expected, + in force):%s", m.name, trace, diff(model, got))
					return
				}
			}
		}
		rec = func(seq []int) {
			if len(seq) > 0 {
				run(seq)
			}
			if len(seq) == n {
				return
			}
			for a := range alphabet {
				rec(append(append([]int(nil), seq...), a))
			}
		}
		rec(nil)
		m.clear()
	}
	res := "ok"
	if bad > 0 {
		res = "fail"
	}
	fmt.Printf("BOUNDED cases=%d failures=%d result=%s\n", cases, bad, res)
}
