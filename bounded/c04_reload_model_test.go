package api

// Bounded stand-in (C04). checkPass is under contract for one request against the rule list in force; this harness
// checks the composed statement on the real public API (api.Entry with the default slot chain, isolation loaders)
// against a model that is the property itself — over whole histories in which the rules of a resource are reloaded
// while entries are in flight:
//
//   admit-iff-room        a request of batch b on a resource is admitted iff, for every isolation rule IN FORCE for
//                         that resource (the valid rules of the most recent load covering it), in-flight + b <= N;
//                         in-flight is the number of admitted entries of the resource not yet exited
//   rule-in-force-is-the-latest
//                         GetRulesOfResource reports exactly those rules (a reload that changes only the threshold, or
//                         only drops a rule, takes effect at once — nothing of an earlier load lingers)
//   exit-frees-capacity   after an exit the next request sees one entry less in flight
//
// Bounded: VERIF_BOUND x 100 seeded random histories of 40 operations over 3 resources (whole-set and per-resource loads
// with thresholds 1..4, several rules per resource, invalid rules, clears; entries with batch 1..3; exits in any order).

import (
	"fmt"
	"math/rand"
	"os"
	"reflect"
	"strconv"
	"testing"

	"github.com/alibaba/sentinel-golang/core/base"
	"github.com/alibaba/sentinel-golang/core/isolation"
	"github.com/alibaba/sentinel-golang/logging"
)

func TestVerifBounded(t *testing.T) {
	n := 2
	if v, err := strconv.Atoi(os.Getenv("VERIF_BOUND")); err == nil && v > 0 {
		n = v
	}
	logging.ResetGlobalLoggerLevel(logging.ErrorLevel + 1)
	if err := InitDefault(); err != nil {
		fmt.Println("BOUNDED-FAIL check=harness init:", err)
		fmt.Println("BOUNDED cases=0 failures=1 result=fail")
		return
	}
	cases, bad := 0, 0
	seen := map[string]int{}
	fail := func(check, format string, args ...interface{}) {
		bad++
		seen[check]++
		if seen[check] <= 3 {
			fmt.Printf("BOUNDED-FAIL check=%s %s\n", check, fmt.Sprintf(format, args...))
		}
	}
	resources := []string{"c04-a", "c04-b", "c04-c"}
	for c := 0; c < n*100; c++ {
		cases++
		rng := rand.New(rand.NewSource(int64(4000 + c)))
		_ = isolation.ClearRules()
		model := map[string][]uint32{} // thresholds in force per resource, in order
		live := map[string][]*base.SentinelEntry{}
		trace := ""
		mkRules := func(only string) ([]*isolation.Rule, map[string][]uint32) {
			var rules []*isolation.Rule
			m := map[string][]uint32{}
			for k := rng.Intn(4); k > 0; k-- {
				res := resources[rng.Intn(len(resources))]
				if only != "" {
					res = only
				}
				r := &isolation.Rule{Resource: res, MetricType: isolation.Concurrency, Threshold: uint32(1 + rng.Intn(4))}
				switch rng.Intn(8) {
				case 0:
					r.Threshold = 0 // invalid
				case 1:
					r.MetricType = isolation.MetricType(3) // invalid
				}
				rules = append(rules, r)
				if isolation.IsValidRule(r) == nil {
					m[res] = append(m[res], r.Threshold)
				}
			}
			return rules, m
		}
		for step := 0; step < 40; step++ {
			res := resources[rng.Intn(len(resources))]
			switch op := rng.Intn(10); {
			case op == 0:
				rules, m := mkRules("")
				trace += fmt.Sprintf(" Load%v", m)
				if _, err := isolation.LoadRules(rules); err == nil {
					model = m
				}
			case op == 1:
				rules, m := mkRules(res)
				trace += fmt.Sprintf(" LoadRes(%s)%v", res, m[res])
				if _, err := isolation.LoadRulesOfResource(res, rules); err == nil {
					delete(model, res)
					if len(m[res]) > 0 {
						model[res] = m[res]
					}
				}
			case op == 2 && rng.Intn(3) == 0:
				trace += " Clear"
				_ = isolation.ClearRules()
				model = map[string][]uint32{}
			case op <= 4 && len(live[res]) > 0:
				k := rng.Intn(len(live[res]))
				trace += fmt.Sprintf(" exit(%s)", res)
				live[res][k].Exit()
				live[res] = append(live[res][:k], live[res][k+1:]...)
			default:
				b := uint32(1 + rng.Intn(3))
				inflight := uint32(len(live[res]))
				want := true
				for _, thr := range model[res] {
					if inflight+b > thr {
						want = false
					}
				}
				trace += fmt.Sprintf(" enter(%s,%d)", res, b)
				e, blk := Entry(res, WithBatchCount(b))
				if (blk == nil) != want {
					fail("admit-iff-room", "case %d: %d in flight on %s, thresholds in force %v, batch %d: admitted=%v, want %v\n  %s", c, inflight, res, model[res], b, blk == nil, want, trace)
				}
				if blk != nil && blk.BlockType() != base.BlockTypeIsolation {
					fail("admit-iff-room", "case %d: blocked by %v, only isolation rules are loaded\n  %s", c, blk.BlockType(), trace)
				}
				if e != nil {
					live[res] = append(live[res], e)
				}
			}
			for _, r := range resources {
				var got []uint32
				for _, rule := range isolation.GetRulesOfResource(r) {
					got = append(got, rule.Threshold)
				}
				if !(len(got) == 0 && len(model[r]) == 0) && !reflect.DeepEqual(got, model[r]) {
					fail("rule-in-force-is-the-latest", "case %d: %s reports thresholds %v, the latest valid load has %v\n  %s", c, r, got, model[r], trace)
				}
			}
		}
		for _, es := range live {
			for _, e := range es {
				e.Exit()
			}
		}
	}
	_ = isolation.ClearRules()
	res := "ok"
	if bad > 0 {
		res = "fail"
	}
	fmt.Printf("BOUNDED cases=%d failures=%d result=%s\n", cases, bad, res)
}
