package api

// Bounded stand-in (C01). Entry, Exit, the slot chain and the statistic slots are under contract call by call; that the
// per-call clauses add up to the property over whole histories — and that the exit error of an entry, whichever way it
// was given, reaches that entry's completion and no other — is checked here on the real public API (api.Entry with the
// default slot chain, TraceError, Exit with and without WithError, repeated and late calls) against a model that is the
// property itself:
//
//   counted-once          after every operation, for every resource and for the inbound total: pass tokens = tokens of
//                         the admitted entries, block tokens = tokens of the rejected ones, complete tokens = tokens of
//                         the exited admitted entries, error tokens = tokens of those that were exited with an error
//                         (traced before the exit or passed to the first Exit), in-flight = admitted and not yet exited
//   late-calls-change-nothing
//                         a second Exit (with or without error) and a TraceError after the exit leave every figure as
//                         it was — also the figures of the entry that meanwhile reuses the pooled context
//   zero-when-idle        when no entry is in flight every in-flight figure is exactly 0
//
// Bounded: VERIF_BOUND x 60 seeded random histories of 50 operations over 4 resources (inbound and outbound, one of
// them always rejected by a flow rule with threshold 0), batch 1..3, under a frozen clock (one statistics bucket per
// history).

import (
	"errors"
	"fmt"
	"math/rand"
	"os"
	"strconv"
	"testing"
	"time"

	"github.com/alibaba/sentinel-golang/core/base"
	"github.com/alibaba/sentinel-golang/core/flow"
	"github.com/alibaba/sentinel-golang/core/stat"
	"github.com/alibaba/sentinel-golang/logging"
	"github.com/alibaba/sentinel-golang/util"
)

type c01Clock struct{ ms uint64 }

func (c *c01Clock) Now() time.Time            { return time.Unix(0, int64(c.ms)*1000000) }
func (c *c01Clock) Sleep(d time.Duration)     {}
func (c *c01Clock) CurrentTimeMillis() uint64 { return c.ms }
func (c *c01Clock) CurrentTimeNano() uint64   { return c.ms * 1000000 }

type c01Figures struct{ pass, block, complete, errs, inflight int64 }

type c01Live struct {
	e      *base.SentinelEntry
	res    string
	batch  int64
	traced bool
	exited bool
}

func TestVerifBounded(t *testing.T) {
	n := 2
	if v, err := strconv.Atoi(os.Getenv("VERIF_BOUND")); err == nil && v > 0 {
		n = v
	}
	logging.ResetGlobalLoggerLevel(logging.ErrorLevel + 1)
	// later than the real time at which the package-level inbound node laid out its buckets
	clock := &c01Clock{ms: uint64(time.Now().UnixNano()/1000000) + 3600000}
	util.SetClock(clock)
	if err := InitDefault(); err != nil {
		fmt.Println("BOUNDED-FAIL check=harness init:", err)
		fmt.Println("BOUNDED cases=0 failures=1 result=fail")
		return
	}
	cases, bad := 0, 0
	seen := map[string]int{}
	fail := func(check, format string, args ...interface{}) {
		bad++
		seen[check]++
		if seen[check] <= 3 {
			fmt.Printf("BOUNDED-FAIL check=%s %s\n", check, fmt.Sprintf(format, args...))
		}
	}
	for c := 0; c < n*60; c++ {
		cases++
		rng := rand.New(rand.NewSource(int64(1000 + c)))
		clock.ms += 60000 // a fresh statistics window for every history
		names := []string{fmt.Sprintf("c01-in-%d", c), fmt.Sprintf("c01-out-%d", c), fmt.Sprintf("c01-in2-%d", c), fmt.Sprintf("c01-rejected-%d", c)}
		inbound := map[string]bool{names[0]: true, names[2]: true, names[3]: true}
		if _, err := flow.LoadRulesOfResource(names[3], []*flow.Rule{{Resource: names[3], Threshold: 0, StatIntervalInMs: 1000}}); err != nil {
			fail("harness", "LoadRulesOfResource: %v", err)
			continue
		}
		model := map[string]*c01Figures{}
		for _, nm := range names {
			model[nm] = &c01Figures{}
		}
		total := &c01Figures{} // inbound total of this history
		in0 := c01Figures{stat.InboundNode().GetSum(base.MetricEventPass), stat.InboundNode().GetSum(base.MetricEventBlock), stat.InboundNode().GetSum(base.MetricEventComplete), stat.InboundNode().GetSum(base.MetricEventError), int64(stat.InboundNode().CurrentConcurrency())}
		var entries []*c01Live
		trace := ""
		verify := func(check string) {
			for _, nm := range names {
				node := stat.GetResourceNode(nm)
				m := model[nm]
				got := c01Figures{}
				if node != nil {
					got = c01Figures{node.GetSum(base.MetricEventPass), node.GetSum(base.MetricEventBlock), node.GetSum(base.MetricEventComplete), node.GetSum(base.MetricEventError), int64(node.CurrentConcurrency())}
				}
				if got != *m {
					fail(check, "case %d resource %s: pass/block/complete/error/in-flight = %+v, the history gives %+v\n  %s", c, nm, got, *m, trace)
				}
			}
			gi := c01Figures{stat.InboundNode().GetSum(base.MetricEventPass) - in0.pass, stat.InboundNode().GetSum(base.MetricEventBlock) - in0.block, stat.InboundNode().GetSum(base.MetricEventComplete) - in0.complete, stat.InboundNode().GetSum(base.MetricEventError) - in0.errs, int64(stat.InboundNode().CurrentConcurrency()) - in0.inflight}
			if gi != *total {
				fail(check, "case %d inbound total: pass/block/complete/error/in-flight = %+v, the history gives %+v\n  %s", c, gi, *total, trace)
			}
		}
		for step := 0; step < 50 && bad < 50; step++ {
			check := "counted-once"
			switch op := rng.Intn(10); {
			case op <= 3 || len(entries) == 0: // enter
				nm := names[rng.Intn(len(names))]
				b := int64(1 + rng.Intn(3))
				tt := base.Outbound
				if inbound[nm] {
					tt = base.Inbound
				}
				e, blk := Entry(nm, WithBatchCount(uint32(b)), WithTrafficType(tt))
				trace += fmt.Sprintf(" enter(%s,%d)", nm[4:7], b)
				if (blk != nil) != (nm == names[3]) {
					fail("counted-once", "case %d: Entry(%s) blocked=%v\n  %s", c, nm, blk != nil, trace)
				}
				if blk != nil {
					model[nm].block += b
					if inbound[nm] {
						total.block += b
					}
				} else {
					model[nm].pass += b
					model[nm].inflight++
					if inbound[nm] {
						total.pass += b
						total.inflight++
					}
					entries = append(entries, &c01Live{e: e, res: nm, batch: b})
				}
			case op <= 5: // trace an error on some entry (live or already exited)
				l := entries[rng.Intn(len(entries))]
				TraceError(l.e, errors.New("traced"))
				trace += fmt.Sprintf(" trace(%s%s)", l.res[4:7], map[bool]string{true: ",late", false: ""}[l.exited])
				if l.exited {
					check = "late-calls-change-nothing"
				} else {
					l.traced = true
				}
			default: // exit some entry (live or already exited), with or without an error
				l := entries[rng.Intn(len(entries))]
				withErr := rng.Intn(3) == 0
				trace += fmt.Sprintf(" exit(%s%s%s)", l.res[4:7], map[bool]string{true: ",err", false: ""}[withErr], map[bool]string{true: ",again", false: ""}[l.exited])
				if withErr {
					l.e.Exit(base.WithError(errors.New("exit error")))
				} else {
					l.e.Exit()
				}
				if l.exited {
					check = "late-calls-change-nothing"
				} else {
					l.exited = true
					m := model[l.res]
					m.complete += l.batch
					m.inflight--
					if l.traced || withErr {
						m.errs += l.batch
					}
					if inbound[l.res] {
						total.complete += l.batch
						total.inflight--
						if l.traced || withErr {
							total.errs += l.batch
						}
					}
				}
			}
			verify(check)
		}
		for _, l := range entries {
			if !l.exited {
				l.e.Exit()
				l.exited = true
				model[l.res].complete += l.batch
				model[l.res].inflight--
				if l.traced {
					model[l.res].errs += l.batch
				}
				if inbound[l.res] {
					total.complete += l.batch
					total.inflight--
					if l.traced {
						total.errs += l.batch
					}
				}
			}
		}
		trace += " exit-all"
		verify("zero-when-idle")
		_, _ = flow.LoadRulesOfResource(names[3], nil)
	}
	res := "ok"
	if bad > 0 {
		res = "fail"
	}
	fmt.Printf("BOUNDED cases=%d failures=%d result=%s\n", cases, bad, res)
}
