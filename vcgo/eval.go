package main

import (
	"fmt"
	"go/constant"
	"go/types"
	"sort"
	"strings"

	"golang.org/x/tools/go/ssa"
)

// Eval translates contract expressions to SMT over a symbolic state.
type Eval struct {
	cur   *State // the state outside old(): now(e) evaluates e there
	x     *Engine
	st    *State
	old   *State
	env   map[string]Val
	hash  map[string]Val
	pkg   *ssa.Package
	bound map[string]Val
	depth int
}

type evalErr struct{ msg string }

func (e *Eval) fail(format string, a ...interface{}) {
	panic(evalErr{fmt.Sprintf(format, a...)})
}

func (e *Eval) sortOf(v Val) string {
	if v.Typ != nil {
		return e.x.sortOf(v.Typ)
	}
	return v.Sort
}

func (e *Eval) with(st *State) *Eval {
	c := *e
	c.st = st
	return &c
}

func (e *Eval) evalBool(n *Node) string {
	v := e.eval(n)
	if e.sortOf(v) != "Bool" {
		e.fail("boolean expected: %s", n)
	}
	return v.T
}

func (e *Eval) toReal(v Val) Val {
	if e.sortOf(v) == "Real" {
		return v
	}
	if e.sortOf(v) != "Int" {
		e.fail("numeric value expected, got sort %s", e.sortOf(v))
	}
	return Val{T: "(to_real " + v.T + ")", Sort: "Real"}
}

func (e *Eval) eval(n *Node) Val {
	x := e.x
	switch n.Op {
	case "num":
		return Val{T: n.Name, Sort: "Int"}
	case "real":
		return Val{T: n.Name, Sort: "Real"}
	case "str":
		return Val{T: x.strConst(n.Name), Typ: types.Typ[types.String]}
	case "hash":
		if v, ok := e.hash[n.Name]; ok {
			if strings.HasPrefix(v.T, "$iter:") {
				v.T = x.get(e.st, strings.TrimPrefix(v.T, "$iter:"))
			}
			return v
		}
		e.fail("#%s is not defined here", n.Name)
	case "ident":
		return e.ident(n.Name)
	case "unary":
		v := e.eval(n.Args[0])
		if n.Name == "!" {
			return Val{T: notTerm(v.T), Sort: "Bool"}
		}
		s := e.sortOf(v)
		if s != "Int" && s != "Real" {
			e.fail("numeric operand expected")
		}
		return Val{T: "(- " + v.T + ")", Sort: s}
	case "binary":
		return e.binary(n)
	case "cond":
		c := e.evalBool(n.Args[0])
		a, b := e.eval(n.Args[1]), e.eval(n.Args[2])
		if e.sortOf(a) != e.sortOf(b) {
			if e.sortOf(a) == "Real" || e.sortOf(b) == "Real" {
				a, b = e.toReal(a), e.toReal(b)
			} else {
				e.fail("branches of ?: differ in sort")
			}
		}
		r := a
		r.T = fmt.Sprintf("(ite %s %s %s)", c, a.T, b.T)
		r.Addr, r.Clo = nil, nil
		return r
	case "sel":
		return e.sel(n)
	case "index":
		return e.index(n)
	case "call":
		return e.call(n)
	case "forall", "exists":
		srt := n.Sort
		switch srt {
		case "int", "Int", "Z":
			srt = "Int"
		case "Real", "real":
			srt = "Real"
		case "Bool", "bool":
			srt = "Bool"
		case "Str", "string":
			srt = "Str"
		case "Iface":
			srt = "Iface"
		default:
			e.fail("unknown binder sort %s", srt)
		}
		c := *e
		c.bound = map[string]Val{}
		for k, v := range e.bound {
			c.bound[k] = v
		}
		x.n++
		bn := fmt.Sprintf("%s!%d", n.Name, x.n)
		bn = strings.ReplaceAll(bn, "!", "_q")
		bv := Val{T: bn, Sort: srt}
		if srt == "Str" {
			bv = Val{T: bn, Typ: types.Typ[types.String]}
		}
		if srt == "Iface" {
			bv = Val{T: bn, Typ: types.NewInterfaceType(nil, nil)}
		}
		c.bound[n.Name] = bv
		// definitions emitted while translating the body must not mention the bound variable: inline mode
		body := c.evalBool(n.Args[0])
		return Val{T: fmt.Sprintf("(%s ((%s %s)) %s)", n.Op, bn, srt, body), Sort: "Bool"}
	}
	e.fail("cannot evaluate %s", n)
	return Val{}
}

func (e *Eval) ident(name string) Val {
	x := e.x
	if v, ok := e.bound[name]; ok {
		return v
	}
	if v, ok := e.env[name]; ok {
		return v
	}
	switch name {
	case "true", "false":
		return Val{T: name, Sort: "Bool"}
	case "nil":
		return Val{T: "nil", Sort: "nil"}
	}
	if g, ok := x.db.Ghosts[name]; ok {
		key := "ghost:" + name
		x.regComp(key, g.Sort)
		return Val{T: x.get(e.st, key), Sort: g.Sort}
	}
	if e.pkg != nil {
		if v, ok := e.pkgMember(e.pkg, name); ok {
			return v
		}
	}
	e.fail("unknown name %q", name)
	return Val{}
}

func (e *Eval) pkgMember(p *ssa.Package, name string) (Val, bool) {
	x := e.x
	m := p.Members[name]
	switch m := m.(type) {
	case *ssa.NamedConst:
		return x.constVal(m.Value), true
	case *ssa.Global:
		t := m.Type().(*types.Pointer).Elem()
		if _, ok := structOf(t); ok {
			return Val{T: x.globalRef(m), Typ: m.Type()}, true
		}
		if x.isGuardMutex(m) {
			return Val{T: x.mutexTerm(m), Typ: t}, true
		}
		key := x.globalKey(m)
		gv := Val{T: x.get(e.st, key), Typ: t}
		// a package variable holds a well-formed value of its type (the same heap invariant the code's own loads assume)
		if len(e.bound) == 0 && !x.pureMode {
			switch t.Underlying().(type) {
			case *types.Pointer, *types.Slice, *types.Map, *types.Interface, *types.Basic:
				x.assume(e.st, x.wf(t, gv.T, e.st))
			}
		}
		return gv, true
	}
	// constants of unexported/exported names are also in the types scope
	if obj := p.Pkg.Scope().Lookup(name); obj != nil {
		if c, ok := obj.(*types.Const); ok {
			return x.constVal(ssa.NewConst(c.Val(), c.Type())), true
		}
	}
	return Val{}, false
}

func (x *Engine) globalRef(g *ssa.Global) string {
	n := "gref_" + mangle(shortPkg(g.Pkg.Pkg.Path())+"."+g.Name())
	if !x.declared[n] {
		x.declared[n] = true
		x.nGlobals++
		x.decls = append(x.decls, fmt.Sprintf("(define-fun %s () Int (- %d))", n, x.nGlobals*refStride))
	}
	return n
}

func (e *Eval) binary(n *Node) Val {
	op := n.Name
	switch op {
	case "&&", "||", "==>", "<==>":
		a, b := e.evalBool(n.Args[0]), e.evalBool(n.Args[1])
		m := map[string]string{"&&": "and", "||": "or", "==>": "=>", "<==>": "="}[op]
		return Val{T: fmt.Sprintf("(%s %s %s)", m, a, b), Sort: "Bool"}
	}
	a, b := e.eval(n.Args[0]), e.eval(n.Args[1])
	// nil adapts to the other side
	if a.Sort == "nil" && b.Sort == "nil" {
		e.fail("nil == nil")
	}
	if a.Sort == "nil" {
		a = e.nilOf(b)
	}
	if b.Sort == "nil" {
		b = e.nilOf(a)
	}
	sa, sb := e.sortOf(a), e.sortOf(b)
	if sa != sb {
		if (sa == "Real" || sa == "Int") && (sb == "Real" || sb == "Int") {
			a, b = e.toReal(a), e.toReal(b)
			sa, sb = "Real", "Real"
		} else {
			e.fail("operands of %s differ in sort (%s vs %s) in %s", op, sa, sb, n)
		}
	}
	switch op {
	case "==":
		return Val{T: fmt.Sprintf("(= %s %s)", a.T, b.T), Sort: "Bool"}
	case "!=":
		return Val{T: fmt.Sprintf("(not (= %s %s))", a.T, b.T), Sort: "Bool"}
	case "<", "<=", ">", ">=":
		if sa != "Int" && sa != "Real" {
			e.fail("ordering on sort %s", sa)
		}
		return Val{T: fmt.Sprintf("(%s %s %s)", op, a.T, b.T), Sort: "Bool"}
	case "+", "-", "*":
		if sa != "Int" && sa != "Real" {
			e.fail("arithmetic on sort %s", sa)
		}
		return Val{T: fmt.Sprintf("(%s %s %s)", op, a.T, b.T), Sort: sa}
	case "/":
		if sa == "Real" {
			return Val{T: fmt.Sprintf("(/ %s %s)", a.T, b.T), Sort: "Real"}
		}
		return Val{T: fmt.Sprintf("(tdiv %s %s)", a.T, b.T), Sort: "Int"}
	case "%":
		if sa != "Int" {
			e.fail("%% on sort %s", sa)
		}
		return Val{T: fmt.Sprintf("(tmod %s %s)", a.T, b.T), Sort: "Int"}
	}
	e.fail("operator %s", op)
	return Val{}
}

func (e *Eval) nilOf(o Val) Val {
	if o.Typ == nil {
		switch o.Sort {
		case "Int":
			return Val{T: "0", Sort: "Int"}
		case "Iface":
			return Val{T: "(mk_iface 0 0)", Sort: "Iface"}
		case "Slice":
			return Val{T: "(mk_slice 0 0 0)", Sort: "Slice"}
		}
		e.fail("nil compared with a non-reference")
	}
	return Val{T: e.x.zero(o.Typ), Typ: o.Typ}
}

func deref(t types.Type) (types.Type, bool) {
	if p, ok := t.Underlying().(*types.Pointer); ok {
		return p.Elem(), true
	}
	return t, false
}

// selField selects field path from a value (pointer or struct value).
func (x *Engine) selField(st *State, v Val, name string, fail func(string, ...interface{})) Val {
	t := v.Typ
	if t == nil {
		fail("selector .%s on a ghost value", name)
	}
	base, isPtr := deref(t)
	var pk *types.Package
	if n, ok := base.(*types.Named); ok {
		pk = n.Obj().Pkg()
	}
	obj, index, _ := types.LookupFieldOrMethod(t, true, pk, name)
	fld, ok := obj.(*types.Var)
	if !ok || fld == nil {
		// unexported field promoted from another package: search manually
		idx, f := findField(base, name, 0)
		if f == nil {
			fail("no field %s in %s", name, typeName(t))
		}
		index, fld = idx, f
	}
	cur := v
	curT := base
	for k, i := range index {
		stt, ok := structOf(curT)
		if !ok {
			fail("selector .%s: %s is not a struct", name, typeName(curT))
		}
		f := stt.Field(i)
		last := k == len(index)-1
		if isPtr {
			if _, inl := structOf(f.Type()); inl {
				cur = Val{T: x.embRef(curT, f, cur.T), Typ: types.NewPointer(f.Type())}
				curT = f.Type()
				isPtr = true
				if last {
					return cur
				}
				continue
			}
			key := x.fieldKey(curT, f)
			cur = Val{T: fmt.Sprintf("(select %s %s)", x.get(st, key), cur.T), Typ: f.Type(), Addr: &Addr{Kind: "field", Key: key, Ref: cur.T}}
		} else {
			s := x.sortOf(curT)
			cur = Val{T: fmt.Sprintf("(%s_%s %s)", s, mangle(f.Name()), cur.T), Typ: f.Type()}
		}
		if last {
			return cur
		}
		curT, isPtr = deref(f.Type())
		cur.Addr = nil
	}
	return cur
}

func findField(t types.Type, name string, depth int) ([]int, *types.Var) {
	st, ok := structOf(t)
	if !ok || depth > 4 {
		return nil, nil
	}
	for i := 0; i < st.NumFields(); i++ {
		if st.Field(i).Name() == name {
			return []int{i}, st.Field(i)
		}
	}
	for i := 0; i < st.NumFields(); i++ {
		f := st.Field(i)
		if f.Embedded() {
			ft, _ := deref(f.Type())
			if idx, ff := findField(ft, name, depth+1); ff != nil {
				return append([]int{i}, idx...), ff
			}
		}
	}
	return nil, nil
}

func (e *Eval) sel(n *Node) Val {
	// package qualifier?
	if n.Args[0].Op == "ident" {
		nm := n.Args[0].Name
		_, isBound := e.bound[nm]
		_, isEnv := e.env[nm]
		if !isBound && !isEnv && e.pkg != nil {
			if p := e.findPkg(nm); p != nil {
				if v, ok := e.pkgMember(p, n.Name); ok {
					return v
				}
				e.fail("no member %s in package %s", n.Name, nm)
			}
		}
	}
	v := e.eval(n.Args[0])
	r := e.x.selField(e.st, v, n.Name, e.fail)
	e.heapWf(r)
	return r
}

// heapWf: references read from the heap are allocated (global heap invariant); stated per read, outside binders.
func (e *Eval) heapWf(r Val) {
	if len(e.bound) > 0 || r.Typ == nil || strings.Contains(r.T, "dummy") {
		return
	}
	switch r.Typ.Underlying().(type) {
	case *types.Pointer, *types.Slice, *types.Map, *types.Interface, *types.Basic:
		if r.Addr != nil || strings.HasPrefix(r.T, "(select") {
			e.x.assume(e.st, e.x.wf(r.Typ, r.T, e.st))
		}
	}
}

// typeArg resolves a type name argument: T (current package) or pkg.T.
func (e *Eval) typeArg(a *Node) *ssa.Type {
	switch {
	case a.Op == "ident" && e.pkg != nil:
		tn, _ := e.pkg.Members[a.Name].(*ssa.Type)
		return tn
	case a.Op == "sel" && a.Args[0].Op == "ident":
		if p := e.findPkg(a.Args[0].Name); p != nil {
			tn, _ := p.Members[a.Name].(*ssa.Type)
			return tn
		}
	}
	return nil
}

func (e *Eval) findPkg(name string) *ssa.Package {
	if e.pkg == nil {
		return nil
	}
	if _, local := e.pkg.Members[name]; local {
		return nil
	}
	// `stat_base` names the imported package whose path ends in stat/base (two packages called `base` are imported
	// side by side in some files, under an alias the type checker does not keep)
	if strings.Contains(name, "_") {
		suffix := "/" + strings.ReplaceAll(name, "_", "/")
		for _, imp := range e.pkg.Pkg.Imports() {
			if strings.HasSuffix(imp.Path(), suffix) {
				return e.x.prog.Package(imp)
			}
		}
		for _, p := range e.x.prog.AllPackages() {
			if strings.HasSuffix(p.Pkg.Path(), suffix) && isRepoPkg(p.Pkg) {
				return p
			}
		}
	}
	for _, imp := range e.pkg.Pkg.Imports() {
		if imp.Name() == name {
			return e.x.prog.Package(imp)
		}
	}
	// any loaded package with that name
	for _, p := range e.x.prog.AllPackages() {
		if p.Pkg.Name() == name && isRepoPkg(p.Pkg) {
			return p
		}
	}
	return nil
}

func (e *Eval) index(n *Node) Val {
	x := e.x
	a := e.eval(n.Args[0])
	i := e.eval(n.Args[1])
	if a.Typ == nil {
		e.fail("index on ghost value")
	}
	switch u := a.Typ.Underlying().(type) {
	case *types.Slice:
		key := x.elemKey(u.Elem())
		if _, ok := structOf(u.Elem()); ok {
			return Val{T: x.elemRef(fmt.Sprintf("(s_base %s)", a.T), i.T), Typ: types.NewPointer(u.Elem())}
		}
		rv := Val{T: fmt.Sprintf("(select (select %s (s_base %s)) %s)", x.get(e.st, key), a.T, i.T), Typ: u.Elem()}
		e.heapWf(rv)
		return rv
	case *types.Map:
		return x.mapLookup(e.st, a, i)
	case *types.Array:
		rv := Val{T: fmt.Sprintf("(select %s %s)", a.T, i.T), Typ: u.Elem()}
		if a.Addr != nil && a.Addr.Idx == "" {
			// an element of an array held in a struct field: a location (onwrite / written / modifies)
			rv.Addr = &Addr{Kind: "elem", Key: a.Addr.Key, Ref: a.Addr.Ref, Idx: i.T}
		}
		return rv
	case *types.Pointer:
		if arr, ok := u.Elem().Underlying().(*types.Array); ok {
			key := x.elemKey(arr.Elem())
			return Val{T: fmt.Sprintf("(select (select %s %s) %s)", x.get(e.st, key), a.T, i.T), Typ: arr.Elem()}
		}
	}
	e.fail("cannot index %s", typeName(a.Typ))
	return Val{}
}

func (x *Engine) mapKeys(m *types.Map) (dom, val string) {
	ks, vs := x.sortOf(m.Key()), x.sortOf(m.Elem())
	dom = "MapDom:" + ks
	val = "MapVal:" + ks + ":" + vs
	x.regComp(dom, fmt.Sprintf("(Array Int (Array %s Bool))", ks))
	x.regComp(val, fmt.Sprintf("(Array Int (Array %s %s))", ks, vs))
	x.regComp("MapLen", "(Array Int Int)")
	return
}

func (x *Engine) mapLookup(st *State, m Val, k Val) Val {
	mt := m.Typ.Underlying().(*types.Map)
	dom, val := x.mapKeys(mt)
	in := fmt.Sprintf("(select (select %s %s) %s)", x.get(st, dom), m.T, k.T)
	v := fmt.Sprintf("(ite %s (select (select %s %s) %s) %s)", in, x.get(st, val), m.T, k.T, x.zero(mt.Elem()))
	return Val{T: v, Typ: mt.Elem()}
}

func (x *Engine) mapHas(st *State, m Val, k Val) string {
	mt := m.Typ.Underlying().(*types.Map)
	dom, _ := x.mapKeys(mt)
	return fmt.Sprintf("(select (select %s %s) %s)", x.get(st, dom), m.T, k.T)
}

var convNames = map[string]bool{"int": true, "int8": true, "int16": true, "int32": true, "int64": true, "uint": true, "uint8": true, "uint16": true, "uint32": true, "uint64": true, "Z": true}

func (e *Eval) call(n *Node) Val {
	x := e.x
	callee := n.Args[0]
	args := n.Args[1:]
	if callee.Op == "ident" {
		nm := callee.Name
		switch nm {
		case "old":
			if e.old == nil {
				e.fail("old() not available here")
			}
			c := e.with(e.old)
			if c.cur == nil {
				c.cur = e.st
			}
			return c.eval(args[0])
		case "now":
			// now(e) inside old(...): evaluate e in the current state
			if e.cur == nil {
				return e.eval(args[0])
			}
			c := e.with(e.cur)
			c.cur = nil
			return c.eval(args[0])
		case "len", "cap":
			v := e.eval(args[0])
			if v.Typ == nil && v.Sort == "Slice" {
				if nm == "cap" {
					return Val{T: "(s_cap " + v.T + ")", Sort: "Int"}
				}
				return Val{T: "(s_len " + v.T + ")", Sort: "Int"}
			}
			if v.Typ == nil {
				e.fail("len of ghost value")
			}
			switch u := v.Typ.Underlying().(type) {
			case *types.Slice:
				if nm == "cap" {
					return Val{T: "(s_cap " + v.T + ")", Sort: "Int"}
				}
				return Val{T: "(s_len " + v.T + ")", Sort: "Int"}
			case *types.Basic:
				return Val{T: "(strlen " + v.T + ")", Sort: "Int"}
			case *types.Map:
				x.mapKeys(u)
				return Val{T: fmt.Sprintf("(select %s %s)", x.get(e.st, "MapLen"), v.T), Sort: "Int"}
			}
			e.fail("len of %s", typeName(v.Typ))
		case "R", "float64":
			return e.toReal(e.eval(args[0]))
		case "floor":
			v := e.toReal(e.eval(args[0]))
			return Val{T: "(to_int " + v.T + ")", Sort: "Int"}
		case "ceil":
			v := e.toReal(e.eval(args[0]))
			return Val{T: "(- (to_int (- " + v.T + ")))", Sort: "Int"}
		case "trunc":
			v := e.toReal(e.eval(args[0]))
			return Val{T: fmt.Sprintf("(ite (>= %s 0.0) (to_int %s) (- (to_int (- %s))))", v.T, v.T, v.T), Sort: "Int"}
		case "abs":
			v := e.eval(args[0])
			z := "0"
			if e.sortOf(v) == "Real" {
				z = "0.0"
			}
			return Val{T: fmt.Sprintf("(ite (>= %s %s) %s (- %s))", v.T, z, v.T, v.T), Sort: e.sortOf(v)}
		case "min", "max":
			a, b := e.eval(args[0]), e.eval(args[1])
			if e.sortOf(a) != e.sortOf(b) {
				a, b = e.toReal(a), e.toReal(b)
			}
			op := "<="
			if nm == "max" {
				op = ">="
			}
			return Val{T: fmt.Sprintf("(ite (%s %s %s) %s %s)", op, a.T, b.T, a.T, b.T), Sort: e.sortOf(a)}
		case "fresh":
			v := e.eval(args[0])
			if e.old == nil {
				e.fail("fresh() needs a pre-state")
			}
			return Val{T: fmt.Sprintf("(>= %s %s)", v.T, x.get(e.old, "$alloc")), Sort: "Bool"}
		case "frame":
			// frame(): every heap component agrees with the pre-state on objects allocated before the call
			if e.old == nil {
				e.fail("frame() needs a pre-state")
			}
			except := map[string][]string{}
			for _, a := range args {
				if a.Op == "call" && a.Args[0].Op == "ident" && a.Args[0].Name == "all" && len(a.Args) == 2 && e.pkg != nil {
					if k, ok := x.allFieldKey(e.pkg, a.Args[1]); ok {
						except[k] = append(except[k], "*")
						continue
					}
				}
				if a.Op == "call" && a.Args[0].Op == "ident" && a.Args[0].Name == "mapof" && len(a.Args) == 2 {
					// frame(mapof(m)): everything but the content of the map object m
					mv := e.eval(a.Args[1])
					if mv.Typ != nil {
						if mt, ok := mv.Typ.Underlying().(*types.Map); ok {
							dom, val := x.mapKeys(mt)
							for _, k := range []string{dom, val, "MapLen"} {
								except[k] = append(except[k], mv.T)
							}
							continue
						}
					}
					e.fail("frame(mapof(m)): %s is not a map", a.Args[1])
				}
				v := e.eval(a)
				if v.Addr == nil {
					e.fail("frame(): %s is not a location", a)
				}
				except[v.Addr.Key] = append(except[v.Addr.Key], v.Addr.Ref)
			}
			return Val{T: x.frameTerm(e.st, e.old, except), Sort: "Bool"}
		case "allocated":
			v := e.eval(args[0])
			if v.Typ != nil {
				return Val{T: x.wf(v.Typ, v.T, e.st), Sort: "Bool"}
			}
			return Val{T: fmt.Sprintf("(< %s %s)", v.T, x.get(e.st, "$alloc")), Sort: "Bool"}
		case "has":
			m, k := e.eval(args[0]), e.eval(args[1])
			return Val{T: x.mapHas(e.st, m, k), Sort: "Bool"}
		case "sel":
			a, i := e.eval(args[0]), e.eval(args[1])
			srt := e.sortOf(a)
			if !strings.HasPrefix(srt, "(Array ") {
				e.fail("sel on non-array sort %s", srt)
			}
			return Val{T: fmt.Sprintf("(select %s %s)", a.T, i.T), Sort: arrayElemSort(srt)}
		case "upd":
			a, i, v := e.eval(args[0]), e.eval(args[1]), e.eval(args[2])
			if v.Sort == "nil" {
				v = Val{T: "0", Sort: "Int"}
			}
			return Val{T: fmt.Sprintf("(store %s %s %s)", a.T, i.T, v.T), Sort: e.sortOf(a)}
		case "pooltype":
			// pooltype(p, "T"): the objects held by sync.Pool p have dynamic type T
			v := e.eval(args[0])
			if args[1].Op != "str" {
				e.fail("pooltype(pool, \"type string\")")
			}
			x.declRaw("fun:pool_tag", "(declare-fun pool_tag (Int) Int)")
			return Val{T: fmt.Sprintf("(= (pool_tag %s) %d)", v.T, x.tagOfName(args[1].Name)), Sort: "Bool"}
		case "asiface":
			// asiface(v): the interface value holding v (as MakeInterface builds it)
			v := e.eval(args[0])
			if v.Typ == nil {
				e.fail("asiface of ghost value")
			}
			tag := x.tagOf(v.Typ)
			payload := v.T
			if s := x.sortOf(v.Typ); s != "Int" {
				x.declBox(s)
				payload = fmt.Sprintf("(box_%s %s)", mangle(s), v.T)
			}
			return Val{T: fmt.Sprintf("(mk_iface %d %s)", tag, payload), Typ: types.NewInterfaceType(nil, nil)}
		case "cell":
			// cell(p): the int64 cell at reference p (a location)
			v := e.eval(args[0])
			key := x.memKey(types.Typ[types.Int64])
			return Val{T: fmt.Sprintf("(select %s %s)", x.get(e.st, key), v.T), Typ: types.Typ[types.Int64], Addr: &Addr{Kind: "cell", Key: key, Ref: v.T}}
		case "lockframe":
			// lockframe(): this thread holds exactly the locks it held at entry
			if e.old == nil {
				e.fail("lockframe() needs a pre-state")
			}
			var cs []string
			for _, key := range []string{"Lock:w", "Lock:r"} {
				x.regComp(key, "(Array Int Int)")
				cs = append(cs, fmt.Sprintf("(= %s %s)", x.get(e.st, key), x.get(e.old, key)))
			}
			return Val{T: "(and " + strings.Join(cs, " ") + ")", Sort: "Bool"}
		case "wlockcount", "rlockcount":
			// number of times this thread holds the write / read side of the mutex at this address (a location)
			v := e.eval(args[0])
			key := "Lock:w"
			if nm == "rlockcount" {
				key = "Lock:r"
			}
			x.regComp(key, "(Array Int Int)")
			return Val{T: fmt.Sprintf("(select %s %s)", x.get(e.st, key), v.T), Sort: "Int", Addr: &Addr{Kind: "cell", Key: key, Ref: v.T}}
		case "panicked":
			// panicked(): inside an always clause of an assumed contract — the call ended in a panic
			v, ok := e.env["$panicked"]
			if !ok {
				e.fail("panicked() is only meaningful in an always clause of an assumed contract")
			}
			return v
		case "deepequal":
			// deepequal(a, b): reflect.DeepEqual on interface values (uninterpreted, reflexive)
			a, b := e.eval(args[0]), e.eval(args[1])
			x.declRaw("fun:deq", "(declare-fun deq (Iface Iface) Bool)")
			return Val{T: fmt.Sprintf("(or (= %s %s) (deq %s %s))", a.T, b.T, a.T, b.T), Sort: "Bool"}
		case "oncedone":
			// oncedone(o): the sync.Once at address o has run
			v := e.eval(args[0])
			x.regComp("Once:done", "(Array Int Bool)")
			return Val{T: fmt.Sprintf("(select %s %s)", x.get(e.st, "Once:done"), v.T), Sort: "Bool", Addr: &Addr{Kind: "cell", Key: "Once:done", Ref: v.T}}
		case "written":
			// written(loc): this call has stored to the shared location loc (thread-modular mode only)
			v := e.eval(args[0])
			if v.Addr == nil {
				e.fail("written: not a location")
			}
			k := wrKey(v.Addr.Key)
			if _, ok := x.compSort[k]; !ok {
				e.fail("written(%s): only for a location declared shared", args[0])
			}
			idx := "0"
			if v.Addr.Idx != "" {
				idx = v.Addr.Idx
			}
			return Val{T: fmt.Sprintf("(select (select %s %s) %s)", x.get(e.st, k), v.Addr.Ref, idx), Sort: "Bool"}
		case "firstload":
			// firstload(loc): the value returned by this call's first atomic load of loc
			v := e.eval(args[0])
			if v.Addr == nil {
				e.fail("firstload: not a location")
			}
			for _, ev := range x.atomics {
				if ev.kind == "load" && ev.addr.Key == v.Addr.Key {
					return Val{T: ev.old, Sort: "Int"}
				}
			}
			e.fail("firstload: the function performs no atomic load of %s", args[0])
		case "wrote":
			// wrote(loc, prev, new): some atomic write of this call changed loc from prev to new
			v := e.eval(args[0])
			if v.Addr == nil {
				e.fail("wrote: not a location")
			}
			pv, nv := e.eval(args[1]), e.eval(args[2])
			var ds []string
			for _, ev := range x.atomics {
				if ev.addr.Key != v.Addr.Key || ev.kind == "load" {
					continue
				}
				cond := "true"
				if strings.HasPrefix(ev.kind, "cas:") {
					cond = strings.TrimPrefix(ev.kind, "cas:")
				}
				ds = append(ds, fmt.Sprintf("(and %s %s (= %s %s) (= %s %s) (= %s %s))", ev.live, cond, ev.addr.Ref, v.Addr.Ref, ev.old, pv.T, ev.new, nv.T))
			}
			return Val{T: orTerms(ds), Sort: "Bool"}
		case "deref":
			// deref(p): the value a pointer to a scalar points to (a location, usable in modifies)
			v := e.eval(args[0])
			if v.Typ == nil {
				e.fail("deref of ghost value")
			}
			pt, ok := v.Typ.Underlying().(*types.Pointer)
			if !ok {
				e.fail("deref of non-pointer %s", typeName(v.Typ))
			}
			if _, isS := structOf(pt.Elem()); isS {
				e.fail("deref of struct pointer: select fields instead")
			}
			key := x.memKey(pt.Elem())
			return Val{T: fmt.Sprintf("(select %s %s)", x.get(e.st, key), v.T), Typ: pt.Elem(), Addr: &Addr{Kind: "cell", Key: key, Ref: v.T}}
		case "ptrslice", "valslice":
			// ptrslice(g, T): view a ghost slice value as []*T; valslice(g, T): as []T (T or pkg.T)
			v := e.eval(args[0])
			tn := e.typeArg(args[1])
			if tn == nil {
				e.fail("%s: unknown type %s", nm, args[1])
			}
			if nm == "valslice" {
				return Val{T: v.T, Typ: types.NewSlice(tn.Type())}
			}
			return Val{T: v.T, Typ: types.NewSlice(types.NewPointer(tn.Type()))}
		case "stored":
			// stored(v): the value held by an atomic.Value (argument: address of the atomic.Value)
			v := e.eval(args[0])
			x.regComp("AtomicValue", "(Array Int Iface)")
			return Val{T: fmt.Sprintf("(select %s %s)", x.get(e.st, "AtomicValue"), v.T), Typ: types.NewInterfaceType(nil, nil)}
		case "cast":
			// cast(ref, TypeName): view an object reference as *TypeName
			v := e.eval(args[0])
			var tn *ssa.Type
			switch {
			case args[1].Op == "ident" && e.pkg != nil:
				tn, _ = e.pkg.Members[args[1].Name].(*ssa.Type)
			case args[1].Op == "sel" && args[1].Args[0].Op == "ident":
				if p := e.findPkg(args[1].Args[0].Name); p != nil {
					tn, _ = p.Members[args[1].Name].(*ssa.Type)
				}
			}
			if tn == nil {
				e.fail("cast: unknown type %s", args[1])
			}
			return Val{T: v.T, Typ: types.NewPointer(tn.Type())}
		case "tag":
			v := e.eval(args[0])
			return Val{T: "(i_tag " + v.T + ")", Sort: "Int"}
		case "dynptr":
			v := e.eval(args[0])
			return Val{T: "(i_val " + v.T + ")", Sort: "Int"}
		case "typeis":
			// typeis(v, "*flow.Rule")
			v := e.eval(args[0])
			if args[1].Op != "str" {
				e.fail("typeis(v, \"type string\")")
			}
			return Val{T: fmt.Sprintf("(= (i_tag %s) %d)", v.T, x.tagOfName(args[1].Name)), Sort: "Bool"}
		case "unboxReal":
			v := e.eval(args[0])
			x.declBox("Real")
			return Val{T: "(unbox_Real (i_val " + v.T + "))", Sort: "Real"}
		case "unboxslice":
			// unboxslice(i): the slice held by interface value i
			v := e.eval(args[0])
			x.declBox("Slice")
			return Val{T: "(unbox_Slice (i_val " + v.T + "))", Sort: "Slice"}
		case "unboxInt":
			v := e.eval(args[0])
			return Val{T: "(i_val " + v.T + ")", Sort: "Int"}
		case "base":
			v := e.eval(args[0])
			return Val{T: "(s_base " + v.T + ")", Sort: "Int"}
		case "ref":
			v := e.eval(args[0])
			return Val{T: v.T, Sort: "Int"}
		}
		if convNames[nm] {
			v := e.eval(args[0])
			if e.sortOf(v) == "Real" {
				return Val{T: fmt.Sprintf("(ite (>= %s 0.0) (to_int %s) (- (to_int (- %s))))", v.T, v.T, v.T), Sort: "Int"}
			}
			return Val{T: v.T, Sort: "Int"}
		}
		if nm == "seqof" {
			// seqof(j, expr): the sequence g with g[j] == expr for every integer j
			if len(e.bound) > 0 || args[0].Op != "ident" {
				e.fail("seqof(j, expr) must not appear under a quantifier")
			}
			c := *e
			c.bound = map[string]Val{}
			x.n++
			bn := fmt.Sprintf("%s_q%d", args[0].Name, x.n)
			c.bound[args[0].Name] = Val{T: bn, Sort: "Int"}
			body := c.eval(args[1])
			bs := c.sortOf(body)
			g := x.fresh("seq")
			x.decl(g, "(Array Int "+bs+")")
			x.emit(fmt.Sprintf("(assert (forall ((%s Int)) (= (select %s %s) %s)))", bn, g, bn, body.T))
			return Val{T: g, Sort: "(Array Int " + bs + ")"}
		}
		if sf, ok := e.lookupSF(nm); ok && sf.Rec {
			var as []string
			for i, a := range args {
				v := e.eval(a)
				if sf.Sorts[i] == "Real" {
					v = e.toReal(v)
				}
				as = append(as, v.T)
			}
			x.declRec(sf, e)
			return Val{T: fmt.Sprintf("(%s %s)", sf.Name, strings.Join(as, " ")), Sort: sf.Ret}
		}
		if v, ok := e.env[nm]; ok && v.Typ != nil {
			// application of a function-typed value with a pure callback contract
			if n, ok := v.Typ.(*types.Named); ok && n.Obj().Pkg() != nil {
				key := n.Obj().Pkg().Path() + "." + n.Obj().Name() + ".call"
				if fs := x.db.Funcs[key]; fs != nil && fs.Pure {
					var as []Val
					for _, a := range args {
						as = append(as, e.eval(a))
					}
					return x.pureApp(e.st, key, n.Underlying().(*types.Signature), Val{T: v.T, Typ: types.Typ[types.Int]}, as)
				}
			}
		}
		if sf, ok := e.lookupSF(nm); ok {
			if len(args) != len(sf.Params) {
				e.fail("spec func %s expects %d arguments", nm, len(sf.Params))
			}
			if e.depth > 20 {
				e.fail("spec func recursion too deep")
			}
			c := *e
			c.depth++
			c.env = map[string]Val{}
			for i, p := range sf.Params {
				c.env[p] = e.eval(args[i])
			}
			// parameters shadow quantified variables of the caller with the same name
			nb := map[string]Val{}
			for k, v := range e.bound {
				nb[k] = v
			}
			for _, p := range sf.Params {
				if v, ok := nb[p]; ok {
					// still inside the caller's quantifier (no definition or well-formedness fact may be emitted at top
					// level from here: it could mention the bound variable), only the name is shadowed
					delete(nb, p)
					nb["$shadowed:"+p] = v
				}
			}
			c.bound = nb
			c.hash = e.hash
			c.pkg = e.pkgOf(sf.Pkg)
			return c.eval(sf.Body)
		}
		if uf, ok := x.db.UFuncs[nm]; ok {
			var as []string
			for i, a := range args {
				v := e.eval(a)
				if uf.Sorts[i] == "Real" {
					v = e.toReal(v)
				}
				as = append(as, v.T)
			}
			x.declRaw("ufun:"+nm, fmt.Sprintf("(declare-fun %s (%s) %s)", nm, strings.Join(uf.Sorts, " "), uf.Ret))
			if len(as) == 0 {
				return Val{T: nm, Sort: uf.Ret}
			}
			return Val{T: fmt.Sprintf("(%s %s)", nm, strings.Join(as, " ")), Sort: uf.Ret}
		}
		e.fail("unknown function %s", nm)
	}
	if callee.Op == "sel" && callee.Args[0].Op == "ident" {
		nm := callee.Args[0].Name
		_, isBound := e.bound[nm]
		_, isEnv := e.env[nm]
		if !isBound && !isEnv {
			if p := e.findPkg(nm); p != nil {
				key := p.Pkg.Path() + "." + callee.Name
				fs := x.db.Funcs[key]
				fn := x.fnByKey[key]
				if fs == nil || !fs.Pure || fn == nil {
					e.fail("function %s has no pure contract", key)
				}
				var as []Val
				for _, a := range args {
					as = append(as, e.eval(a))
				}
				return x.pureApp(e.st, key, fn.Signature, Val{T: "0", Typ: types.Typ[types.Int]}, as)
			}
		}
	}
	if callee.Op == "sel" {
		// pure method application recv.M(args)
		recv := e.eval(callee.Args[0])
		if recv.Typ == nil {
			e.fail("method call on ghost value")
		}
		key, sig := x.methodKey(recv.Typ, callee.Name)
		if key == "" {
			e.fail("no method %s on %s", callee.Name, typeName(recv.Typ))
		}
		// a method promoted from an embedded struct is applied to the embedded object
		if _, isI := recv.Typ.Underlying().(*types.Interface); !isI {
			base, _ := deref(recv.Typ)
			var pk *types.Package
			if n, ok := base.(*types.Named); ok {
				pk = n.Obj().Pkg()
			}
			if _, index, _ := types.LookupFieldOrMethod(recv.Typ, true, pk, callee.Name); len(index) > 1 {
				cur, curT := recv, base
				for _, i := range index[:len(index)-1] {
					stt, _ := structOf(curT)
					f := stt.Field(i)
					cur = x.selField(e.st, cur, f.Name(), e.fail)
					curT, _ = deref(f.Type())
				}
				recv = cur
			}
		}
		fs := x.db.Funcs[key]
		if fs == nil || !fs.Pure {
			e.fail("method %s has no pure contract (key %s)", callee.Name, key)
		}
		var as []Val
		for _, a := range args {
			as = append(as, e.eval(a))
		}
		return x.pureApp(e.st, key, sig, recv, as)
	}
	e.fail("cannot call %s", callee)
	return Val{}
}

func (e *Eval) pkgOf(path string) *ssa.Package {
	for _, p := range e.x.prog.AllPackages() {
		if p.Pkg.Path() == path {
			return p
		}
	}
	return e.pkg
}

// methodKey returns the contract key for method name on static type t.
func (x *Engine) methodKey(t types.Type, name string) (string, *types.Signature) {
	base, _ := deref(t)
	var pk *types.Package
	if n, ok := base.(*types.Named); ok {
		pk = n.Obj().Pkg()
	}
	obj, _, _ := types.LookupFieldOrMethod(t, true, pk, name)
	fn, ok := obj.(*types.Func)
	if !ok {
		return "", nil
	}
	sig := fn.Type().(*types.Signature)
	if _, isI := t.Underlying().(*types.Interface); isI {
		return x.ifaceKey(t, fn), sig
	}
	rt := sig.Recv().Type()
	if p, ok := rt.(*types.Pointer); ok {
		n := p.Elem().(*types.Named)
		return fmt.Sprintf("(*%s.%s).%s", n.Obj().Pkg().Path(), n.Obj().Name(), name), sig
	}
	if n, ok := rt.(*types.Named); ok {
		return fmt.Sprintf("(%s.%s).%s", n.Obj().Pkg().Path(), n.Obj().Name(), name), sig
	}
	return "", nil
}

// ifaceKey: contract key of an interface method: declared-on type first, then the static type.
func (x *Engine) ifaceKey(static types.Type, fn *types.Func) string {
	var cands []string
	if n, ok := static.(*types.Named); ok && n.Obj().Pkg() != nil {
		cands = append(cands, n.Obj().Pkg().Path()+"."+n.Obj().Name()+"."+fn.Name())
	}
	if r := fn.Type().(*types.Signature).Recv(); r != nil {
		if n, ok := r.Type().(*types.Named); ok && n.Obj().Pkg() != nil {
			cands = append(cands, n.Obj().Pkg().Path()+"."+n.Obj().Name()+"."+fn.Name())
		}
	}
	for _, c := range cands {
		if _, ok := x.db.Funcs[c]; ok {
			return c
		}
	}
	if len(cands) > 0 {
		return cands[0]
	}
	return "iface." + fn.Name()
}

// pureApp: value of a pure method as an uninterpreted function of (epoch, receiver, args).
func (x *Engine) pureApp(st *State, key string, sig *types.Signature, recv Val, args []Val) Val {
	fname := "pure_" + mangle(shortPkg(key))
	rt := sig.Results().At(0).Type()
	sorts := []string{"Int", x.sortOf(recv.Typ)}
	terms := []string{x.get(st, "$epoch"), recv.T}
	if fs := x.db.Funcs[key]; fs != nil && fs.Stable {
		terms[0] = "0"
	}
	for i, a := range args {
		pt := sig.Params().At(i).Type()
		sorts = append(sorts, x.sortOf(pt))
		terms = append(terms, a.T)
	}
	x.declRaw("fun:"+fname, fmt.Sprintf("(declare-fun %s (%s) %s)", fname, strings.Join(sorts, " "), x.sortOf(rt)))
	t := fmt.Sprintf("(%s %s)", fname, strings.Join(terms, " "))
	return Val{T: t, Typ: rt}
}

func (x *Engine) tagOf(t types.Type) int {
	return x.tagOfName(typeName(t))
}

func (x *Engine) tagOfName(s string) int {
	if x.typeTags == nil {
		x.typeTags = map[string]int{}
	}
	if id, ok := x.typeTags[s]; ok {
		return id
	}
	id := len(x.typeTags) + 1
	x.typeTags[s] = id
	x.tagList = append(x.tagList, s)
	return id
}

func (x *Engine) declBox(sort string) {
	s := mangle(sort)
	x.declRaw("box:"+s, fmt.Sprintf("(declare-fun box_%s (%s) Int)\n(declare-fun unbox_%s (Int) %s)", s, sort, s, sort))
}

var _ = constant.MakeBool

// frameTerm: all heap components of st agree with old on references allocated in old.
func (x *Engine) frameTerm(st, old *State, except map[string][]string) string {
	var keys []string
	for k := range x.compSort {
		keys = append(keys, k)
	}
	sortStrings(keys)
	a0 := x.get(old, "$alloc")
	var cs []string
	for _, k := range keys {
		if strings.HasPrefix(k, "$") || strings.HasPrefix(k, "ghost:clock") || strings.HasPrefix(k, "Once:") || strings.HasPrefix(k, "Iter:") || strings.HasPrefix(k, "Lock:") {
			continue
		}
		fin, ini := x.get(st, k), x.get(old, k)
		if fin == ini {
			continue
		}
		whole := false
		for _, ex := range except[k] {
			if ex == "*" {
				whole = true
			}
		}
		if whole || strings.HasPrefix(k, "ghost:") {
			continue // ghost state is not heap; wholly excepted components are free
		}
		switch {
		case strings.HasPrefix(k, "G:"):
			cs = append(cs, fmt.Sprintf("(= %s %s)", fin, ini))
		default:
			guard := fmt.Sprintf("(< r %s)", a0)
			for _, ex := range except[k] {
				guard = fmt.Sprintf("(and %s (not (= r %s)))", guard, ex)
			}
			cs = append(cs, fmt.Sprintf("(forall ((r Int)) (=> %s (= (select %s r) (select %s r))))", guard, fin, ini))
		}
	}
	return andTerms(cs...)
}

func sortStrings(s []string) { sort.Strings(s) }

// arrayElemSort: "(Array Int X)" → X
func arrayElemSort(s string) string {
	s = strings.TrimPrefix(s, "(Array ")
	// skip the index sort
	d := 0
	for i, c := range s {
		if c == '(' {
			d++
		} else if c == ')' {
			d--
		} else if c == ' ' && d == 0 {
			return strings.TrimSuffix(s[i+1:], ")")
		}
	}
	return s
}

// declRec emits the define-fun-rec of a recursive spec function (once).
func (x *Engine) declRec(sf *SpecFunc, e *Eval) {
	if x.declared["rec:"+sf.Name] {
		return
	}
	x.declared["rec:"+sf.Name] = true
	c := &Eval{x: x, st: e.st, old: e.old, env: map[string]Val{}, pkg: e.pkgOf(sf.Pkg), bound: map[string]Val{}}
	var ps []string
	for i, p := range sf.Params {
		c.bound[p] = Val{T: p + "_r", Sort: sf.Sorts[i]}
		ps = append(ps, fmt.Sprintf("(%s_r %s)", p, sf.Sorts[i]))
	}
	body := c.eval(sf.Body)
	x.decls = append(x.decls, fmt.Sprintf("(define-fun-rec %s (%s) %s %s)", sf.Name, strings.Join(ps, " "), sf.Ret, body.T))
}

// lookupSF: spec functions are scoped by package (same name may be defined per package), falling back to the
// prelude / first definition.
func (e *Eval) lookupSF(name string) (*SpecFunc, bool) {
	if e.pkg != nil {
		if sf, ok := e.x.db.SFuncs[e.pkg.Pkg.Path()+"\x00"+name]; ok {
			return sf, true
		}
	}
	sf, ok := e.x.db.SFuncs[name]
	return sf, ok
}
