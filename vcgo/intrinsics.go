package main

import (
	"fmt"
	"go/types"
	"strings"

	"golang.org/x/tools/go/ssa"
)

const repoPfx = "github.com/alibaba/sentinel-golang/"

// intrinsicEffect classifies the side effects of modelled external functions for loop frames.
func intrinsicEffect(name string) (string, bool) {
	switch {
	case strings.HasPrefix(name, "sync/atomic.Load"), strings.HasPrefix(name, "(*sync/atomic.Value).Load"):
		return "none", true
	case name == "(*sync/atomic.Value).Store":
		return "atomicvalue", true
	case strings.HasPrefix(name, "sync/atomic.Store"), strings.HasPrefix(name, "sync/atomic.Add"),
		strings.HasPrefix(name, "sync/atomic.CompareAndSwap"), strings.HasPrefix(name, "sync/atomic.Swap"):
		return "arg0", true
	case strings.HasPrefix(name, "(*sync.Mutex)."), strings.HasPrefix(name, "(*sync.RWMutex)."):
		return "lock", true
	case strings.HasPrefix(name, repoPfx+"logging."), strings.HasPrefix(name, "math."), strings.HasPrefix(name, "runtime.Gosched"),
		strings.HasPrefix(name, "strings."), strings.HasPrefix(name, "strconv."),
		strings.HasPrefix(name, "reflect."), name == "(time.Duration).Nanoseconds", name == "(time.Duration).Milliseconds":
		return "none", true
	case strings.HasPrefix(name, "fmt.Sprint"), strings.HasPrefix(name, "fmt.Errorf"), strings.HasPrefix(name, "errors.New"),
		strings.HasPrefix(name, "github.com/pkg/errors."):
		return "alloc", true
	case name == repoPfx+"util.CurrentTimeMillis", name == repoPfx+"util.CurrentTimeNano":
		return "clock", true
	case name == "time.Sleep", name == repoPfx+"util.Sleep":
		return "sleep", true
	}
	return "", false
}

func (x *Engine) atomicAddr(fr *Frame, st *State, p Val, pos string) *Addr {
	if p.Addr != nil {
		return p.Addr
	}
	et := ptrElem(p.Typ)
	if strings.HasPrefix(p.T, "(faddr") {
		x.degrade("atomic access through a field address that lost its descriptor at " + pos)
	}
	return &Addr{Kind: "cell", Key: x.memKey(et), Ref: p.T}
}

// interfere models other threads in concurrent mode: shared locations may change before every atomic access.
func (x *Engine) interfere(fr *Frame, st *State, a *Addr) {
	if !x.conc {
		return
	}
	x.concHavoc(fr, st, a)
}

func (x *Engine) intrinsic(fr *Frame, st *State, name string, callee *ssa.Function, args []Val, sig *types.Signature, pos string) (Val, bool) {
	rt := func() types.Type { return sig.Results().At(0).Type() }
	switch {
	case name == "(*sync/atomic.Value).Load":
		x.regComp("AtomicValue", "(Array Int Iface)")
		v := Val{T: x.name("av", "Iface", fmt.Sprintf("(select %s %s)", x.get(st, "AtomicValue"), args[0].T)), Typ: rt()}
		x.assume(st, x.wf(rt(), v.T, st))
		return v, true
	case name == "(*sync/atomic.Value).Store":
		x.regComp("AtomicValue", "(Array Int Iface)")
		x.set(st, "AtomicValue", fmt.Sprintf("(store %s %s %s)", x.get(st, "AtomicValue"), args[0].T, args[1].T))
		if !args[0].Fresh {
			x.bumpEpoch(st)
		}
		return Val{}, true
	case strings.HasPrefix(name, "sync/atomic.Load"):
		a := x.atomicAddr(fr, st, args[0], pos)
		x.interfere(fr, st, a)
		v := Val{T: x.name("at", x.sortOf(rt()), x.loadAddr(st, a)), Typ: rt()}
		x.assume(st, x.wf(rt(), v.T, st))
		x.atomicEvent(fr, st, "load", a, v.T, "", pos)
		return v, true
	case strings.HasPrefix(name, "sync/atomic.Store"):
		a := x.atomicAddr(fr, st, args[0], pos)
		x.interfere(fr, st, a)
		old := x.loadAddr(st, a)
		x.storeAddr(st, a, args[1].T)
		if !args[0].Fresh {
			x.bumpEpoch(st)
		}
		x.atomicEvent(fr, st, "store", a, old, args[1].T, pos)
		x.markWritten(st, a, "true")
		if x.onWrite != nil {
			x.onWrite(st, a, x.name("pv", "Int", old), args[1].T, "true", pos)
		}
		return Val{}, true
	case strings.HasPrefix(name, "sync/atomic.Add"):
		a := x.atomicAddr(fr, st, args[0], pos)
		x.interfere(fr, st, a)
		old := x.name("ao", "Int", x.loadAddr(st, a))
		x.assume(st, x.wf(rt(), old, st))
		nv := x.name("an", "Int", wrapTerm(rt(), fmt.Sprintf("(+ %s %s)", old, args[1].T)))
		x.storeAddr(st, a, nv)
		if !args[0].Fresh {
			x.bumpEpoch(st)
		}
		x.atomicEvent(fr, st, "add", a, old, nv, pos)
		x.markWritten(st, a, "true")
		if x.onWrite != nil {
			x.onWrite(st, a, old, nv, "true", pos)
		}
		return Val{T: nv, Typ: rt()}, true
	case strings.HasPrefix(name, "sync/atomic.CompareAndSwap"):
		a := x.atomicAddr(fr, st, args[0], pos)
		x.interfere(fr, st, a)
		cur := x.name("ac", x.sortOf(args[1].Typ), x.loadAddr(st, a))
		x.assume(st, x.wf(args[1].Typ, cur, st))
		ok := x.name("cas", "Bool", fmt.Sprintf("(= %s %s)", cur, args[1].T))
		x.storeAddr(st, a, fmt.Sprintf("(ite %s %s %s)", ok, args[2].T, cur))
		if !args[0].Fresh {
			x.bumpEpoch(st)
		}
		x.atomicEvent(fr, st, "cas:"+ok, a, cur, args[2].T, pos)
		x.markWritten(st, a, ok)
		if x.onWrite != nil {
			x.onWrite(st, a, cur, args[2].T, ok, pos)
		}
		return Val{T: ok, Typ: types.Typ[types.Bool]}, true
	case strings.HasPrefix(name, "sync/atomic.Swap"):
		a := x.atomicAddr(fr, st, args[0], pos)
		x.interfere(fr, st, a)
		old := x.name("ao", x.sortOf(rt()), x.loadAddr(st, a))
		x.storeAddr(st, a, args[1].T)
		x.markWritten(st, a, "true")
		x.bumpEpoch(st)
		return Val{T: old, Typ: rt()}, true
	case strings.HasPrefix(name, "(*sync.Mutex)."), strings.HasPrefix(name, "(*sync.RWMutex)."):
		x.lockEvent(fr, st, name, args[0], pos)
		// locks held by this thread: per mutex address, a write count and a read count
		op := name[strings.LastIndex(name, ".")+1:]
		bump := func(key string, d int) {
			x.regComp(key, "(Array Int Int)")
			cur := x.get(st, key)
			st.h[key] = x.name("lk", "(Array Int Int)", fmt.Sprintf("(store %s %s (%s (select %s %s) 1))", cur, args[0].T, map[int]string{1: "+", -1: "-"}[d], cur, args[0].T))
		}
		if (op == "Lock" || op == "RLock") && len(x.guards) > 0 && strings.HasPrefix(args[0].T, "gmux_") {
			x.lockAcquireChecks(fr, st, args[0].T, op, pos)
			x.guardInterference(st, args[0].T)
		}
		switch op {
		case "Lock":
			bump("Lock:w", 1)
		case "Unlock":
			bump("Lock:w", -1)
		case "RLock":
			bump("Lock:r", 1)
		case "RUnlock":
			bump("Lock:r", -1)
		}
		if sig.Results().Len() == 1 { // TryLock / TryRLock
			ok := x.freshVal("trylock", rt(), st)
			x.regComp("Lock:w", "(Array Int Int)")
			x.regComp("Lock:r", "(Array Int Int)")
			key := "Lock:w"
			if op == "TryRLock" {
				key = "Lock:r"
			}
			cur := x.get(st, key)
			st.h[key] = x.name("lk", "(Array Int Int)", fmt.Sprintf("(store %s %s (+ (select %s %s) (ite %s 1 0)))", cur, args[0].T, cur, args[0].T, ok.T))
			return ok, true
		}
		return Val{}, true
	case name == "(*sync.Once).Do":
		key := "Once:done"
		x.regComp(key, "(Array Int Bool)")
		done := x.name("once", "Bool", fmt.Sprintf("(select %s %s)", x.get(st, key), args[0].T))
		run := st.clone()
		run.live = x.name("live", "Bool", andTerms(st.live, notTerm(done)))
		x.set(run, key, fmt.Sprintf("(store %s %s true)", x.get(run, key), args[0].T))
		skip := st.clone()
		skip.live = x.name("live", "Bool", andTerms(st.live, done))
		if args[1].Clo != nil {
			x.inline(fr, run, args[1].Clo.Fn, nil, args[1].Clo.Binds, pos)
		} else {
			x.degrade("sync.Once.Do with unknown function at " + pos)
			x.havocAll(run)
		}
		m := x.merge([]string{run.live, skip.live}, []*State{run, skip})
		*st = *m
		return Val{}, true
	case strings.HasPrefix(name, repoPfx+"logging."):
		x.abstracted("logging call skipped")
		if sig.Results().Len() == 0 {
			return Val{}, true
		}
		return resultVal(sig, x.freshResults(st, sig, "lg")), true
	case name == "runtime.Gosched":
		x.abstracted(name + " is a no-op")
		return Val{}, true
	case name == "time.Sleep", name == repoPfx+"util.Sleep":
		// the only effect of a sleep is on the ghost total `slept_ns` (the clock is re-read, non-decreasing, anyway)
		x.regComp("ghost:slept_ns", "Int")
		st.h["ghost:slept_ns"] = x.name("slept", "Int", fmt.Sprintf("(+ %s %s)", x.get(st, "ghost:slept_ns"), args[0].T))
		x.abstracted(name + " only adds its argument to the ghost total slept_ns")
		return Val{}, true
	case name == repoPfx+"util.CurrentTimeMillis", name == repoPfx+"util.CurrentTimeNano":
		g := "ghost:clock_ms"
		if strings.HasSuffix(name, "Nano") {
			g = "ghost:clock_ns"
		}
		x.regComp(g, "Int")
		prev := x.get(st, g)
		v := x.freshVal("now", rt(), st)
		bound := "4611686018427387904" // nanoseconds: below 2^62 (year 2116)
		if !strings.HasSuffix(name, "Nano") {
			bound = "4398046511104" // milliseconds: below 2^42 (year 2109)
		}
		x.assume(st, fmt.Sprintf("(and (>= %s %s) (< %s %s))", v.T, prev, v.T, bound))
		st.h[g] = v.T
		x.abstracted("clock read: fresh non-decreasing value (ms below 2^42, ns below 2^62)")
		return v, true
	case name == "math.Ceil":
		return Val{T: x.name("f", "Real", fmt.Sprintf("(to_real (- (to_int (- %s))))", args[0].T)), Typ: rt()}, true
	case name == "math.Floor":
		return Val{T: x.name("f", "Real", fmt.Sprintf("(to_real (to_int %s))", args[0].T)), Typ: rt()}, true
	case name == "math.Abs":
		return Val{T: x.name("f", "Real", fmt.Sprintf("(ite (>= %s 0.0) %s (- %s))", args[0].T, args[0].T, args[0].T)), Typ: rt()}, true
	case name == "math.Max":
		return Val{T: x.name("f", "Real", fmt.Sprintf("(ite (>= %s %s) %s %s)", args[0].T, args[1].T, args[0].T, args[1].T)), Typ: rt()}, true
	case name == "math.Min":
		return Val{T: x.name("f", "Real", fmt.Sprintf("(ite (<= %s %s) %s %s)", args[0].T, args[1].T, args[0].T, args[1].T)), Typ: rt()}, true
	case name == "math.Nextafter":
		x.abstracted("math.Nextafter is the identity in the real-number model")
		return Val{T: args[0].T, Typ: rt()}, true
	case name == "math.Round":
		return Val{T: x.name("f", "Real", fmt.Sprintf("(ite (>= %s 0.0) (to_real (to_int (+ %s 0.5))) (- (to_real (to_int (+ (- %s) 0.5)))))", args[0].T, args[0].T, args[0].T)), Typ: rt()}, true
	case name == "math.IsNaN", name == "math.IsInf":
		x.abstracted(name + " is false in the real-number model")
		return Val{T: "false", Typ: rt()}, true
	case name == "errors.New", name == "fmt.Errorf", strings.HasPrefix(name, "github.com/pkg/errors."):
		if sig.Results().Len() == 1 && types.Identical(sig.Results().At(0).Type(), types.Universe.Lookup("error").Type()) {
			x.abstracted("error constructor: fresh non-nil error")
			r := x.alloc(st)
			return Val{T: x.name("err", "Iface", fmt.Sprintf("(mk_iface %d %s)", x.tagOfName("*opaque.error"), r)), Typ: rt(), Fresh: true}, true
		}
	case name == "reflect.TypeOf", name == "reflect.ValueOf":
		x.abstracted(name + ": opaque result, no effect")
		return resultVal(sig, x.freshResults(st, sig, "rf")), true
	case strings.HasPrefix(name, "fmt.Sprint"), strings.HasPrefix(name, "strconv."), strings.HasPrefix(name, "strings."):
		x.abstracted(name + ": opaque result")
		return resultVal(sig, x.freshResults(st, sig, "s")), true
	case name == "reflect.DeepEqual":
		x.declRaw("fun:deq", "(declare-fun deq (Iface Iface) Bool)")
		x.abstracted("reflect.DeepEqual: uninterpreted, reflexive")
		x.emit(fmt.Sprintf("(assert (=> (= %s %s) (deq %s %s)))", args[0].T, args[1].T, args[0].T, args[1].T))
		return Val{T: fmt.Sprintf("(deq %s %s)", args[0].T, args[1].T), Typ: rt()}, true
	case name == "(time.Duration).Nanoseconds":
		return Val{T: args[0].T, Typ: rt()}, true
	case name == "(time.Duration).Milliseconds":
		return Val{T: fmt.Sprintf("(tdiv %s 1000000)", args[0].T), Typ: rt()}, true
	case name == "(*sync.Pool).Get":
		return x.poolGet(fr, st, args[0], sig, pos), true
	case name == "(*sync.Pool).Put":
		x.poolPut(fr, st, args[0], args[1], pos)
		return Val{}, true
	}
	return Val{}, false
}

// poolGet: an object from a pool is a live object of unknown content owned by nobody else.
func (x *Engine) poolGet(fr *Frame, st *State, pool Val, sig *types.Signature, pos string) Val {
	x.abstracted("sync.Pool.Get: some allocated or new object with arbitrary content")
	v := x.freshVal("pooled", sig.Results().At(0).Type(), st)
	x.declRaw("fun:pool_tag", "(declare-fun pool_tag (Int) Int)")
	// the dynamic type of pooled objects is a property of the pool (what its New function produces)
	x.assume(st, fmt.Sprintf("(and (not (= (i_tag %s) 0)) (= (i_tag %s) (pool_tag %s)) (not (= (i_val %s) 0)))", v.T, v.T, pool.T, v.T))
	x.poolEvents = append(x.poolEvents, poolEvent{kind: "get", pool: pool.T, val: v.T, pos: pos})
	v.Pooled = true
	return v
}

// poolInv evaluates the pool invariant registered for the dynamic type t on object ref.
func (x *Engine) poolInv(st *State, t types.Type, ref string) (string, *Clause) {
	c := x.db.PoolInvs[typeName(t)]
	if c == nil {
		return "", nil
	}
	ev := &Eval{x: x, st: st, old: st, env: map[string]Val{"it": {T: ref, Typ: t}}, pkg: x.pkgByPath(c.Props[0])}
	return x.safeEvalBool(ev, c), c
}

func (x *Engine) poolPut(fr *Frame, st *State, pool Val, v Val, pos string) {
	// ghost record of the object handed back (lets contracts state that nothing live still shares its storage)
	if mi := x.putType[v.T]; mi != nil {
		if g, ok := x.db.Ghosts["gLastPooled"]; ok {
			x.regComp("ghost:gLastPooled", g.Sort)
			st.h["ghost:gLastPooled"] = mi.ref
		}
	}
	// whoever returns an object to the pool must have re-established the pool invariant
	if mi := x.putType[v.T]; mi != nil {
		if g, c := x.poolInv(st, mi.typ, mi.ref); c != nil {
			x.ordinals["poolput"]++
			x.oblige(st, "poolput", fmt.Sprintf("%s#%d", typeName(mi.typ), x.ordinals["poolput"]), g, "object returned to the pool satisfies the pool invariant: "+c.Text, pos)
		}
	}
	x.abstracted("sync.Pool.Put: no effect on the heap")
	x.poolEvents = append(x.poolEvents, poolEvent{kind: "put", pool: pool.T, val: v.T, pos: pos, live: st.live})
}

type poolEvent struct {
	kind, pool, val, pos, live string
}

type atomicEv struct {
	kind     string
	addr     *Addr
	old, new string
	pos      string
	live     string
	nscript  int
	st       *State
}

func (x *Engine) atomicEvent(fr *Frame, st *State, kind string, a *Addr, old, nv, pos string) {
	x.atomics = append(x.atomics, atomicEv{kind: kind, addr: a, old: old, new: nv, pos: pos, live: st.live, nscript: len(x.script), st: st.clone()})
}

func (x *Engine) lockEvent(fr *Frame, st *State, name string, mu Val, pos string) {
	x.lockEvents = append(x.lockEvents, lockEv{op: name[strings.LastIndex(name, ".")+1:], mu: mu.T, pos: pos, live: st.live})
}

type lockEv struct{ op, mu, pos, live string }

// concHavoc: other threads may have changed every location declared shared.
func (x *Engine) concHavoc(fr *Frame, st *State, a *Addr) {
	if x.sharedKeys == nil {
		return
	}
	for _, k := range x.sharedKeys {
		pre := x.get(st, k)
		x.havocKey(st, k)
		post := x.get(st, k)
		if x.relyHook != nil {
			x.relyHook(st, k, pre, post)
		}
	}
	x.bumpEpoch(st)
}

// lockAcquireChecks: deadlock freedom of the declared mutexes, per acquisition — the thread does not already hold the
// mutex it is about to block on, and it holds no mutex declared as INNER of the one it acquires.
func (x *Engine) lockAcquireChecks(fr *Frame, st *State, mu, op, pos string) {
	x.regComp("Lock:w", "(Array Int Int)")
	x.regComp("Lock:r", "(Array Int Int)")
	lw, lr := x.get(st, "Lock:w"), x.get(st, "Lock:r")
	props := x.lockOrderProps
	for _, gd := range x.guards {
		if len(props) == 0 {
			props = gd.props
		}
	}
	if !hasProp(props, x.curProp) {
		return
	}
	name := strings.TrimPrefix(mu, "gmux_")
	x.ordinals["lockacq:"+name]++
	n := x.ordinals["lockacq:"+name]
	o := x.obligeNoAssume(st, "guard", fmt.Sprintf("%s-of-%s-not-already-held#%d", op, name, n), fmt.Sprintf("(= (+ (select %s %s) (select %s %s)) 0)", lw, mu, lr, mu),
		"the thread does not already hold the mutex it acquires (self-deadlock), at "+pos, pos)
	o.Props, o.Tagged = props, true
	for _, ord := range x.lockOrders {
		if x.mutexTerm(ord[0]) != mu {
			continue
		}
		in := x.mutexTerm(ord[1])
		o := x.obligeNoAssume(st, "guard", fmt.Sprintf("%s-of-%s-not-while-holding-%s#%d", op, name, ord[1].Name(), n), fmt.Sprintf("(= (+ (select %s %s) (select %s %s)) 0)", lw, in, lr, in),
			fmt.Sprintf("lock order: %s is never acquired while holding %s, at %s", ord[0].Name(), ord[1].Name(), pos), pos)
		o.Props, o.Tagged = props, true
	}
}
