package main

import (
	"encoding/json"
	"flag"
	"fmt"
	"os"
	"os/exec"
	"path/filepath"
	"sort"
	"strconv"
	"strings"
	"time"

	"golang.org/x/tools/go/packages"
	"golang.org/x/tools/go/ssa"
	"golang.org/x/tools/go/ssa/ssautil"
)

type PropCfg struct {
	Module            string       `json:"module"` // directory of the Go module relative to the repo root ("" = root)
	Packages          []string     `json:"packages"`
	Title             string       `json:"title"`
	NotMachineChecked []string     `json:"not_machine_checked"`
	NotCovered        []string     `json:"not_covered"`
	Assumptions       []string     `json:"assumptions"`
	Bounded           []BoundedCfg `json:"bounded"`
	MinObligations    int          `json:"min_obligations"`
	Modules           []ModCfg     `json:"modules"`        // several Go modules checked under one property (adapters)
	SharedSpecs       []string     `json:"shared_specs"`   // files under /verif/contracts loaded for every module
	ExternalCalls     string       `json:"external_calls"` // "preserve-ghosts": see Engine.externalEffect
	Skipped           []string     `json:"skipped"`        // modules that cannot be loaded here, with the reason
}

type ModCfg struct {
	Module   string   `json:"module"`
	Packages []string `json:"packages"`
}

type BoundedCfg struct {
	Name     string `json:"name"`     // test file /verif/bounded/<name>_test.go, injected with go test -overlay
	Dir      string `json:"dir"`      // package directory relative to the repo
	Quick    int    `json:"quick"`    // bound used by the quick tier
	Thorough int    `json:"thorough"` // bound used by the thorough tier
	What     string `json:"what"`
	Race     bool   `json:"race"` // run under the race detector; a race report fails the stand-in
}

type Config struct {
	Props map[string]*PropCfg `json:"props"`
}

func must(err error) {
	if err != nil {
		fmt.Fprintln(os.Stderr, "vcgo:", err)
		os.Exit(2)
	}
}

func loadProgram(repo, module string, patterns []string) (*ssa.Program, []*packages.Package) {
	dir := filepath.Join(repo, module)
	cfg := &packages.Config{Mode: packages.LoadSyntax | packages.NeedModule, Dir: dir, BuildFlags: []string{"-tags=verif"},
		Env: append(os.Environ(), "GOFLAGS=-mod=mod", "GOPROXY=off", "GOSUMDB=off", "GOTOOLCHAIN=local")}
	pkgs, err := packages.Load(cfg, patterns...)
	must(err)
	bad := false
	for _, p := range pkgs {
		for _, e := range p.Errors {
			fmt.Fprintln(os.Stderr, "load error:", e)
			bad = true
		}
	}
	if bad {
		fmt.Fprintln(os.Stderr, "vcgo: the tree does not type-check")
		os.Exit(2)
	}
	prog, _ := ssautil.Packages(pkgs, ssa.GlobalDebug)
	prog.Build()
	return prog, pkgs
}

func loadSpecs(db *SpecDB, pkgs []*packages.Package, repo, verif string, shared []string) []string {
	var used []string
	for _, sh := range shared {
		f := filepath.Join(verif, "contracts", sh)
		must(db.loadFile(f, ""))
		used = append(used, f)
	}
	// package-independent mathematical spec functions (no contract about code)
	if pre := filepath.Join(verif, "contracts", "prelude.spec"); fileExists(pre) {
		must(db.loadFile(pre, ""))
		used = append(used, pre)
	}
	for _, p := range pkgs {
		if len(p.GoFiles) == 0 {
			continue
		}
		dir := filepath.Dir(p.GoFiles[0])
		f := filepath.Join(dir, "verif_contracts.go")
		rel, _ := filepath.Rel(repo, dir)
		mirror := filepath.Join(verif, "contracts", strings.ReplaceAll(rel, "/", "__")+".go")
		_, errRepo := os.Stat(f)
		_, errMirror := os.Stat(mirror)
		switch {
		case errMirror == nil && (errRepo != nil || os.Getenv("VCGO_DEV") != ""):
			// the committed mirror is used when the tree carries no contract file (or in development)
			f = mirror
		case errRepo != nil:
			continue
		}
		must(db.loadFile(f, p.PkgPath))
		used = append(used, f)
	}
	return used
}

var gExtCalls map[string]int

func contains(l []string, s string) bool {
	for _, e := range l {
		if e == s {
			return true
		}
	}
	return false
}

func hasProp(ps []string, id string) bool {
	for _, p := range ps {
		if p == id {
			return true
		}
	}
	return false
}

func main() {
	if len(os.Args) < 2 {
		fmt.Fprintln(os.Stderr, "usage: vcgo check|dump ...")
		os.Exit(2)
	}
	cmd := os.Args[1]
	fs := flag.NewFlagSet(cmd, flag.ExitOnError)
	prop := fs.String("prop", "", "property id")
	tier := fs.String("tier", "quick", "quick|thorough")
	repo := fs.String("repo", envOr("VERIF_REPO", "/repo"), "repository root")
	verif := fs.String("verif", envOr("VERIF_HOME", "/verif"), "verif root")
	fnKey := fs.String("func", "", "only this function key (substring)")
	outDir := fs.String("out", "", "directory for SMT files (default: scratch)")
	timeout := fs.Int("timeout", 20, "seconds per query")
	keep := fs.Bool("keep", false, "keep SMT files")
	verbose := fs.Bool("v", false, "verbose")
	noEvidence := fs.Bool("no-evidence", false, "do not write evidence")
	fs.Parse(os.Args[2:])
	if t := os.Getenv("VERIF_TIER"); t != "" && cmd == "check" {
		*tier = t
	}
	seed := 0
	if s := os.Getenv("VERIF_SEED"); s != "" {
		seed, _ = strconv.Atoi(s)
	}
	t0 := time.Now()
	var cfg Config
	data, err := os.ReadFile(filepath.Join(*verif, "props.json"))
	must(err)
	must(json.Unmarshal(data, &cfg))
	pc := cfg.Props[*prop]
	if pc == nil {
		must(fmt.Errorf("unknown property %q", *prop))
	}
	mods := pc.Modules
	if len(mods) == 0 {
		mods = []ModCfg{{pc.Module, pc.Packages}}
	}
	scratch := *outDir
	if scratch == "" {
		base := os.Getenv("TMPDIR")
		if base == "" {
			base = "/var/tmp"
		}
		scratch, err = os.MkdirTemp(base, "vcgo.")
		must(err)
		if !*keep {
			defer os.RemoveAll(scratch)
		}
	} else {
		os.MkdirAll(scratch, 0o755)
	}
	var reps []*FuncReport
	var specFiles []string
	var x *Engine
	loadS := 0.0
	extCalls := map[string]int{}
	for mi, mc := range mods {
		tl := time.Now()
		prog, pkgs := loadProgram(*repo, mc.Module, mc.Packages)
		db := newSpecDB()
		for _, f := range loadSpecs(db, pkgs, *repo, *verif, pc.SharedSpecs) {
			if !contains(specFiles, f) {
				specFiles = append(specFiles, f)
			}
		}
		x = newEngine(prog, db)
		x.extPolicy = pc.ExternalCalls
		x.initialPkgs = map[string]bool{}
		for _, p := range pkgs {
			x.initialPkgs[p.PkgPath] = true
		}
		x.indexFunctions()
		x.instantiateAutos(pkgs)
		loadS += time.Since(tl).Seconds()
		x.resolveGuards()
		todo := append([]string{}, db.Order...)
		guardOnly := map[string]bool{}
		for _, k := range x.guardFuncs(*prop, pkgs) {
			if fs := db.Funcs[k]; fs == nil || !hasProp(fs.Props, *prop) {
				guardOnly[k] = true
				if fs == nil {
					todo = append(todo, k)
				}
			}
		}
		// a function whose contract has a postcondition tagged with this property (ensures[l]{P,...}) although the
		// function itself is listed under other properties is verified here for those tagged clauses only
		tagEnsures := map[string]bool{}
		for _, k := range db.Order {
			if fs := db.Funcs[k]; fs != nil && !hasProp(fs.Props, *prop) && !fs.IsIface && !fs.Assumed {
				for _, c := range fs.Ensures {
					if hasProp(c.Props, *prop) {
						guardOnly[k] = true
						tagEnsures[k] = true
					}
				}
			}
		}
		for _, key := range todo {
			fsp := db.Funcs[key]
			if fsp == nil {
				// no contract of its own: verified only for the lock discipline of its guarded variables
				fsp = &FuncSpec{Key: key, Pkg: x.fnByKey[key].Pkg.Pkg.Path(), Props: []string{*prop}, File: "(guarded)"}
			}
			if (!hasProp(fsp.Props, *prop) && !guardOnly[key]) || fsp.IsIface || (fsp.Assumed && !(guardOnly[key] && x.fnByKey[key] != nil && x.fnByKey[key].Blocks != nil)) {
				continue // (an assumed contract's body is still checked for the lock discipline of guarded variables)
			}
			if *fnKey != "" && !strings.Contains(key, *fnKey) {
				continue
			}
			cases := []*Clause{nil}
			if len(fsp.Cases) > 0 {
				cases = fsp.Cases
			}
			modes := []string{""}
			if fsp.ConcAlso && hasProp(fsp.ConcProps, *prop) {
				modes = []string{"seq", "conc"}
			}
			for _, cs := range cases {
				for _, mode := range modes {
					rep := x.verifyFunc(fsp, cs, *prop, mode)
					// restrict to obligations of this property
					var keepO []*Obl
					for _, o := range rep.Obls {
						if hasProp(o.Props, *prop) && (!guardOnly[key] || o.Tagged || o.Kind == "cover") {
							keepO = append(keepO, o)
						} else if tagEnsures[key] && (strings.HasPrefix(o.Kind, "loop") || strings.HasSuffix(o.Kind, ".requires")) {
							// the tagged postconditions of this function are proved from its loop invariants and from its
							// callees' contracts: establishing the invariants and the callees' preconditions belongs to
							// the same claim (its other obligations — no-panic, frame, untagged clauses — do not)
							keepO = append(keepO, o)
						}
					}
					rep.Obls = keepO
					reps = append(reps, rep)
				}
			}
		}
		for name := range x.usedLemmas {
			ok := false
			for _, l := range db.Lemmas {
				if l.Name == name && hasProp(l.Props, *prop) {
					ok = true
				}
			}
			if !ok {
				must(fmt.Errorf("lemma %s is used by a contract of %s but not proved under that property", name, *prop))
			}
		}
		if mi == 0 {
			lemRep := x.lemmaReport(*prop)
			if lemRep != nil && *fnKey == "" {
				reps = append(reps, lemRep)
			}
		}
		for k, v := range x.extCalls {
			extCalls[k] += v
		}
	}
	gExtCalls = extCalls
	if *verbose {
		for _, l := range extCallList() {
			fmt.Println("  external:", l)
		}
	}
	genS := time.Since(t0).Seconds() - loadS

	if cmd == "dump" {
		for _, r := range reps {
			for _, o := range r.Obls {
				f := filepath.Join(scratch, mangle(o.Name)+".smt2")
				os.WriteFile(f, []byte(oblText(r, o, true)), 0o644)
				fmt.Println(f)
			}
			if r.Err != "" {
				fmt.Println("ERROR", r.Err)
			}
		}
		return
	}
	boundedRes := runBounded(pc, *prop, *tier, *repo, *verif, *fnKey != "")
	discharge(reps, solveCfg{dir: scratch, timeoutS: *timeout, seed: seed, workers: 7, each: *tier == "thorough"})
	res := summarize(*prop, *tier, seed, pc, reps, x, *verif, *repo, specFiles, t0, loadS, genS, *verbose, *timeout)
	if len(boundedRes) > 0 {
		res.evidence["coverage"].(map[string]interface{})["bounded"] = boundedRes
		for _, b := range boundedRes {
			if b["result"] != "ok" {
				// a failing sub-check that is a recorded known finding is reported as such; anything else is a violation
				known, _ := loadKnown(*verif)
				failing := map[string]bool{}
				for _, ln := range strings.Split(b["output"].(string), "\n") {
					if strings.HasPrefix(ln, "BOUNDED-FAIL check=") {
						failing[strings.TrimRight(strings.Fields(ln[len("BOUNDED-FAIL check="):])[0], ":")] = true
					}
				}
				allKnown := len(failing) > 0
				var kl []string
				for chk := range failing {
					found := false
					for _, k := range known {
						if k.prop == *prop && k.obl == "bounded:"+b["name"].(string)+"#"+chk {
							found = true
							kl = append(kl, fmt.Sprintf("KNOWN-FINDING: property=%s bounded:%s#%s %s", *prop, b["name"], chk, k.desc))
						}
					}
					if !found {
						allKnown = false
					}
				}
				sort.Strings(kl)
				for _, l := range kl {
					fmt.Println(l)
				}
				if allKnown {
					b["result"] = "known-findings-only"
					delete(b, "output")
					continue
				}
				path := filepath.Join(*verif, "out", "replay", *prop, "bounded_"+b["name"].(string)+".txt")
				os.MkdirAll(filepath.Dir(path), 0o755)
				os.WriteFile(path, []byte(fmt.Sprintf("property: %s\nbounded check %s (bound %v) failed on the real code\n\n%s\n", *prop, b["name"], b["bound"], b["output"])), 0o644)
				fmt.Printf("VIOLATION property=%s replay=%s\n", *prop, path)
				res.exit = 1
				res.evidence["violations"] = res.evidence["violations"].(int) + 1
			}
			delete(b, "output")
		}
	}
	if !*noEvidence && *fnKey == "" {
		must(writeEvidence(filepath.Join(*verif, "evidence", *prop+".json"), res.evidence))
	}
	if *outDir == "" && !*keep {
		os.RemoveAll(scratch) // os.Exit skips deferred calls
	}
	os.Exit(res.exit)
}

func extCallList() []string {
	var out []string
	for k, v := range gExtCalls {
		out = append(out, fmt.Sprintf("%s x%d", k, v))
	}
	sort.Strings(out)
	return out
}

func envOr(k, d string) string {
	if v := os.Getenv(k); v != "" {
		return v
	}
	return d
}

// lemmaReport: closed lemmas of a property as obligations.
func (x *Engine) lemmaReport(prop string) *FuncReport {
	var ls []*Lemma
	for _, l := range x.db.Lemmas {
		if hasProp(l.Props, prop) {
			ls = append(ls, l)
		}
	}
	if len(ls) == 0 {
		return nil
	}
	x.reset("lemma")
	x.obls = nil
	x.curProps = []string{prop}
	rep := &FuncReport{Key: "lemmas", Props: []string{prop}}
	st := &State{live: "true", h: map[string]string{}}
	for _, l := range ls {
		if l.Params != nil {
			func() {
				defer func() {
					if r := recover(); r != nil {
						rep.Err = fmt.Sprint(r)
					}
				}()
				x.inductiveLemma(l, st)
			}()
			continue
		}
		ev := &Eval{x: x, st: st, old: st, env: map[string]Val{}, pkg: x.pkgByPath(l.Pkg)}
		c := &Clause{Expr: l.Expr, Text: l.Text, File: l.File, Line: l.Line}
		func() {
			defer func() {
				if r := recover(); r != nil {
					rep.Err = fmt.Sprint(r)
				}
			}()
			g := x.safeEvalBool(ev, c)
			x.obligeNoAssume(st, "lemma", l.Name, g, l.Text, fmt.Sprintf("%s:%d", shortFile(l.File), l.Line))
		}()
	}
	rep.Obls = x.obls
	rep.Decls = x.decls
	rep.Script = x.script
	return rep
}

type summary struct {
	exit     int
	evidence map[string]interface{}
}

type knownFinding struct {
	prop, obl, desc string
}

func loadKnown(verif string) (known []knownFinding, fixed []string) {
	data, err := os.ReadFile(filepath.Join(verif, "known_findings.txt"))
	if err != nil {
		return
	}
	for _, ln := range strings.Split(string(data), "\n") {
		ln = strings.TrimSpace(ln)
		if strings.HasPrefix(ln, "fixed:") {
			fixed = append(fixed, ln)
			continue
		}
		if !strings.HasPrefix(ln, "known:") {
			continue
		}
		f := strings.Fields(ln[6:])
		kf := knownFinding{}
		var rest []string
		for _, w := range f {
			switch {
			case strings.HasPrefix(w, "property="):
				kf.prop = w[9:]
			case strings.HasPrefix(w, "obligation="):
				kf.obl = w[11:]
			default:
				rest = append(rest, w)
			}
		}
		kf.desc = strings.Join(rest, " ")
		known = append(known, kf)
	}
	return
}

func loadBaseline(verif, prop string) map[string]bool {
	out := map[string]bool{}
	data, err := os.ReadFile(filepath.Join(verif, "baseline", prop+".obligations"))
	if err != nil {
		return nil
	}
	for _, ln := range strings.Split(string(data), "\n") {
		if ln = strings.TrimSpace(ln); ln != "" {
			out[ln] = true
		}
	}
	return out
}

func summarize(prop, tier string, seed int, pc *PropCfg, reps []*FuncReport, x *Engine, verif, repo string, specFiles []string, t0 time.Time, loadS, genS float64, verbose bool, timeout int) summary {
	known, _ := loadKnown(verif)
	baseline := loadBaseline(verif, prop)
	var nObl, nDis, nCover, nCoverOK int
	var violations, vacuity, undecided, knownHit []string
	bySolver := map[string]int{}
	var solverMs int64
	var samples []interface{}
	var funcs []string
	abstr := map[string]int{}
	inl := map[string]bool{}
	assumed := map[string]bool{}
	objinv := map[string]bool{}
	var degraded, notes, errs []string
	replayDir := filepath.Join(verif, "out", "replay", prop)
	var allNames []string
	for _, r := range reps {
		if r.Err != "" {
			errs = append(errs, r.Key+": "+r.Err)
			continue
		}
		funcs = append(funcs, shortKey(r.Key))
		for k, v := range r.Abstracted {
			abstr[k] += v
		}
		for _, k := range r.Inlined {
			inl[k] = true
		}
		for _, k := range r.Assumed {
			assumed[k] = true
		}
		for _, k := range r.ObjInvs {
			objinv[k] = true
		}
		degraded = append(degraded, r.Degraded...)
		notes = append(notes, r.Notes...)
		if verbose {
			for _, n := range r.Notes {
				fmt.Println("  note:", n)
			}
			for _, n := range r.Degraded {
				fmt.Println("  degraded:", n)
			}
		}
		// a failed obligation is assumed downstream, so reachability queries after a known finding are inconclusive
		hasKnown := false
		for _, o := range r.Obls {
			if o.Expect != "sat" && o.Status != "unsat" {
				for _, k := range known {
					if k.prop == prop && k.obl == o.Name {
						hasKnown = true
					}
				}
			}
		}
		for _, o := range r.Obls {
			if o.Expect == "sat" {
				nCover++
				switch o.Status {
				case "sat":
					nCoverOK++
				case "unsat":
					if o.Label == "loop-head" && strings.Contains(o.Name, "|") {
						continue // a case split may legitimately exclude the loop
					}
					if !hasKnown {
						vacuity = append(vacuity, o.Name)
					}
				}
				continue
			}
			nObl++
			allNames = append(allNames, o.Name)
			solverMs += o.TimeMs
			ok := o.Status == "unsat"
			if ok {
				nDis++
				bySolver[o.Solver]++
				if len(samples) < 6 {
					samples = append(samples, map[string]interface{}{"obligation": o.Name, "text": o.Text, "solver": o.Solver, "ms": o.TimeMs, "smt_bytes": o.SmtSize})
				}
				if verbose {
					fmt.Printf("  ok    %-90s %s %dms\n", o.Name, o.Solver, o.TimeMs)
				}
				continue
			}
			if verbose {
				fmt.Printf("  FAIL  %-90s %s (%s)\n", o.Name, o.Status, o.Solver)
			}
			// known finding?
			isKnown := false
			for _, k := range known {
				if k.prop == prop && k.obl == o.Name {
					fmt.Printf("KNOWN-FINDING: property=%s %s %s\n", prop, o.Name, k.desc)
					knownHit = append(knownHit, o.Name)
					isKnown = true
				}
			}
			if isKnown {
				continue
			}
			// lock-discipline obligations only depend on the lock bookkeeping, which unsupported constructs do not touch
			deg := len(r.Degraded) > 0 && o.Kind != "guard"
			switch {
			case o.Status == "sat":
				path := writeReplay(replayDir, prop, o, r, repo, verif)
				if deg && !strings.Contains(path, "#replayed") {
					undecided = append(undecided, o.Name+" (function outside the verified subset: "+strings.Join(r.Degraded, "; ")+")")
					fmt.Printf("UNDECIDED obligation=%s reason=%s\n", o.Name, strings.Join(r.Degraded, "; "))
				} else {
					violations = append(violations, o.Name)
					fmt.Printf("VIOLATION property=%s replay=%s\n", prop, strings.TrimSuffix(path, "#replayed"))
				}
			default:
				path := writeReplay(replayDir, prop, o, r, repo, verif)
				if strings.HasSuffix(path, "#replayed") {
					violations = append(violations, o.Name)
					fmt.Printf("VIOLATION property=%s replay=%s\n", prop, strings.TrimSuffix(path, "#replayed"))
					continue
				}
				if deg || (baseline != nil && !baseline[o.Name]) {
					undecided = append(undecided, o.Name+" ("+o.Status+")")
					fmt.Printf("UNDECIDED obligation=%s reason=%s\n", o.Name, o.Status)
				} else {
					violations = append(violations, o.Name)
					fmt.Printf("VIOLATION property=%s replay=%s no-failing-input-found\n", prop, path)
				}
			}
		}
	}
	exit := 0
	if len(violations) > 0 {
		exit = 1
	}
	for _, e := range errs {
		fmt.Println("CHECK-ERROR", e)
		if exit == 0 {
			exit = 2
		}
	}
	for _, v := range vacuity {
		fmt.Println("VACUITY", v, "(a cover query is unsatisfiable: precondition or path unreachable)")
		if exit == 0 {
			exit = 2
		}
	}
	if nObl < pc.MinObligations {
		fmt.Printf("CHECK-ERROR only %d obligations generated, expected at least %d\n", nObl, pc.MinObligations)
		if exit == 0 {
			exit = 2
		}
	}
	if nObl == 0 && exit == 0 {
		fmt.Println("CHECK-ERROR no obligations generated")
		exit = 2
	}
	sort.Strings(funcs)
	var inlL, asL []string
	for k := range inl {
		inlL = append(inlL, k)
	}
	for k := range assumed {
		asL = append(asL, k)
	}
	sort.Strings(inlL)
	sort.Strings(asL)
	level := "proof"
	if len(undecided) > 0 {
		level = "other"
	}
	wall := time.Since(t0).Seconds()
	assumptions := append([]string{}, pc.Assumptions...)
	assumptions = append(assumptions,
		"float64 arithmetic is modelled as exact real arithmetic (no rounding, no overflow to Inf); float divisions carry a divisor!=0 obligation",
		"integer arithmetic is exact machine arithmetic: every +,-,* and conversion is re-wrapped to its Go width over SMT Int",
		"implicit runtime panics (nil dereference, index, integer division by zero) are assumed absent except in functions whose contract says `panics never`",
		"termination is not verified (partial correctness)",
		"atomic operations are linearizable; unless a contract is marked concurrent the function is verified for one thread",
		"loop bounds taken from the loop's syntax, not proved by the solver: a range loop's index lies within the ranged length; a plain counting loop (constant start, +1 per iteration, guard i < n in the loop head) never has its index below the start",
		"a scalar local captured only by function literals of the same function that are called or deferred on the spot is not reachable by callees (kept beside the heap model)",
		"the SSA construction of golang.org/x/tools v0.29.0 and the solvers z3 4.8.12 / z3 5.1.0 / cvc5 1.0 are trusted")
	for _, a := range asL {
		assumptions = append(assumptions, "assumed contract (not verified here): "+a)
	}
	var oiL []string
	for k := range objinv {
		oiL = append(oiL, k)
	}
	sort.Strings(oiL)
	for _, a := range oiL {
		assumptions = append(assumptions, "object invariant assumed at entry, not checked at call sites: "+a)
	}
	var abstrL []string
	for k, v := range abstr {
		abstrL = append(abstrL, fmt.Sprintf("%s ×%d", k, v))
	}
	sort.Strings(abstrL)
	cov := map[string]interface{}{
		"obligations":                 nObl - len(knownHit),
		"obligations_generated":       nObl,
		"discharged":                  nDis,
		"checker_cmd":                 fmt.Sprintf("vcgo check -prop %s -tier %s (weakest-precondition VCs over go/ssa of %s, discharged by z3-new|z3|cvc5, %ds/query)", prop, tier, repo, timeout),
		"trusted_base":                []string{"golang.org/x/tools/go/ssa v0.29.0 (SSA construction)", "vcgo VC generator (/verif/vcgo)", "z3 5.1.0", "z3 4.8.12", "cvc5 1.0", "contract files " + strings.Join(relAll(specFiles, repo), ", ")},
		"samples":                     samples,
		"functions_under_contract":    funcs,
		"inlined_callees":             inlL,
		"assumed_contracts":           asL,
		"abstracted_instructions":     abstrL,
		"by_solver":                   bySolver,
		"solver_time_ms":              solverMs,
		"load_s":                      round2(loadS),
		"vcgen_s":                     round2(genS),
		"cover_queries":               nCover,
		"cover_sat":                   nCoverOK,
		"not_machine_checked":         pc.NotMachineChecked,
		"not_covered":                 pc.NotCovered,
		"bounded":                     pc.Bounded,
		"calls_leaving_verified_code": extCallList(),
		"modules_skipped":             pc.Skipped,
		"known_findings_reported":     knownHit,
		"undecided":                   undecided,
		"degraded_functions":          degraded,
		"notes":                       notes,
	}
	if level == "other" {
		cov["explanation"] = "some obligations are undecided on this tree (functions outside the verified subset or solver gave no answer); proof claim withdrawn for this run"
	}
	ev := map[string]interface{}{
		"property_id": prop, "tier": tier, "seed": seed, "level": level, "coverage": cov,
		"assumptions": assumptions, "wall_s": round2(wall), "violations": len(violations),
	}
	fmt.Printf("%s %s: %d/%d obligations discharged, %d/%d covers, %d known, %d undecided, %d violations, %.1fs (load %.1fs, vcgen %.1fs)\n",
		prop, tier, nDis, nObl, nCoverOK, nCover, len(knownHit), len(undecided), len(violations), wall, loadS, genS)
	if os.Getenv("VCGO_WRITE_BASELINE") != "" {
		os.MkdirAll(filepath.Join(verif, "baseline"), 0o755)
		sort.Strings(allNames)
		os.WriteFile(filepath.Join(verif, "baseline", prop+".obligations"), []byte(strings.Join(allNames, "\n")+"\n"), 0o644)
	}
	return summary{exit: exit, evidence: ev}
}

func relAll(fs []string, repo string) []string {
	var out []string
	for _, f := range fs {
		if r, err := filepath.Rel(repo, f); err == nil && !strings.HasPrefix(r, "..") {
			out = append(out, r)
		} else {
			out = append(out, f)
		}
	}
	return out
}

func round2(f float64) float64 { return float64(int(f*100)) / 100 }

func writeEvidence(path string, ev map[string]interface{}) error {
	os.MkdirAll(filepath.Dir(path), 0o755)
	b, err := json.MarshalIndent(ev, "", " ")
	if err != nil {
		return err
	}
	return os.WriteFile(path, append(b, '\n'), 0o644)
}

// writeReplay records the failed obligation, the solver output and (when a template exists) the replay on the real code.
func writeReplay(dir, prop string, o *Obl, r *FuncReport, repo, verif string) string {
	os.MkdirAll(dir, 0o755)
	path := filepath.Join(dir, mangle(o.Name)+".txt")
	var b strings.Builder
	fmt.Fprintf(&b, "property: %s\nobligation: %s\nfunction: %s\nclause: %s\nposition: %s\nsolver status: %s (%s)\n", prop, o.Name, o.Func, o.Text, o.Pos, o.Status, o.Solver)
	if len(r.Degraded) > 0 {
		fmt.Fprintf(&b, "function outside the verified subset: %s\n", strings.Join(r.Degraded, "; "))
	}
	replayed := false
	if o.Status == "sat" || o.LiteSat {
		out, ok := tryReplay(prop, o, r, repo, verif)
		if out != "" {
			fmt.Fprintf(&b, "\n--- replay on the real code ---\n%s\n", out)
		}
		replayed = ok
	}
	fmt.Fprintf(&b, "\n--- solver output ---\n%s\n", truncate(o.Model, 20000))
	if o.File != "" {
		if data, err := os.ReadFile(o.File); err == nil {
			smt := filepath.Join(dir, mangle(o.Name)+".smt2")
			os.WriteFile(smt, data, 0o644)
			fmt.Fprintf(&b, "\nSMT query: %s\n", smt)
		}
	}
	os.WriteFile(path, []byte(b.String()), 0o644)
	if replayed {
		return path + "#replayed"
	}
	return path
}

func truncate(s string, n int) string {
	if len(s) > n {
		return s[:n] + "\n... (truncated)"
	}
	return s
}

// inductiveLemma: base and step obligations of a lemma proved by induction on a natural number
// (or a single obligation when no induction variable is given).
func (x *Engine) inductiveLemma(l *Lemma, st *State) {
	env := map[string]Val{}
	for i, p := range l.Params {
		n := x.fresh("lp_" + p)
		x.decl(n, l.Sorts[i])
		env[p] = Val{T: n, Sort: l.Sorts[i]}
	}
	pkg := x.pkgByPath(l.Pkg)
	conj := func(cs []*Clause, env map[string]Val) string {
		var ts []string
		for _, c := range cs {
			ev := &Eval{x: x, st: st, old: st, env: env, pkg: pkg}
			ts = append(ts, x.safeEvalBool(ev, c))
		}
		return andTerms(ts...)
	}
	pos := fmt.Sprintf("%s:%d", shortFile(l.File), l.Line)
	if l.IndVar == "" {
		x.obligeNoAssume(st, "lemma", l.Name, fmt.Sprintf("(=> %s %s)", conj(l.Requires, env), conj(l.Ensures, env)), "lemma "+l.Name, pos)
		return
	}
	with := func(iv string) map[string]Val {
		e2 := map[string]Val{}
		for k, v := range env {
			e2[k] = v
		}
		e2[l.IndVar] = Val{T: iv, Sort: "Int"}
		return e2
	}
	k := x.fresh("ind")
	x.decl(k, "Int")
	req := conj(l.Requires, env)
	x.obligeNoAssume(st, "lemma", l.Name+".base", fmt.Sprintf("(=> %s %s)", req, conj(l.Ensures, with("0"))), "induction base of lemma "+l.Name, pos)
	x.obligeNoAssume(st, "lemma", l.Name+".step", fmt.Sprintf("(=> (and %s (>= %s 0) %s) %s)", req, k, conj(l.Ensures, with(k)), conj(l.Ensures, with("(+ "+k+" 1)"))), "induction step of lemma "+l.Name, pos)
}

// useLemma instantiates a lemma (proved separately) with the given arguments.
func (x *Engine) useLemma(st *State, old *State, u *Clause, env map[string]Val, pkg *ssa.Package) {
	var lm *Lemma
	for _, l := range x.db.Lemmas {
		if l.Name == u.Label && l.Params != nil {
			lm = l
		}
	}
	if lm == nil {
		panic(fmt.Sprintf("%s:%d: contract error: unknown lemma %s\n    in: %s", u.File, u.Line, u.Label, u.Text))
	}
	args := u.Expr.Args[1:]
	if len(args) != len(lm.Params) {
		panic(fmt.Sprintf("%s:%d: contract error: lemma %s expects %d arguments\n    in: %s", u.File, u.Line, u.Label, len(lm.Params), u.Text))
	}
	lenv := map[string]Val{}
	for i, a := range args {
		ev := &Eval{x: x, st: st, old: old, env: env, pkg: pkg}
		v, okArg := x.trySafeEval(ev, &Clause{Expr: a, Text: u.Text, File: u.File, Line: u.Line, Label: "use " + u.Label})
		if !okArg {
			return // the lemma cannot be instantiated for this code: nothing is assumed
		}
		v.T = x.name("la_"+mangle(lm.Params[i]), ev.sortOf(v), v.T)
		lenv[lm.Params[i]] = Val{T: v.T, Sort: ev.sortOf(v)}
	}
	lpkg := x.pkgByPath(lm.Pkg)
	var req, ens []string
	for _, c := range lm.Requires {
		ev := &Eval{x: x, st: st, old: old, env: lenv, pkg: lpkg}
		req = append(req, x.safeEvalBool(ev, c))
	}
	x.n++
	iv := fmt.Sprintf("%s_q%d", lm.IndVar, x.n)
	for _, c := range lm.Ensures {
		ev := &Eval{x: x, st: st, old: old, env: lenv, pkg: lpkg, bound: map[string]Val{}}
		if lm.IndVar != "" {
			ev.bound[lm.IndVar] = Val{T: iv, Sort: "Int"}
		}
		ens = append(ens, x.safeEvalBool(ev, c))
	}
	concl := andTerms(ens...)
	if lm.IndVar != "" {
		concl = fmt.Sprintf("(forall ((%s Int)) (=> (>= %s 0) %s))", iv, iv, concl)
	}
	x.usedLemmas[lm.Name] = true
	x.assume(st, fmt.Sprintf("(=> %s %s)", andTerms(req...), concl))
}

// runBounded executes the bounded stand-ins of a property against the real code (labelled bounded, never counted
// as discharged obligations).
func runBounded(pc *PropCfg, prop, tier, repo, verif string, skip bool) []map[string]interface{} {
	if skip {
		return nil
	}
	var out []map[string]interface{}
	for _, b := range pc.Bounded {
		bound := b.Quick
		if tier == "thorough" && b.Thorough > 0 {
			bound = b.Thorough
		}
		src := filepath.Join(verif, "bounded", b.Name+"_test.go")
		pkgDir := filepath.Join(repo, b.Dir)
		base := os.Getenv("TMPDIR")
		if base == "" {
			base = "/var/tmp"
		}
		dir, err := os.MkdirTemp(base, "vcgo.bounded.")
		if err != nil {
			continue
		}
		ov := map[string]map[string]string{"Replace": {filepath.Join(pkgDir, "zz_verif_bounded_test.go"): src}}
		ovb, _ := json.Marshal(ov)
		ovFile := filepath.Join(dir, "overlay.json")
		os.WriteFile(ovFile, ovb, 0o644)
		targs := []string{"test", "-overlay", ovFile, "-vet=off", "-count=1", "-timeout", "300s", "-v", "-run", "TestVerifBounded", "."}
		if b.Race {
			targs = append([]string{"test", "-race"}, targs[1:]...)
		}
		cmd := exec.Command("go", targs...)
		cmd.Dir = pkgDir
		// the library under test writes its log files into SENTINEL_LOG_DIR: a directory of this run's own, so that checks
		// running side by side (the sandbox has 16 cores) do not trip over each other's files
		logDir := filepath.Join(dir, "logs")
		os.MkdirAll(logDir, 0o755)
		cmd.Env = append(os.Environ(), "GOFLAGS=-mod=mod", "GOPROXY=off", "GOSUMDB=off", "GOTOOLCHAIN=local", fmt.Sprintf("VERIF_BOUND=%d", bound), "SENTINEL_LOG_DIR="+logDir)
		t0 := time.Now()
		o, _ := cmd.CombinedOutput()
		os.RemoveAll(dir)
		res := map[string]interface{}{"name": b.Name, "bound": bound, "what": b.What, "cases": 0, "result": "error", "wall_s": round2(time.Since(t0).Seconds()), "output": boundedOutput(string(o))}
		for _, ln := range strings.Split(string(o), "\n") {
			if strings.HasPrefix(ln, "BOUNDED ") {
				for _, f := range strings.Fields(ln)[1:] {
					kv := strings.SplitN(f, "=", 2)
					if len(kv) != 2 {
						continue
					}
					switch kv[0] {
					case "cases":
						n, _ := strconv.Atoi(kv[1])
						res["cases"] = n
					case "result":
						res["result"] = kv[1]
					}
				}
			}
		}
		if b.Race && strings.Contains(string(o), "WARNING: DATA RACE") {
			res["result"] = "fail"
			i := strings.Index(string(o), "WARNING: DATA RACE")
			res["output"] = "the race detector reported a data race:\n" + truncate(string(o)[i:], 4000)
		}
		fmt.Printf("bounded %s: bound %d, %v cases, %v\n", b.Name, bound, res["cases"], res["result"])
		out = append(out, res)
	}
	return out
}

// boundedOutput keeps what matters of a stand-in's output: its BOUNDED lines (with their indented continuation
// lines), panics and test failures — the library's own log lines are dropped.
func boundedOutput(o string) string {
	var keep []string
	cont := false
	for _, ln := range strings.Split(o, "\n") {
		switch {
		case strings.HasPrefix(ln, "BOUNDED"):
			keep, cont = append(keep, ln), true
		case cont && strings.HasPrefix(ln, "  "):
			keep = append(keep, ln)
		case strings.HasPrefix(ln, "panic:") || strings.HasPrefix(ln, "--- FAIL") || strings.HasPrefix(ln, "FAIL") || strings.Contains(ln, "DATA RACE") || strings.HasPrefix(ln, "ok "):
			keep, cont = append(keep, ln), false
		default:
			cont = false
		}
	}
	if len(keep) == 0 {
		return truncate(o, 4000)
	}
	return truncate(strings.Join(keep, "\n"), 16000)
}

func fileExists(p string) bool {
	_, err := os.Stat(p)
	return err == nil
}
