package main

import (
	"fmt"
	"go/token"
	"go/types"
	"math/big"
	"sort"
	"strings"

	"golang.org/x/tools/go/ssa"
)

// mayPanic routes an implicit runtime panic (nil dereference, index, division).
func (x *Engine) mayPanic(fr *Frame, st *State, cond, origin string) {
	if cond == "false" {
		return
	}
	if fr.track && (!fr.hooksOnly || strings.HasPrefix(origin, "nilfunc") || strings.HasPrefix(origin, "panic")) {
		pc := x.name("pc", "Bool", andTerms(st.live, cond))
		fr.panics = append(fr.panics, exit{cond: pc, st: st.clone(), origin: origin})
		st.live = x.name("live", "Bool", andTerms(st.live, notTerm(cond)))
	} else {
		x.assume(st, notTerm(cond))
	}
}

func (x *Engine) nilCheck(fr *Frame, st *State, v Val, what string, pos token.Pos) {
	if v.Fresh || v.Addr != nil || strings.HasPrefix(v.T, "gref_") || v.Emb || strings.HasPrefix(v.T, "(eref ") {
		return
	}
	x.mayPanic(fr, st, fmt.Sprintf("(= %s 0)", v.T), "nil["+what+"]@"+posOf(x.prog, pos))
}

// plainAccess: in thread-modular mode a location declared shared may only be accessed through sync/atomic; a plain
// read or write of it is a data race.
func (x *Engine) plainAccess(fr *Frame, st *State, a *Addr, how string, pos token.Pos) {
	if !x.conc || a == nil || a.Priv {
		return
	}
	var differs []string
	for _, sa := range x.sharedAddrs {
		if sa.Key != a.Key {
			continue
		}
		d := fmt.Sprintf("(not (= %s %s))", a.Ref, sa.Ref)
		if a.Idx != "" && sa.Idx != "" {
			d = fmt.Sprintf("(or %s (not (= %s %s)))", d, a.Idx, sa.Idx)
		}
		differs = append(differs, d)
	}
	if len(differs) == 0 {
		return
	}
	p := posOf(x.prog, pos)
	x.ordinals["race:"+how]++
	goal := "(and " + strings.Join(differs, " ") + ")"
	x.obligeNoAssume(st, "race", fmt.Sprintf("plain-%s-of-shared#%d", how, x.ordinals["race:"+how]), goal, "a location declared shared is accessed without sync/atomic ("+how+" of "+a.Key+" at "+p+")", p)
}

func ptrElem(t types.Type) types.Type {
	return t.Underlying().(*types.Pointer).Elem()
}

// load reads through a pointer value.
func (x *Engine) load(fr *Frame, st *State, p Val, pos token.Pos) Val {
	et := ptrElem(p.Typ)
	if p.Static != nil {
		return *p.Static
	}
	if p.Addr != nil {
		x.plainAccess(fr, st, p.Addr, "read", pos)
		v := Val{T: x.name("ld", x.sortOf(et), x.loadAddr(st, p.Addr)), Typ: et}
		x.assume(st, x.wf(et, v.T, st))
		return v
	}
	x.nilCheck(fr, st, p, "load", pos)
	if _, ok := structOf(et); ok {
		return Val{T: x.name("sv", x.sortOf(et), x.loadStruct(st, et, p.T)), Typ: et}
	}
	if arr, ok := et.Underlying().(*types.Array); ok {
		key := x.elemKey(arr.Elem())
		return Val{T: fmt.Sprintf("(select %s %s)", x.get(st, key), p.T), Typ: et}
	}
	if strings.HasPrefix(p.T, "(faddr") {
		x.degrade("dereference of a field address that lost its descriptor in " + fr.fn.String())
	}
	key := x.memKey(et)
	v := Val{T: x.name("ld", x.sortOf(et), fmt.Sprintf("(select %s %s)", x.get(st, key), p.T)), Typ: et}
	x.assume(st, x.wf(et, v.T, st))
	return v
}

func (x *Engine) store(fr *Frame, st *State, p Val, v Val, pos token.Pos) {
	et := ptrElem(p.Typ)
	if !p.Fresh {
		x.bumpEpoch(st)
	}
	if p.Static != nil {
		*p.Static = v
	}
	if p.Addr != nil {
		x.plainAccess(fr, st, p.Addr, "write", pos)
		x.storeAddr(st, p.Addr, v.T)
		return
	}
	x.nilCheck(fr, st, p, "store", pos)
	if _, ok := structOf(et); ok {
		x.storeStruct(st, et, p.T, v.T)
		return
	}
	if arr, ok := et.Underlying().(*types.Array); ok {
		key := x.elemKey(arr.Elem())
		x.set(st, key, fmt.Sprintf("(store %s %s %s)", x.get(st, key), p.T, v.T))
		return
	}
	key := x.memKey(et)
	x.set(st, key, fmt.Sprintf("(store %s %s %s)", x.get(st, key), p.T, v.T))
}

// step executes one instruction; returns true when the block ends (terminator handled).
func (x *Engine) step(fr *Frame, st *State, ins ssa.Instruction, in map[*ssa.BasicBlock][]inEdge) bool {
	if len(x.guards) > 0 {
		x.guardCheck(fr, st, ins)
	}
	switch i := ins.(type) {
	case *ssa.DebugRef:
		return false
	case *ssa.Alloc:
		fr.vals[i] = x.doAlloc(fr, st, i)
	case *ssa.FieldAddr:
		b := x.val(fr, i.X)
		owner := ptrElem(i.X.Type())
		stt, _ := structOf(owner)
		f := stt.Field(i.Field)
		x.nilCheck(fr, st, b, f.Name(), i.Pos())
		if _, inl := structOf(f.Type()); inl {
			fr.vals[i] = Val{T: x.name("er", "Int", x.embRef(owner, f, b.T)), Typ: i.Type(), Fresh: b.Fresh, Emb: true}
		} else {
			key := x.fieldKey(owner, f)
			fr.vals[i] = Val{T: "(faddr 0)", Typ: i.Type(), Addr: &Addr{Kind: "field", Key: key, Ref: b.T}, Fresh: b.Fresh}
		}
	case *ssa.Field:
		b := x.val(fr, i.X)
		stt, _ := structOf(i.X.Type())
		f := stt.Field(i.Field)
		if b.Tup != nil {
			fr.vals[i] = b.Tup[i.Field]
		} else {
			fr.vals[i] = Val{T: fmt.Sprintf("(%s_%s %s)", x.sortOf(i.X.Type()), mangle(f.Name()), b.T), Typ: i.Type()}
		}
	case *ssa.IndexAddr:
		fr.vals[i] = x.indexAddr(fr, st, i)
	case *ssa.Index:
		b := x.val(fr, i.X)
		idx := x.val(fr, i.Index)
		if isString(i.X.Type()) {
			x.abstracted("string indexing")
			fr.vals[i] = x.freshVal("sb", i.Type(), st)
		} else {
			fr.vals[i] = Val{T: fmt.Sprintf("(select %s %s)", b.T, idx.T), Typ: i.Type()}
		}
	case *ssa.UnOp:
		if g, ok := i.X.(*ssa.Global); ok && i.Op == token.MUL && x.isGuardMutex(g) {
			// the mutex variables of "guarded" declarations are set once at package initialisation
			fr.vals[i] = Val{T: x.mutexTerm(g), Typ: i.Type()}
			break
		}
		fr.vals[i] = x.unop(fr, st, i)
	case *ssa.BinOp:
		fr.vals[i] = x.binop(fr, st, i)
	case *ssa.Store:
		x.store(fr, st, x.val(fr, i.Addr), x.val(fr, i.Val), i.Pos())
		// track static contents of local arrays (varargs)
		if ia, ok := i.Addr.(*ssa.IndexAddr); ok {
			if arr, ok := fr.arrays[ia.X]; ok {
				if c, ok := ia.Index.(*ssa.Const); ok && c.Value != nil {
					k := int(c.Int64())
					if k >= 0 && k < len(arr) {
						arr[k] = x.val(fr, i.Val)
					}
				}
			}
		}
	case *ssa.Convert:
		fr.vals[i] = x.convert(fr, st, x.val(fr, i.X), i.X.Type(), i.Type())
	case *ssa.ChangeType:
		v := x.val(fr, i.X)
		v.Typ = i.Type()
		fr.vals[i] = v
	case *ssa.ChangeInterface:
		v := x.val(fr, i.X)
		v.Typ = i.Type()
		fr.vals[i] = v
	case *ssa.MakeInterface:
		fr.vals[i] = x.makeIface(fr, st, x.val(fr, i.X), i.X.Type(), i.Type())
	case *ssa.TypeAssert:
		fr.vals[i] = x.typeAssert(fr, st, i)
	case *ssa.Extract:
		t := x.val(fr, i.Tuple)
		if t.Tup == nil {
			panic("extract from non-tuple " + i.Tuple.Name() + " in " + fr.fn.String())
		}
		fr.vals[i] = t.Tup[i.Index]
	case *ssa.Slice:
		fr.vals[i] = x.slice(fr, st, i)
	case *ssa.MakeSlice:
		ln, cp := x.val(fr, i.Len), x.val(fr, i.Cap)
		r := x.alloc(st)
		el := i.Type().Underlying().(*types.Slice).Elem()
		key := x.elemKey(el)
		if _, ok := structOf(el); !ok {
			x.set(st, key, fmt.Sprintf("(store %s %s ((as const (Array Int %s)) %s))", x.get(st, key), r, x.sortOf(el), x.zero(el)))
		} else {
			x.abstracted("make of a struct slice: elements not zeroed")
		}
		x.mayPanic(fr, st, fmt.Sprintf("(or (< %s 0) (< %s %s))", ln.T, cp.T, ln.T), "makeslice@"+posOf(x.prog, i.Pos()))
		fr.vals[i] = Val{T: x.name("sl", "Slice", fmt.Sprintf("(mk_slice %s %s %s)", r, ln.T, cp.T)), Typ: i.Type(), Fresh: true}
	case *ssa.MakeMap:
		r := x.alloc(st)
		mt := i.Type().Underlying().(*types.Map)
		dom, _ := x.mapKeys(mt)
		x.set(st, dom, fmt.Sprintf("(store %s %s ((as const (Array %s Bool)) false))", x.get(st, dom), r, x.sortOf(mt.Key())))
		x.set(st, "MapLen", fmt.Sprintf("(store %s %s 0)", x.get(st, "MapLen"), r))
		fr.vals[i] = Val{T: r, Typ: i.Type(), Fresh: true}
	case *ssa.MakeClosure:
		var binds []Val
		for _, b := range i.Bindings {
			binds = append(binds, x.val(fr, b))
		}
		r := x.alloc(st)
		fr.vals[i] = Val{T: r, Typ: i.Type(), Clo: &Closure{Fn: i.Fn.(*ssa.Function), Binds: binds}, Fresh: true}
	case *ssa.Lookup:
		m, k := x.val(fr, i.X), x.val(fr, i.Index)
		if isString(i.X.Type()) {
			x.abstracted("string indexing")
			fr.vals[i] = x.freshVal("sb", i.Type(), st)
			break
		}
		v := x.mapLookup(st, m, k)
		v.T = x.name("mv", x.sortOf(v.Typ), v.T)
		x.assume(st, x.wf(v.Typ, v.T, st))
		if i.CommaOk {
			fr.vals[i] = Val{Typ: i.Type(), Tup: []Val{v, {T: x.mapHas(st, m, k), Typ: types.Typ[types.Bool]}}}
		} else {
			fr.vals[i] = v
		}
	case *ssa.MapUpdate:
		m, k, v := x.val(fr, i.Map), x.val(fr, i.Key), x.val(fr, i.Value)
		x.mayPanic(fr, st, fmt.Sprintf("(= %s 0)", m.T), "nilmap@"+posOf(x.prog, i.Pos()))
		x.mapStore(st, m, k, v)
	case *ssa.Range:
		v := x.val(fr, i.X)
		rv := Val{T: v.T, Typ: i.X.Type()}
		if mt, ok := i.X.Type().Underlying().(*types.Map); ok {
			rv.Iter = x.iterKey(fr, i)
			st.h[rv.Iter] = fmt.Sprintf("((as const (Array %s Bool)) false)", x.sortOf(mt.Key()))
		}
		fr.vals[i] = rv
	case *ssa.Next:
		fr.vals[i] = x.next(fr, st, i)
	case *ssa.Call:
		fr.vals[i] = x.call(fr, st, i, i.Common(), i.Pos())
	case *ssa.Defer:
		key := fmt.Sprintf("$defer:%d:%d", fr.id, len(fr.defers))
		x.regComp(key, "Bool")
		fr.defers = append(fr.defers, deferRec{instr: i, key: key})
		st.h[key] = "true"
		// evaluate arguments now
		fr.vals[deferArgs{i}] = Val{Tup: x.args(fr, i.Common())}
	case *ssa.RunDefers:
		x.runDefers(fr, st, false)
	case *ssa.Go:
		x.degrade("go statement in " + fr.fn.String())
		x.abstracted("go statement")
	case *ssa.Send:
		// the value is handed to another goroutine; nothing of this thread's state changes (what the receiver does
		// with it is outside the thread-local model, like every other concurrent effect)
		x.abstracted("channel send: no effect on this thread's state")
	case *ssa.Select, *ssa.MakeChan:
		x.degrade(fmt.Sprintf("channel operation in %s", fr.fn))
		if v, ok := ins.(ssa.Value); ok {
			fr.vals[v] = x.freshVal("ch", v.Type(), st)
		}
	case *ssa.Jump:
		x.edge(fr, st, i.Block(), i.Block().Succs[0], "true", in)
		return true
	case *ssa.If:
		c := x.val(fr, i.Cond)
		b := i.Block()
		x.edge(fr, st, b, b.Succs[0], c.T, in)
		x.edge(fr, st, b, b.Succs[1], notTerm(c.T), in)
		return true
	case *ssa.Return:
		var res []Val
		for _, r := range i.Results {
			res = append(res, x.val(fr, r))
		}
		fr.returns = append(fr.returns, exit{cond: st.live, st: st.clone(), res: res, origin: posOf(x.prog, i.Pos())})
		return true
	case *ssa.Panic:
		fr.panics = append(fr.panics, exit{cond: st.live, st: st.clone(), origin: "panic@" + posOf(x.prog, i.Pos())})
		return true
	default:
		x.degrade(fmt.Sprintf("unsupported instruction %T in %s", ins, fr.fn))
		if v, ok := ins.(ssa.Value); ok {
			fr.vals[v] = x.freshVal("u", v.Type(), st)
		}
	}
	return false
}

// deferArgs is a pseudo value key holding the evaluated arguments of a defer.
type deferArgs struct{ *ssa.Defer }

func (d deferArgs) Name() string                  { return "deferargs" }
func (d deferArgs) String() string                { return "deferargs" }
func (d deferArgs) Type() types.Type              { return nil }
func (d deferArgs) Parent() *ssa.Function         { return d.Defer.Parent() }
func (d deferArgs) Referrers() *[]ssa.Instruction { return nil }
func (d deferArgs) Pos() token.Pos                { return d.Defer.Pos() }

func (x *Engine) edge(fr *Frame, st *State, from, to *ssa.BasicBlock, cond string, in map[*ssa.BasicBlock][]inEdge) {
	ec := x.name("e", "Bool", andTerms(st.live, cond))
	if isBackEdge(from, to) {
		s := st.clone()
		s.live = ec
		x.backEdge(fr, from, to, s)
		return
	}
	in[to] = append(in[to], inEdge{from: from, cond: ec, st: st})
}

func (x *Engine) doAlloc(fr *Frame, st *State, i *ssa.Alloc) Val {
	t := ptrElem(i.Type())
	r := x.alloc(st)
	if _, ok := structOf(t); ok {
		if !isOpaqueStruct(t) {
			x.zeroStruct(st, t, r)
		}
		return Val{T: r, Typ: i.Type(), Fresh: true}
	}
	if arr, ok := t.Underlying().(*types.Array); ok {
		key := x.elemKey(arr.Elem())
		if _, isS := structOf(arr.Elem()); !isS {
			x.set(st, key, fmt.Sprintf("(store %s %s ((as const (Array Int %s)) %s))", x.get(st, key), r, x.sortOf(arr.Elem()), x.zero(arr.Elem())))
		}
		if arr.Len() <= 16 {
			fr.arrays[i] = make([]Val, arr.Len())
		}
		return Val{T: r, Typ: i.Type(), Fresh: true}
	}
	if x.privateCell(fr, i) {
		// a captured local that only this function and its own closures can reach: kept beside the heap, so that
		// code this function calls (which has no way to name it) cannot change it
		x.n++
		pk := fmt.Sprintf("$priv:%d", x.n)
		x.regComp(pk, x.sortOf(t))
		x.privAlloc[pk] = i
		st.h[pk] = x.zero(t)
		return Val{T: r, Typ: i.Type(), Fresh: true, Addr: &Addr{Kind: "priv", Key: pk, Ref: r}}
	}
	key := x.memKey(t)
	x.set(st, key, fmt.Sprintf("(store %s %s %s)", x.get(st, key), r, x.zero(t)))
	return Val{T: r, Typ: i.Type(), Fresh: true}
}

// privateCell: the address of this scalar local is used only to load and store it — here and in function literals of
// this function that are themselves only called or deferred on the spot (never stored, passed on, or started as a
// goroutine) and have no contract of their own — and the allocation is not inside a loop.
func (x *Engine) privateCell(fr *Frame, a *ssa.Alloc) bool {
	if a.Referrers() == nil || a.Block() == nil {
		return false
	}
	for _, li := range fr.loops {
		if li.blocks[a.Block()] {
			return false
		}
	}
	var onlyLoadStore func(v ssa.Value, depth int) bool
	onlyLoadStore = func(v ssa.Value, depth int) bool {
		if v.Referrers() == nil {
			return false
		}
		for _, r := range *v.Referrers() {
			switch u := r.(type) {
			case *ssa.DebugRef:
			case *ssa.UnOp:
				if u.Op != token.MUL {
					return false
				}
			case *ssa.Store:
				if u.Addr != v || u.Val == v {
					return false
				}
			case *ssa.MakeClosure:
				if depth > 0 {
					return false
				}
				fn, ok := u.Fn.(*ssa.Function)
				if !ok || x.db.Funcs[specKeyOf(fn)] != nil || u.Referrers() == nil {
					return false
				}
				for _, cr := range *u.Referrers() {
					switch cu := cr.(type) {
					case *ssa.DebugRef:
					case *ssa.Defer:
						if cu.Call.Value != ssa.Value(u) {
							return false
						}
					case *ssa.Call:
						if cu.Call.Value != ssa.Value(u) {
							return false
						}
					default:
						return false
					}
				}
				for k, b := range u.Bindings {
					if b == v && !onlyLoadStore(fn.FreeVars[k], depth+1) {
						return false
					}
				}
			default:
				return false
			}
		}
		return true
	}
	return onlyLoadStore(a, 0)
}

func (x *Engine) indexAddr(fr *Frame, st *State, i *ssa.IndexAddr) Val {
	b := x.val(fr, i.X)
	idx := x.val(fr, i.Index)
	pos := posOf(x.prog, i.Pos())
	switch u := i.X.Type().Underlying().(type) {
	case *types.Slice:
		x.mayPanic(fr, st, fmt.Sprintf("(or (< %s 0) (>= %s (s_len %s)))", idx.T, idx.T, b.T), "index@"+pos)
		base := fmt.Sprintf("(s_base %s)", b.T)
		off := idx.T
		if b.Off != "" {
			off = x.name("ix", "Int", fmt.Sprintf("(+ %s %s)", b.Off, idx.T))
		}
		if _, ok := structOf(u.Elem()); ok {
			return Val{T: x.name("er", "Int", x.elemRef(base, off)), Typ: i.Type()}
		}
		r := Val{T: "(faddr 1)", Typ: i.Type(), Addr: &Addr{Kind: "elem", Key: x.elemKey(u.Elem()), Ref: base, Idx: off}}
		if b.Elems != nil && b.Off == "" {
			if k, ok := litInt(idx.T); ok && k >= 0 && int(k) < len(b.Elems) && b.Elems[k].T != "" {
				r.Static = &b.Elems[k]
			}
		}
		return r
	case *types.Pointer:
		arr := u.Elem().Underlying().(*types.Array)
		x.nilCheck(fr, st, b, "array", i.Pos())
		x.mayPanic(fr, st, fmt.Sprintf("(or (< %s 0) (>= %s %d))", idx.T, idx.T, arr.Len()), "index@"+pos)
		if b.Addr != nil && b.Addr.Kind == "field" {
			// element of an array stored inline in a struct field: F[obj][idx]
			if _, ok := structOf(arr.Elem()); !ok {
				return Val{T: "(faddr 3)", Typ: i.Type(), Addr: &Addr{Kind: "elem", Key: b.Addr.Key, Ref: b.Addr.Ref, Idx: idx.T}, Fresh: b.Fresh}
			}
		}
		if _, ok := structOf(arr.Elem()); ok {
			return Val{T: x.name("er", "Int", x.elemRef(b.T, idx.T)), Typ: i.Type()}
		}
		return Val{T: "(faddr 2)", Typ: i.Type(), Addr: &Addr{Kind: "elem", Key: x.elemKey(arr.Elem()), Ref: b.T, Idx: idx.T}, Fresh: b.Fresh}
	}
	panic("indexaddr on " + i.X.Type().String())
}

func (x *Engine) unop(fr *Frame, st *State, i *ssa.UnOp) Val {
	v := x.val(fr, i.X)
	switch i.Op {
	case token.MUL:
		r := x.load(fr, st, v, i.Pos())
		if i.CommaOk {
			panic("commaok load")
		}
		return r
	case token.NOT:
		return Val{T: notTerm(v.T), Typ: i.Type()}
	case token.SUB:
		if isFloat(i.Type()) {
			return Val{T: "(- " + v.T + ")", Typ: i.Type()}
		}
		return Val{T: x.name("ng", "Int", wrapTerm(i.Type(), "(- "+v.T+")")), Typ: i.Type()}
	case token.ARROW:
		x.degrade("channel receive in " + fr.fn.String())
		r := x.freshVal("rcv", i.X.Type().Underlying().(*types.Chan).Elem(), st)
		if i.CommaOk {
			ok := x.freshVal("rok", types.Typ[types.Bool], st)
			return Val{Typ: i.Type(), Tup: []Val{r, ok}}
		}
		return r
	case token.XOR:
		x.abstracted("bitwise complement")
		x.degrade("bitwise complement in " + fr.fn.String())
		return x.freshVal("bc", i.Type(), st)
	}
	panic("unop " + i.Op.String())
}

// litInt parses a decimal SMT integer literal ("5" or "(- 5)").
func litInt(s string) (int64, bool) {
	neg := false
	if strings.HasPrefix(s, "(- ") && strings.HasSuffix(s, ")") {
		neg = true
		s = s[3 : len(s)-1]
	}
	if s == "" || len(s) > 17 {
		return 0, false
	}
	var n int64
	for _, c := range s {
		if c < '0' || c > '9' {
			return 0, false
		}
		n = n*10 + int64(c-'0')
	}
	if neg {
		n = -n
	}
	return n, true
}

func boolLit(b bool) string {
	if b {
		return "true"
	}
	return "false"
}

func (x *Engine) binop(fr *Frame, st *State, i *ssa.BinOp) Val {
	a, b := x.val(fr, i.X), x.val(fr, i.Y)
	t := i.X.Type()
	rt := i.Type()
	if isInteger(t) {
		if ka, ok := litInt(a.T); ok {
			if kb, ok := litInt(b.T); ok && ka > -(1<<40) && ka < 1<<40 && kb > -(1<<40) && kb < 1<<40 {
				switch i.Op {
				case token.ADD:
					if !isUnsigned(t) || ka+kb >= 0 {
						return Val{T: intLit(fmt.Sprint(ka + kb)), Typ: rt}
					}
				case token.SUB:
					if !isUnsigned(t) || ka-kb >= 0 {
						return Val{T: intLit(fmt.Sprint(ka - kb)), Typ: rt}
					}
				case token.LSS:
					return Val{T: boolLit(ka < kb), Typ: rt}
				case token.LEQ:
					return Val{T: boolLit(ka <= kb), Typ: rt}
				case token.GTR:
					return Val{T: boolLit(ka > kb), Typ: rt}
				case token.GEQ:
					return Val{T: boolLit(ka >= kb), Typ: rt}
				case token.EQL:
					return Val{T: boolLit(ka == kb), Typ: rt}
				case token.NEQ:
					return Val{T: boolLit(ka != kb), Typ: rt}
				}
			}
		}
	}
	pos := posOf(x.prog, i.Pos())
	cmp := func(op string) Val {
		return Val{T: x.name("c", "Bool", fmt.Sprintf("(%s %s %s)", op, a.T, b.T)), Typ: rt}
	}
	switch i.Op {
	case token.EQL:
		return Val{T: x.name("c", "Bool", x.eqTerm(t, a, b)), Typ: rt}
	case token.NEQ:
		return Val{T: x.name("c", "Bool", notTerm(x.eqTerm(t, a, b))), Typ: rt}
	case token.LSS, token.LEQ, token.GTR, token.GEQ:
		if isString(t) {
			x.declRaw("fun:str_lt", "(declare-fun str_lt (Str Str) Bool)")
			x.abstracted("string ordering")
			switch i.Op {
			case token.LSS:
				return Val{T: fmt.Sprintf("(str_lt %s %s)", a.T, b.T), Typ: rt}
			case token.GTR:
				return Val{T: fmt.Sprintf("(str_lt %s %s)", b.T, a.T), Typ: rt}
			case token.LEQ:
				return Val{T: fmt.Sprintf("(not (str_lt %s %s))", b.T, a.T), Typ: rt}
			default:
				return Val{T: fmt.Sprintf("(not (str_lt %s %s))", a.T, b.T), Typ: rt}
			}
		}
		return cmp(i.Op.String())
	}
	if isString(t) && i.Op == token.ADD {
		x.declRaw("fun:strcat", "(declare-fun strcat (Str Str) Str)")
		x.emit(fmt.Sprintf("(assert (= (strlen (strcat %s %s)) (+ (strlen %s) (strlen %s))))", a.T, b.T, a.T, b.T))
		return Val{T: fmt.Sprintf("(strcat %s %s)", a.T, b.T), Typ: rt}
	}
	if isFloat(t) {
		switch i.Op {
		case token.ADD, token.SUB, token.MUL:
			return Val{T: x.name("f", "Real", fmt.Sprintf("(%s %s %s)", i.Op, a.T, b.T)), Typ: rt}
		case token.QUO:
			if fr.top || true {
				x.divCheck(fr, st, b.T, "0.0", pos, true)
			}
			return Val{T: x.name("f", "Real", fmt.Sprintf("(/ %s %s)", a.T, b.T)), Typ: rt}
		}
	}
	if isInteger(t) {
		switch i.Op {
		case token.ADD, token.SUB, token.MUL:
			if i.Op == token.MUL {
				if _, la := litInt(a.T); !la {
					if _, lb := litInt(b.T); !lb {
						x.mulHints(st, a.T, b.T)
					}
				}
			}
			return Val{T: x.name("a", "Int", wrapTerm(rt, fmt.Sprintf("(%s %s %s)", i.Op, a.T, b.T))), Typ: rt}
		case token.QUO, token.REM:
			x.divCheck(fr, st, b.T, "0", pos, false)
			op := "tdiv"
			if i.Op == token.REM {
				op = "tmod"
			}
			if _, lb := litInt(b.T); !lb && i.Op == token.QUO {
				// valid facts about a quotient by a symbolic positive divisor
				q := fmt.Sprintf("(%s %s %s)", map[bool]string{true: "div", false: "tdiv"}[isUnsigned(t)], a.T, b.T)
				x.assume(st, fmt.Sprintf("(=> (and (<= 0 %s) (< 0 %s)) (and (<= 0 %s) (<= %s %s)))", a.T, b.T, q, q, a.T))
			}
			if isUnsigned(t) {
				op = map[string]string{"tdiv": "div", "tmod": "mod"}[op]
				return Val{T: x.name("a", "Int", fmt.Sprintf("(%s %s %s)", op, a.T, b.T)), Typ: rt}
			}
			return Val{T: x.name("a", "Int", wrapTerm(rt, fmt.Sprintf("(%s %s %s)", op, a.T, b.T))), Typ: rt}
		case token.SHL, token.SHR:
			if c, ok := i.Y.(*ssa.Const); ok && c.Value != nil {
				k := c.Uint64()
				if k < 63 {
					p := fmt.Sprint(uint64(1) << k)
					if i.Op == token.SHL {
						return Val{T: x.name("a", "Int", wrapTerm(rt, fmt.Sprintf("(* %s %s)", a.T, p))), Typ: rt}
					}
					return Val{T: x.name("a", "Int", fmt.Sprintf("(div %s %s)", a.T, p)), Typ: rt}
				}
			}
		}
		x.abstracted("bit operation " + i.Op.String())
		x.degrade("bit operation " + i.Op.String() + " in " + fr.fn.String())
		return x.freshVal("bit", rt, st)
	}
	if b, ok := t.Underlying().(*types.Basic); ok && b.Info()&types.IsBoolean != 0 {
		switch i.Op {
		case token.AND, token.LAND:
			return Val{T: andTerms(a.T, b2s(b, a, x.val(fr, i.Y))), Typ: rt}
		}
	}
	x.degrade(fmt.Sprintf("binary operator %s on %s in %s", i.Op, t, fr.fn))
	return x.freshVal("bo", rt, st)
}

func b2s(_ *types.Basic, _ Val, b Val) string { return b.T }

func (x *Engine) divCheck(fr *Frame, st *State, d, zero, pos string, isFloat bool) {
	if isFloat {
		// a float division by zero does not panic; it yields NaN/Inf, which the real-number model cannot represent:
		// the divisor must be shown non-zero.
		x.ordinals["fdiv"]++
		x.oblige(st, "fdiv", fmt.Sprint(x.ordinals["fdiv"]), fmt.Sprintf("(not (= %s 0.0))", d), "float divisor non-zero at "+pos, pos)
		return
	}
	x.mayPanic(fr, st, fmt.Sprintf("(= %s %s)", d, zero), "div0@"+pos)
}

func (x *Engine) eqTerm(t types.Type, a, b Val) string {
	return fmt.Sprintf("(= %s %s)", a.T, b.T)
}

func (x *Engine) convert(fr *Frame, st *State, v Val, from, to types.Type) Val {
	r := v
	r.Typ = to
	switch {
	case isInteger(from) && isInteger(to):
		flo, fhi, _ := intRange(from)
		tlo, thi, _ := intRange(to)
		if flo == tlo && fhi == thi {
			return r
		}
		r.T = x.name("cv", "Int", wrapTerm(to, v.T))
		return r
	case isInteger(from) && isFloat(to):
		r.T = x.name("cv", "Real", "(to_real "+v.T+")")
		return r
	case isFloat(from) && isInteger(to):
		x.abstracted("float→int conversion assumed in range")
		r.T = x.name("cv", "Int", fmt.Sprintf("(ite (>= %s 0.0) (to_int %s) (- (to_int (- %s))))", v.T, v.T, v.T))
		if lo, hi, ok := intRange(to); ok {
			x.assume(st, fmt.Sprintf("(and (<= %s %s) (<= %s %s))", lo, r.T, r.T, hi))
		}
		return r
	case isFloat(from) && isFloat(to):
		return r
	case x.sortOf(from) == x.sortOf(to):
		return r // pointer/unsafe.Pointer/named conversions keep the representation
	}
	x.abstracted(fmt.Sprintf("conversion %s→%s", typeName(from), typeName(to)))
	return x.freshVal("cv", to, st)
}

func (x *Engine) makeIface(fr *Frame, st *State, v Val, from, to types.Type) Val {
	tag := x.tagOf(from)
	var payload string
	switch s := x.sortOf(from); s {
	case "Int":
		payload = v.T
	default:
		x.declBox(s)
		payload = fmt.Sprintf("(box_%s %s)", mangle(s), v.T)
		x.emit(fmt.Sprintf("(assert (= (unbox_%s %s) %s))", mangle(s), payload, v.T))
	}
	r := Val{T: x.name("if", "Iface", fmt.Sprintf("(mk_iface %d %s)", tag, payload)), Typ: to, Clo: v.Clo}
	if _, isP := from.Underlying().(*types.Pointer); isP {
		if x.putType == nil {
			x.putType = map[string]*boxed{}
		}
		x.putType[r.T] = &boxed{typ: from, ref: v.T}
	}
	return r
}

func (x *Engine) unbox(iface string, t types.Type) string {
	s := x.sortOf(t)
	if s == "Int" {
		return fmt.Sprintf("(i_val %s)", iface)
	}
	x.declBox(s)
	return fmt.Sprintf("(unbox_%s (i_val %s))", mangle(s), iface)
}

func (x *Engine) typeAssert(fr *Frame, st *State, i *ssa.TypeAssert) Val {
	v := x.val(fr, i.X)
	var ok, res string
	if _, isI := i.AssertedType.Underlying().(*types.Interface); isI {
		// interface-to-interface: succeeds iff dynamic type implements it; unknown statically
		x.abstracted("interface-to-interface assertion")
		okv := x.freshVal("tok", types.Typ[types.Bool], nil)
		x.assume(st, fmt.Sprintf("(=> %s (not (= (i_tag %s) 0)))", okv.T, v.T))
		ok, res = okv.T, v.T
	} else {
		tag := x.tagOf(i.AssertedType)
		ok = fmt.Sprintf("(= (i_tag %s) %d)", v.T, tag)
		res = x.unbox(v.T, i.AssertedType)
	}
	if i.CommaOk {
		rv := Val{T: x.name("ta", x.sortOf(i.AssertedType), fmt.Sprintf("(ite %s %s %s)", ok, res, x.zero(i.AssertedType))), Typ: i.AssertedType}
		x.assume(st, x.wf(i.AssertedType, rv.T, st))
		return Val{Typ: i.Type(), Tup: []Val{rv, {T: x.name("tok", "Bool", ok), Typ: types.Typ[types.Bool]}}}
	}
	// a failed assertion panics regardless of tracking mode
	pc := x.name("pc", "Bool", andTerms(st.live, notTerm(ok)))
	fr.panics = append(fr.panics, exit{cond: pc, st: st.clone(), origin: "typeassert@" + posOf(x.prog, i.Pos())})
	st.live = x.name("live", "Bool", andTerms(st.live, ok))
	rv := Val{T: x.name("ta", x.sortOf(i.AssertedType), res), Typ: i.AssertedType}
	x.assume(st, x.wf(i.AssertedType, rv.T, st))
	if v.Pooled {
		if g, c := x.poolInv(st, i.AssertedType, rv.T); c != nil {
			x.assume(st, g)
			x.assumedC["pool invariant of "+typeName(i.AssertedType)+" (objects in the pool are as left by New/Reset and held by nobody else)"] = true
		}
	}
	return rv
}

func (x *Engine) slice(fr *Frame, st *State, i *ssa.Slice) Val {
	b := x.val(fr, i.X)
	var lo, hi string
	if i.Low != nil {
		lo = x.val(fr, i.Low).T
	} else {
		lo = "0"
	}
	pos := posOf(x.prog, i.Pos())
	switch u := i.X.Type().Underlying().(type) {
	case *types.Slice:
		if i.High != nil {
			hi = x.val(fr, i.High).T
		} else {
			hi = fmt.Sprintf("(s_len %s)", b.T)
		}
		x.mayPanic(fr, st, fmt.Sprintf("(or (< %s 0) (< %s %s) (< (s_cap %s) %s))", lo, hi, lo, b.T, hi), "slicebounds@"+pos)
		r := Val{T: x.name("sl", "Slice", fmt.Sprintf("(mk_slice (s_base %s) (- %s %s) (- (s_cap %s) %s))", b.T, hi, lo, b.T, lo)), Typ: i.Type(), Fresh: b.Fresh}
		if lo != "0" || b.Off != "" {
			r.Off = lo
			if b.Off != "" {
				r.Off = fmt.Sprintf("(+ %s %s)", b.Off, lo)
			}
		}
		if b.Elems != nil && lo == "0" && i.High == nil {
			r.Elems = b.Elems
		}
		return r
	case *types.Pointer:
		arr := u.Elem().Underlying().(*types.Array)
		if i.High != nil {
			hi = x.val(fr, i.High).T
		} else {
			hi = fmt.Sprint(arr.Len())
		}
		r := Val{T: x.name("sl", "Slice", fmt.Sprintf("(mk_slice %s (- %s %s) (- %d %s))", b.T, hi, lo, arr.Len(), lo)), Typ: i.Type(), Fresh: b.Fresh}
		if lo != "0" {
			r.Off = lo
		}
		if st, ok := fr.arrays[i.X]; ok && lo == "0" && i.High == nil {
			r.Elems = st
		}
		return r
	case *types.Basic:
		x.abstracted("string slicing")
		return x.freshVal("ss", i.Type(), st)
	}
	panic("slice of " + i.X.Type().String())
}

func (x *Engine) mapStore(st *State, m, k, v Val) {
	mt := m.Typ.Underlying().(*types.Map)
	dom, val := x.mapKeys(mt)
	d, vv, ln := x.get(st, dom), x.get(st, val), x.get(st, "MapLen")
	had := fmt.Sprintf("(select (select %s %s) %s)", d, m.T, k.T)
	x.set(st, "MapLen", fmt.Sprintf("(store %s %s (ite %s (select %s %s) (+ (select %s %s) 1)))", ln, m.T, had, ln, m.T, ln, m.T))
	x.set(st, dom, fmt.Sprintf("(store %s %s (store (select %s %s) %s true))", d, m.T, d, m.T, k.T))
	x.set(st, val, fmt.Sprintf("(store %s %s (store (select %s %s) %s %s))", vv, m.T, vv, m.T, k.T, v.T))
	if !m.Fresh {
		x.bumpEpoch(st)
	}
}

func (x *Engine) mapDelete(st *State, m, k Val) {
	mt := m.Typ.Underlying().(*types.Map)
	dom, _ := x.mapKeys(mt)
	d, ln := x.get(st, dom), x.get(st, "MapLen")
	had := fmt.Sprintf("(select (select %s %s) %s)", d, m.T, k.T)
	x.set(st, "MapLen", fmt.Sprintf("(store %s %s (ite %s (- (select %s %s) 1) (select %s %s)))", ln, m.T, had, ln, m.T, ln, m.T))
	x.set(st, dom, fmt.Sprintf("(store %s %s (store (select %s %s) %s false))", d, m.T, d, m.T, k.T))
	x.bumpEpoch(st)
}

// next: one step of a range over a map or string: arbitrary member of the domain.
func (x *Engine) next(fr *Frame, st *State, i *ssa.Next) Val {
	it := x.val(fr, i.Iter)
	ok := x.freshVal("nok", types.Typ[types.Bool], nil)
	tup := i.Type().(*types.Tuple)
	if i.IsString {
		x.abstracted("range over string")
		k := x.freshVal("nk", tup.At(1).Type(), st)
		v := x.freshVal("nv", tup.At(2).Type(), st)
		return Val{Typ: i.Type(), Tup: []Val{ok, k, v}}
	}
	mt := it.Typ.Underlying().(*types.Map)
	k := x.freshVal("nk", mt.Key(), st)
	m := Val{T: it.T, Typ: it.Typ}
	seen := x.get(st, it.Iter)
	// an arbitrary not yet visited member of the domain; none left exactly when every member was visited
	x.assume(st, fmt.Sprintf("(=> %s (and %s (not (select %s %s))))", ok.T, x.mapHas(st, m, k), seen, k.T))
	ks := x.sortOf(mt.Key())
	dom, _ := x.mapKeys(mt)
	x.assume(st, fmt.Sprintf("(=> (not %s) (forall ((kq %s)) (! (=> (select (select %s %s) kq) (select %s kq)) :pattern ((select %s kq)))))", ok.T, ks, x.get(st, dom), m.T, seen, seen))
	x.set(st, it.Iter, fmt.Sprintf("(ite %s (store %s %s true) %s)", ok.T, seen, k.T, seen))
	v := x.mapLookup(st, m, k)
	v.T = x.name("nv", x.sortOf(v.Typ), v.T)
	x.assume(st, x.wf(v.Typ, v.T, st))
	x.abstracted("map iteration: arbitrary order, each key visited exactly once")
	return Val{Typ: i.Type(), Tup: []Val{ok, k, v}}
}

func (x *Engine) iterKey(fr *Frame, r *ssa.Range) string {
	mt := r.X.Type().Underlying().(*types.Map)
	key := fmt.Sprintf("Iter:%d:%s", fr.id, r.Name())
	x.regComp(key, fmt.Sprintf("(Array %s Bool)", x.sortOf(mt.Key())))
	return key
}

type boxed struct {
	typ types.Type
	ref string
}

// mulHints: valid facts about a product of two symbolic integers (sign and power-of-two magnitude bounds). They are
// consequences of integer arithmetic, stated explicitly because solvers are weak on non-linear bounds.
func (x *Engine) mulHints(st *State, a, b string) {
	p := fmt.Sprintf("(* %s %s)", a, b)
	x.assume(st, fmt.Sprintf("(=> (and (<= 0 %s) (<= 0 %s)) (<= 0 %s))", a, b, p))
	for _, ij := range [][2]uint{{20, 42}, {42, 20}, {20, 41}, {41, 20}, {20, 20}, {31, 32}, {32, 31}, {40, 20}, {20, 40}, {32, 20}, {20, 32}} {
		x.assume(st, fmt.Sprintf("(=> (and (<= 0 %s) (< %s %s) (<= 0 %s) (< %s %s)) (< %s %s))", a, a, pow2(ij[0]), b, b, pow2(ij[1]), p, pow2(ij[0]+ij[1])))
	}
}

func pow2(k uint) string {
	n := new(big.Int).Lsh(big.NewInt(1), k)
	return n.String()
}

// guardCheck generates the lock-discipline obligations of "guarded G by M": every load or store of G, and every use
// of the value loaded from G (map lookup / update / range / len / delete / passing it on), happens while this
// thread holds M — the write lock for stores and map updates, any lock otherwise.
func (x *Engine) guardCheck(fr *Frame, st *State, ins ssa.Instruction) {
	held := func(gd *guard, write bool) string {
		mu := x.mutexTerm(gd.mu)
		x.regComp("Lock:w", "(Array Int Int)")
		x.regComp("Lock:r", "(Array Int Int)")
		w := fmt.Sprintf("(select %s %s)", x.get(st, "Lock:w"), mu)
		if gd.alt != nil {
			a := fmt.Sprintf("(> (select %s %s) 0)", x.get(st, "Lock:w"), x.mutexTerm(gd.alt))
			if write {
				return fmt.Sprintf("(and (> %s 0) %s)", w, a)
			}
			return fmt.Sprintf("(or (> (+ %s (select %s %s)) 0) %s)", w, x.get(st, "Lock:r"), mu, a)
		}
		if write {
			return fmt.Sprintf("(> %s 0)", w)
		}
		return fmt.Sprintf("(> (+ %s (select %s %s)) 0)", w, x.get(st, "Lock:r"), mu)
	}
	check := func(gd *guard, write bool, what string) {
		if !hasProp(gd.props, x.curProp) {
			return
		}
		p := posOf(x.prog, ins.Pos())
		kind := "read"
		if write {
			kind = "write"
		}
		x.ordinals["guard:"+gd.g.Name()+kind]++
		o := x.obligeNoAssume(st, "guard", fmt.Sprintf("%s-of-%s-under-%s#%d", kind, gd.g.Name(), gd.mu.Name(), x.ordinals["guard:"+gd.g.Name()+kind]), held(gd, write),
			fmt.Sprintf("%s (%s) of %s while holding %s, at %s", kind, what, gd.g.Name(), gd.mu.Name(), p), p)
		o.Props, o.Tagged = gd.props, true
	}
	switch i := ins.(type) {
	case *ssa.UnOp:
		if g, ok := i.X.(*ssa.Global); ok && i.Op == token.MUL {
			if gd := x.guards[g]; gd != nil {
				check(gd, false, "load")
				if fr.guarded == nil {
					fr.guarded = map[ssa.Value]*guard{}
				}
				fr.guarded[i] = gd
			}
			return
		}
	case *ssa.Store:
		if g, ok := i.Addr.(*ssa.Global); ok {
			if gd := x.guards[g]; gd != nil {
				check(gd, true, "store")
			}
		}
	}
	if fr.guarded == nil {
		return
	}
	for _, op := range ins.Operands(nil) {
		if op == nil || *op == nil {
			continue
		}
		gd := fr.guarded[*op]
		if gd == nil {
			continue
		}
		switch i := ins.(type) {
		case *ssa.MapUpdate:
			check(gd, true, "map update")
			if gd.insertOnce && hasProp(gd.props, x.curProp) {
				// entries of this table are created once: the slot written must still be empty (other threads may
				// have filled it since this thread last looked — see guardInterference)
				mv, kv := x.val(fr, i.Map), x.val(fr, i.Key)
				cur := x.mapLookup(st, mv, kv)
				empty := fmt.Sprintf("(not %s)", x.mapHas(st, mv, kv))
				if x.sortOf(cur.Typ) == "Int" {
					empty = fmt.Sprintf("(or %s (= %s 0))", empty, cur.T)
				}
				p := posOf(x.prog, ins.Pos())
				x.ordinals["guard:once:"+gd.g.Name()]++
				o := x.obligeNoAssume(st, "guard", fmt.Sprintf("entry-of-%s-created-only-once#%d", gd.g.Name(), x.ordinals["guard:once:"+gd.g.Name()]), empty,
					fmt.Sprintf("the entry of %s written at %s is still empty (check and insert under one acquisition of %s)", gd.g.Name(), p, gd.mu.Name()), p)
				o.Props, o.Tagged = gd.props, true
			}
		case *ssa.Range:
			check(gd, false, "range")
			fr.guarded[i] = gd
		case *ssa.Next:
			check(gd, false, "iteration step")
		case *ssa.Lookup:
			check(gd, false, "lookup")
		case ssa.CallInstruction:
			if b, ok := i.Common().Value.(*ssa.Builtin); ok && b.Name() == "delete" {
				check(gd, true, "delete")
			} else {
				check(gd, false, "use in a call")
			}
		case *ssa.Store:
			// storing the guarded value itself elsewhere lets it escape the lock
			check(gd, false, "copying the reference")
		default:
			check(gd, false, "use")
		}
		return
	}
}

func (x *Engine) isGuardMutex(g *ssa.Global) bool {
	for _, gd := range x.guards {
		if gd.mu == g || gd.alt == g {
			return true
		}
	}
	for _, o := range x.lockOrders {
		if o[0] == g || o[1] == g {
			return true
		}
	}
	return false
}

// mutexTerm: the (constant) address held by a mutex variable of a "guarded" declaration.
func (x *Engine) mutexTerm(g *ssa.Global) string {
	n := "gmux_" + mangle(shortPkg(g.Pkg.Pkg.Path())+"."+g.Name())
	if x.muxIDs == nil {
		x.muxIDs = map[string]int{}
	}
	if _, ok := x.muxIDs[n]; !ok {
		x.muxIDs[n] = len(x.muxIDs) + 1 // distinct mutex variables hold distinct mutexes
	}
	x.declRaw("mux:"+n, fmt.Sprintf("(define-fun %s () Int %d)", n, x.muxIDs[n]))
	return n
}

// pkgMutexes: the declared mutex variables of a package.
func (x *Engine) pkgMutexes(pkg *ssa.Package) []*ssa.Global {
	seen := map[*ssa.Global]bool{}
	var out []*ssa.Global
	add := func(g *ssa.Global) {
		if g != nil && g.Pkg == pkg && !seen[g] {
			seen[g] = true
			out = append(out, g)
		}
	}
	for _, gd := range x.guards {
		add(gd.mu)
		add(gd.alt)
	}
	for _, o := range x.lockOrders {
		add(o[0])
		add(o[1])
	}
	sort.Slice(out, func(i, j int) bool { return out[i].Name() < out[j].Name() })
	return out
}

// notHeldTerms: for the declared mutexes of pkg that the contract's lock preconditions do not mention, "not held".
func (x *Engine) notHeldTerms(st *State, pkg *ssa.Package, fs *FuncSpec) []string {
	x.regComp("Lock:w", "(Array Int Int)")
	x.regComp("Lock:r", "(Array Int Int)")
	var out []string
	for _, m := range x.pkgMutexes(pkg) {
		mentioned := false
		if fs != nil {
			for _, c := range fs.Requires {
				if len(c.Props) > 0 && hasProp(c.Props, x.curProp) && strings.Contains(c.Text, m.Name()) {
					mentioned = true
				}
			}
		}
		if !mentioned {
			mu := x.mutexTerm(m)
			out = append(out, fmt.Sprintf("(= (+ (select %s %s) (select %s %s)) 0)", x.get(st, "Lock:w"), mu, x.get(st, "Lock:r"), mu))
		}
	}
	return out
}

// guardInterference: when this thread acquires a mutex, whatever it knew about the variables guarded by that mutex is
// stale — other threads may have changed them while it did not hold the lock (thread-modular view; only under the
// property of the guard declarations).
func (x *Engine) guardInterference(st *State, mu string) {
	for _, gd := range x.guards {
		if !hasProp(gd.props, x.curProp) || x.mutexTerm(gd.mu) != mu {
			continue
		}
		key := x.globalKey(gd.g)
		old := x.get(st, key)
		if mt, ok := gd.g.Type().(*types.Pointer).Elem().Underlying().(*types.Map); ok {
			dom, val := x.mapKeys(mt)
			for _, k := range []string{dom, val, "MapLen"} {
				cur := x.get(st, k)
				row := x.fresh("ifr")
				srt := x.compSortOf(k)
				// (Array Int X): forget the row of the old map object
				x.decl(row, strings.TrimSuffix(strings.TrimPrefix(srt, "(Array Int "), ")"))
				st.h[k] = x.name("H", srt, fmt.Sprintf("(store %s %s %s)", cur, old, row))
			}
		}
		x.havocKey(st, key)
		nv := x.get(st, key)
		x.assume(st, x.wf(gd.g.Type().(*types.Pointer).Elem(), nv, st))
	}
}
