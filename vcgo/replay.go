package main

import (
	"bytes"
	"context"
	"encoding/json"
	"fmt"
	"os"
	"os/exec"
	"path/filepath"
	"strings"
	"text/template"
	"time"
)

type Witness struct {
	Name string
	Term string
	Sort string
}

// tryReplay turns a model into an execution of the real code when the function's contract names a replay template.
// It returns the transcript and whether the real code reproduced the violation.
func tryReplay(prop string, o *Obl, r *FuncReport, repo, verif string) (string, bool) {
	for sub, tmpl := range r.ReplayFor {
		if strings.Contains(o.Label, sub) {
			rr := *r
			rr.ReplayFor = nil
			rr.Replay = tmpl
			if i := strings.Index(tmpl, "@"); i >= 0 {
				rr.PkgDir, rr.Replay = tmpl[i+1:], tmpl[:i]
			}
			return tryReplay(prop, o, &rr, repo, verif)
		}
	}
	if r.Replay == "" || o.File == "" {
		return "", false
	}
	if o.Status != "sat" {
		// no model of the full query: try the candidate model of the weakened (quantifier-free) query
		lite := strings.TrimSuffix(o.File, ".smt2") + ".lite.smt2"
		if !o.LiteSat || !fileExists(lite) {
			return "", false
		}
		oo := *o
		oo.File, oo.Status, oo.Solver = lite, "sat", ""
		out, ok := tryReplay(prop, &oo, r, repo, verif)
		return "candidate counterexample from the weakened (quantifier-free) query:\n" + out, ok
	}
	vals, raw, err := witnessValues(o, r)
	if err != nil {
		return "witness extraction failed: " + err.Error() + "\n" + raw, false
	}
	var b strings.Builder
	fmt.Fprintf(&b, "witness values from the solver model:\n")
	for _, w := range r.Witness {
		fmt.Fprintf(&b, "  %s = %s\n", w.Name, vals[w.Name])
	}
	tmplFile := filepath.Join(verif, "replay", r.Replay+".go.tmpl")
	tdata, err := os.ReadFile(tmplFile)
	if err != nil {
		return b.String() + "no template " + tmplFile, false
	}
	t, err := template.New("r").Option("missingkey=error").Funcs(template.FuncMap{"has": strings.Contains}).Parse(string(tdata))
	if err != nil {
		return b.String() + "template error: " + err.Error(), false
	}
	data := map[string]string{"Obligation": o.Name, "Label": o.Label, "Kind": o.Kind, "Func": o.Func, "Pkg": filepath.Base(r.PkgDir)}
	for k, v := range vals {
		data[k] = v
	}
	var src bytes.Buffer
	if err := t.Execute(&src, data); err != nil {
		return b.String() + "template execution: " + err.Error(), false
	}
	base := os.Getenv("TMPDIR")
	if base == "" {
		base = "/var/tmp"
	}
	dir, err := os.MkdirTemp(base, "vcgo.replay.")
	if err != nil {
		return b.String() + err.Error(), false
	}
	defer os.RemoveAll(dir)
	testFile := filepath.Join(dir, "zz_verif_replay_test.go")
	os.WriteFile(testFile, src.Bytes(), 0o644)
	pkgDir := filepath.Join(repo, r.PkgDir)
	ov := map[string]map[string]string{"Replace": {filepath.Join(pkgDir, "zz_verif_replay_test.go"): testFile}}
	ovb, _ := json.Marshal(ov)
	ovFile := filepath.Join(dir, "overlay.json")
	os.WriteFile(ovFile, ovb, 0o644)
	ctx, cancel := context.WithTimeout(context.Background(), 150*time.Second)
	defer cancel()
	args := []string{"test", "-overlay", ovFile, "-vet=off", "-count=1", "-timeout", "60s", "-v", "-run", "TestVerifReplay", "."}
	raceMode := strings.HasPrefix(r.Replay, "race_")
	if raceMode {
		// a template named race_* is run under the race detector: its report is the confirmation
		args = append([]string{"test", "-race"}, args[1:]...)
	}
	cmd := exec.CommandContext(ctx, "go", args...)
	cmd.Dir = pkgDir
	logDir := filepath.Join(dir, "logs") // the library's log files go into this run's own directory
	os.MkdirAll(logDir, 0o755)
	cmd.Env = append(os.Environ(), "GOFLAGS=-mod=mod", "GOPROXY=off", "GOSUMDB=off", "GOTOOLCHAIN=local", "SENTINEL_LOG_DIR="+logDir)
	out, _ := cmd.CombinedOutput()
	fmt.Fprintf(&b, "\ngo test -overlay (real %s, template %s):\n%s\n", r.PkgDir, r.Replay, truncate(string(out), 6000))
	fmt.Fprintf(&b, "\n--- replay test source ---\n%s\n", src.String())
	if raceMode && strings.Contains(string(out), "WARNING: DATA RACE") {
		fmt.Fprintf(&b, "\nREPLAY-CONFIRMED the race detector reports a data race on the real code\n")
		return b.String(), true
	}
	return b.String(), strings.Contains(string(out), "REPLAY-CONFIRMED")
}

// witnessValues re-runs the query with (get-value ...) for the witness terms.
func witnessValues(o *Obl, r *FuncReport) (map[string]string, string, error) {
	if len(r.Witness) == 0 {
		return map[string]string{}, "", nil
	}
	data, err := os.ReadFile(o.File)
	if err != nil {
		return nil, "", err
	}
	txt := strings.Replace(string(data), "(get-model)\n", "", 1)
	var terms []string
	for _, w := range r.Witness {
		terms = append(terms, w.Term)
	}
	txt += "(get-value (" + strings.Join(terms, " ") + "))\n"
	f := strings.TrimSuffix(o.File, ".smt2") + ".wit.smt2"
	os.WriteFile(f, []byte(txt), 0o644)
	var out string
	for _, sp := range solvers {
		if sp.Name != o.Solver && o.Solver != "" && !strings.Contains(o.Solver, sp.Name+"=sat") {
			continue
		}
		res := runOne(context.Background(), sp, f, 30, 0)
		out = res.out
		if res.status == "sat" {
			break
		}
	}
	if !strings.HasPrefix(strings.TrimSpace(out), "sat") {
		// any solver
		for _, sp := range solvers {
			res := runOne(context.Background(), sp, f, 30, 0)
			out = res.out
			if res.status == "sat" {
				break
			}
		}
	}
	i := strings.Index(out, "(")
	if i < 0 {
		return nil, out, fmt.Errorf("no values")
	}
	sx, _, err := parseSexp(out[i:])
	if err != nil {
		return nil, out, err
	}
	vals := map[string]string{}
	for k, item := range sx.list {
		if k >= len(r.Witness) || len(item.list) != 2 {
			continue
		}
		vals[r.Witness[k].Name] = goLiteral(item.list[1], r.Witness[k].Sort)
	}
	for _, w := range r.Witness {
		if _, ok := vals[w.Name]; !ok {
			return nil, out, fmt.Errorf("no value for %s", w.Name)
		}
	}
	return vals, out, nil
}

type sexp struct {
	atom string
	list []*sexp
}

func parseSexp(s string) (*sexp, string, error) {
	s = strings.TrimLeft(s, " \t\n\r")
	if s == "" {
		return nil, "", fmt.Errorf("empty")
	}
	if s[0] == '(' {
		s = s[1:]
		n := &sexp{}
		for {
			s = strings.TrimLeft(s, " \t\n\r")
			if s == "" {
				return nil, "", fmt.Errorf("unbalanced")
			}
			if s[0] == ')' {
				return n, s[1:], nil
			}
			c, rest, err := parseSexp(s)
			if err != nil {
				return nil, "", err
			}
			n.list = append(n.list, c)
			s = rest
		}
	}
	i := 0
	for i < len(s) && !strings.ContainsRune(" \t\n\r()", rune(s[i])) {
		i++
	}
	return &sexp{atom: s[:i]}, s[i:], nil
}

// goLiteral renders a model value as a Go literal (ints, rationals as float expression, bools).
func goLiteral(v *sexp, sort string) string {
	if v.atom != "" {
		a := v.atom
		if sort == "Real" && !strings.Contains(a, ".") {
			a += ".0"
		}
		return a
	}
	if len(v.list) == 2 && v.list[0].atom == "-" {
		return "-" + goLiteral(v.list[1], sort)
	}
	if len(v.list) == 3 && v.list[0].atom == "/" {
		return "(" + goLiteral(v.list[1], "Real") + "/" + goLiteral(v.list[2], "Real") + ")"
	}
	if len(v.list) >= 1 && strings.HasPrefix(v.list[0].atom, "mk_") {
		var parts []string
		for _, c := range v.list[1:] {
			parts = append(parts, goLiteral(c, "Int"))
		}
		return strings.Join(parts, ",")
	}
	return "0 /* unparsed model value */"
}
