package main

// Contract files: comment-only Go files guarded by //go:build verif.
// Every line starting with "//@" belongs to the contract language.
//
//   //@ func (d *T) Name(p1, p2) (r1, r2)      header: names bind positionally
//   //@   props C02, C04
//   //@   requires[label] <expr>
//   //@   ensures[label] <expr>
//   //@   modifies nothing | <loc>, <loc>
//   //@   panics never | may
//   //@   pure                                  result is a function of state+args, no effects
//   //@   assumed                               contract is trusted, body not verified
//   //@   loop 1:
//   //@     invariant[label] <expr>
//   //@   lemma name: <expr>                     (top level) closed formula proved valid
//   //@ iface pkg.Type.Method(p1) r             contract of an interface method
//   //@ ghost var name Int|Real|Bool
//   //@ spec func name(a Int, b Real) Bool = <expr>

import (
	"fmt"
	"os"
	"strings"
)

type Clause struct {
	Loc     *Node  // onwrite: the watched location
	Kind    string // requires ensures invariant modifies assume
	Label   string
	Text    string
	Expr    *Node
	Line    int
	File    string
	Props   []string // optional clause-level restriction
	NoCover bool     // label ended in "?": the antecedent may be unreachable for some functions (contract templates)
}

type LoopSpec struct {
	Lets     []*Clause // let name = expr, evaluated once at loop entry
	Key      string
	Invs     []*Clause
	Modifies []*Clause
	Decr     string
}

type FuncSpec struct {
	Key        string // pkgpath.(*T).Name or pkgpath.Name ; iface: pkgpath.T.Name
	Pkg        string
	Recv       string // receiver contract-local name
	Params     []string
	Results    []string
	Props      []string
	Requires   []*Clause
	Ensures    []*Clause
	Modifies   []*Clause
	HasMod     bool
	ModHeap    bool   // modifies heap: every non-ghost component may change
	Panics     string // "", "never", "may"
	Pure       bool
	Assumed    bool
	Conc       bool
	ConcProps  []string  // properties under which the function is verified in thread-modular (volatile) mode
	ConcAlso   bool      // `concurrent P... and sequential`: under those properties the function is verified twice
	Shared     []*Clause // shared locations: may change before every atomic access in that mode
	OnWrites   []*Clause // onwrite[label] loc: cond — checked right after each atomic write to loc (new/prev bound)
	IsIface    bool
	Stable     bool // pure and independent of the heap (function of receiver and arguments only)
	IsCallback bool
	NoInline   bool
	Unroll     bool
	Loops      map[string]*LoopSpec
	File       string
	Line       int
	Lets       []*Clause // let name = expr (evaluated in pre-state)
	Cases      []*Clause // case name: cond — the function is verified once per case, cond added to requires
	Sets       []*Clause // sets g = expr: ghost assignment performed at the normal return
	Uses       []*Clause // use lemma(args): instantiate a proved lemma before the postconditions
	Wits       []*Clause // witness name = expr (reported from counterexamples)
	Replay     string
	ReplayFor  map[string]string // label substring -> template
}

type GhostVar struct {
	Name string
	Sort string
	Pkg  string
}

type SpecFunc struct {
	Rec    bool
	Name   string
	Params []string
	Sorts  []string
	Ret    string
	Body   *Node
	Text   string
	Pkg    string
}

type Lemma struct {
	Params   []string
	Sorts    []string
	IndVar   string
	Requires []*Clause
	Ensures  []*Clause
	Name     string
	Props    []string
	Expr     *Node
	Text     string
	Pkg      string
	File     string
	Line     int
}

type SpecDB struct {
	Funcs    map[string]*FuncSpec
	Ghosts   map[string]*GhostVar
	SFuncs   map[string]*SpecFunc
	Lemmas   []*Lemma
	Order    []string
	UFuncs   map[string]*UFunc
	PoolInvs map[string]*Clause // type string -> invariant over `it` of pooled objects
	Autos    []*AutoSpec        // contract templates applied to every function that calls a given function
	Orders   []*GuardSpec       // "lockorder OUTER INNER": Global = OUTER, Mutex = INNER
	Guards   []*GuardSpec       // "guarded G by M {props}": package variable G is only accessed while holding mutex M
}

type GuardSpec struct {
	Pkg, Global, Mutex string
	ReadersAlso        string
	InsertOnce         bool // a map whose entries are created once and never overwritten (check-then-insert must be atomic)
	Props              []string
	File               string
	Line               int
}

// AutoSpec: "//@ autofunc calls KEY" — the clauses that follow are given to every function of the loaded packages
// whose body calls KEY directly (merged into an explicit contract of that function when there is one).
type AutoSpec struct {
	Calls string
	Spec  *FuncSpec
}

// UFunc is an uninterpreted ghost function: //@ ghost func name(Int, Real) Int
type UFunc struct {
	Name  string
	Sorts []string
	Ret   string
}

func newSpecDB() *SpecDB {
	db := newSpecDB0()
	db.Ghosts["clock_ms"] = &GhostVar{Name: "clock_ms", Sort: "Int"}
	db.Ghosts["clock_ns"] = &GhostVar{Name: "clock_ns", Sort: "Int"}
	db.Ghosts["slept_ns"] = &GhostVar{Name: "slept_ns", Sort: "Int"} // total of all util.Sleep / time.Sleep arguments
	return db
}

func newSpecDB0() *SpecDB {
	return &SpecDB{Funcs: map[string]*FuncSpec{}, Ghosts: map[string]*GhostVar{}, SFuncs: map[string]*SpecFunc{}, UFuncs: map[string]*UFunc{}, PoolInvs: map[string]*Clause{}}
}

var clauseKw = map[string]bool{"requires": true, "ensures": true, "modifies": true, "panics": true, "props": true,
	"loop": true, "invariant": true, "pure": true, "stable": true, "assumed": true, "concurrent": true, "noinline": true, "unroll": true, "let": true, "decreases": true, "witness": true, "replay": true, "case": true, "use": true, "objinv": true, "sets": true, "shared": true, "onwrite": true, "always": true}
var topKw = map[string]bool{"poolinv": true, "ilemma": true, "func": true, "extern": true, "autofunc": true, "guarded": true, "lockorder": true, "iface": true, "callback": true, "ghost": true, "spec": true, "lemma": true}

func firstWord(s string) (string, string) {
	s = strings.TrimSpace(s)
	i := 0
	for i < len(s) && (s[i] == '_' || s[i] >= 'a' && s[i] <= 'z' || s[i] >= 'A' && s[i] <= 'Z') {
		i++
	}
	return s[:i], s[i:]
}

// parseLabel parses an optional [label] and {C01,C02} prefix.
func parseLabel(rest string) (label string, props []string, body string) {
	rest = strings.TrimLeft(rest, " \t")
	if strings.HasPrefix(rest, "[") {
		j := strings.Index(rest, "]")
		label = rest[1:j]
		rest = rest[j+1:]
	}
	rest = strings.TrimLeft(rest, " \t")
	if strings.HasPrefix(rest, "{") {
		j := strings.Index(rest, "}")
		for _, p := range strings.Split(rest[1:j], ",") {
			props = append(props, strings.TrimSpace(p))
		}
		rest = rest[j+1:]
	}
	return label, props, strings.TrimSpace(rest)
}

func (db *SpecDB) loadFile(path, pkgPath string) error {
	data, err := os.ReadFile(path)
	if err != nil {
		return err
	}
	type item struct {
		text string
		line int
	}
	var items []item
	for i, ln := range strings.Split(string(data), "\n") {
		t := strings.TrimSpace(ln)
		if !strings.HasPrefix(t, "//@") {
			continue
		}
		t = strings.TrimSpace(t[3:])
		if t == "" || strings.HasPrefix(t, "//") {
			continue
		}
		if k := strings.Index(t, " // "); k >= 0 && !strings.Contains(t[:k], "\"") {
			t = strings.TrimSpace(t[:k])
		}
		w, _ := firstWord(t)
		if topKw[w] || clauseKw[w] {
			items = append(items, item{t, i + 1})
		} else if len(items) > 0 {
			items[len(items)-1].text += " " + t
		} else {
			return fmt.Errorf("%s:%d: stray contract line", path, i+1)
		}
	}
	var cur *FuncSpec
	var curLoop *LoopSpec
	var curLemma *Lemma
	for _, it := range items {
		w, rest := firstWord(it.text)
		fail := func(msg string) error { return fmt.Errorf("%s:%d: %s: %s", path, it.line, msg, it.text) }
		if w != "requires" && w != "ensures" {
			curLemma = nil
		}
		if curLemma != nil {
			label, _, body := parseLabel(rest)
			e, err := parseExpr(body)
			if err != nil {
				return fail(err.Error())
			}
			c := &Clause{Kind: w, Label: label, Text: body, Expr: e, Line: it.line, File: path}
			if w == "requires" {
				curLemma.Requires = append(curLemma.Requires, c)
			} else {
				curLemma.Ensures = append(curLemma.Ensures, c)
			}
			continue
		}
		switch w {
		case "poolinv":
			// poolinv "*pkg.Type": expr over `it`
			r := strings.TrimSpace(rest)
			j := strings.Index(r, ":")
			if j < 0 || !strings.HasPrefix(r, "\"") {
				return fail("poolinv \"*pkg.Type\": expr")
			}
			tn := strings.Trim(strings.TrimSpace(r[:j]), "\"")
			e, err := parseExpr(r[j+1:])
			if err != nil {
				return fail(err.Error())
			}
			db.PoolInvs[tn] = &Clause{Kind: "poolinv", Label: tn, Text: r[j+1:], Expr: e, Line: it.line, File: path, Props: []string{pkgPath}}
			cur = nil
		case "ilemma":
			// ilemma name {props} (a Sort, b Sort) induction i
			r := strings.TrimSpace(rest)
			lp := strings.Index(r, "(")
			if lp < 0 {
				return fail("ilemma NAME {props} (params) induction VAR")
			}
			head := r[:lp]
			var props []string
			if k := strings.Index(head, "{"); k >= 0 {
				_, props, _ = parseLabel(head[k:])
				head = head[:k]
			}
			depth, rp := 0, -1
			for i := lp; i < len(r); i++ {
				if r[i] == '(' {
					depth++
				} else if r[i] == ')' {
					depth--
					if depth == 0 {
						rp = i
						break
					}
				}
			}
			if rp < 0 {
				return fail("unbalanced parameter list")
			}
			lm := &Lemma{Name: strings.TrimSpace(head), Props: props, Pkg: pkgPath, File: path, Line: it.line}
			for _, p := range splitTop(r[lp+1 : rp]) {
				f := strings.Fields(p)
				if len(f) < 2 {
					return fail("lemma parameter needs a sort")
				}
				lm.Params = append(lm.Params, f[0])
				lm.Sorts = append(lm.Sorts, strings.Join(f[1:], " "))
			}
			tail := strings.Fields(r[rp+1:])
			if len(tail) == 2 && tail[0] == "induction" {
				lm.IndVar = tail[1]
			}
			db.Lemmas = append(db.Lemmas, lm)
			cur, curLemma = nil, lm
		case "lockorder":
			// lockorder OUTER INNER {props}: INNER may be acquired while holding OUTER, never the other way round
			r := strings.TrimSpace(rest)
			var props []string
			if k := strings.Index(r, "{"); k >= 0 {
				_, props, _ = parseLabel(r[k:])
				r = strings.TrimSpace(r[:k])
			}
			f := strings.Fields(r)
			if len(f) != 2 {
				return fail("lockorder OUTER INNER {props}")
			}
			db.Orders = append(db.Orders, &GuardSpec{Pkg: pkgPath, Global: f[0], Mutex: f[1], Props: props, File: path, Line: it.line})
			cur = nil
		case "guarded":
			// guarded G by M {C15}
			r := strings.TrimSpace(rest)
			var props []string
			if k := strings.Index(r, "{"); k >= 0 {
				_, props, _ = parseLabel(r[k:])
				r = strings.TrimSpace(r[:k])
			}
			f := strings.Fields(r)
			insertOnce := false
			if len(f) > 3 && f[len(f)-1] == "insert-once" {
				insertOnce, f = true, f[:len(f)-1]
			}
			if !(len(f) == 3 || (len(f) == 5 && f[3] == "readers-also")) || f[1] != "by" {
				return fail("guarded GLOBAL by MUTEX [readers-also MUTEX2] [insert-once] {props}")
			}
			gs := &GuardSpec{Pkg: pkgPath, Global: f[0], Mutex: f[2], Props: props, File: path, Line: it.line, InsertOnce: insertOnce}
			if len(f) == 5 {
				gs.ReadersAlso = f[4] // every writer also holds this (exclusive) lock, so holding it is enough to read
			}
			db.Guards = append(db.Guards, gs)
			cur = nil
		case "autofunc":
			f := strings.Fields(rest)
			if len(f) != 2 || f[0] != "calls" {
				return fail("autofunc calls KEY")
			}
			fs := &FuncSpec{Key: "auto:" + f[1], Pkg: pkgPath, File: path, Line: it.line}
			db.Autos = append(db.Autos, &AutoSpec{Calls: f[1], Spec: fs})
			cur, curLoop = fs, nil
		case "func", "iface", "callback", "extern":
			var fs *FuncSpec
			var err error
			if hdr := strings.TrimSpace(rest); w == "extern" && strings.HasPrefix(hdr, "(") {
				// extern (*full/pkg.Type).Method(recv, params) results — the first name binds the receiver
				fs, err = parseExternMethod(hdr)
			} else {
				fs, err = parseHeader(hdr, pkgPath, w == "iface")
			}
			if err == nil && w == "callback" && strings.Contains(fs.Key, "/") && strings.HasPrefix(fs.Key, pkgPath+".") && strings.Contains(strings.TrimPrefix(fs.Key, pkgPath+"."), "/") {
				// a named function type of another module: the name is the full key
				fs.Key = strings.TrimPrefix(fs.Key, pkgPath+".")
			}
			if err == nil && w == "extern" {
				// a function of another module (standard library, dependency): the name is the full key, the contract is assumed
				fs.Key = strings.TrimPrefix(fs.Key, pkgPath+".")
				fs.Assumed = true
			}
			if err == nil && w == "callback" && fs.Recv != "" {
				// callback (s *T) Method.param(args): a function-typed parameter of a method
				if j := strings.LastIndex(fs.Key, "."); j >= 0 {
					fs.Recv = ""
				}
			}
			if err == nil && w == "callback" {
				fs.Key += ".call"
				fs.IsCallback = true
				fs.Assumed = true
			}
			if err != nil {
				return fail(err.Error())
			}
			fs.File, fs.Line = path, it.line
			if _, dup := db.Funcs[fs.Key]; dup {
				return fail("duplicate contract for " + fs.Key)
			}
			db.Funcs[fs.Key] = fs
			db.Order = append(db.Order, fs.Key)
			cur, curLoop = fs, nil
		case "ghost":
			f := strings.Fields(rest)
			if len(f) >= 2 && f[0] == "func" {
				r := strings.TrimSpace(strings.TrimPrefix(strings.TrimSpace(rest), "func"))
				j, k := strings.Index(r, "("), strings.Index(r, ")")
				if j < 0 || k < j {
					return fail("ghost func NAME(SORTS) SORT")
				}
				uf := &UFunc{Name: strings.TrimSpace(r[:j]), Ret: strings.TrimSpace(r[k+1:])}
				for _, s := range strings.Split(r[j+1:k], ",") {
					if s = strings.TrimSpace(s); s != "" {
						uf.Sorts = append(uf.Sorts, s)
					}
				}
				db.UFuncs[uf.Name] = uf
				cur = nil
				continue
			}
			if len(f) < 3 || f[0] != "var" {
				return fail("ghost var NAME SORT")
			}
			db.Ghosts[f[1]] = &GhostVar{Name: f[1], Sort: strings.Join(f[2:], " "), Pkg: pkgPath}
			cur = nil
		case "spec":
			sf, err := parseSpecFunc(strings.TrimSpace(rest), pkgPath)
			if err != nil {
				return fail(err.Error())
			}
			db.SFuncs[pkgPath+"\x00"+sf.Name] = sf
			if _, dup := db.SFuncs[sf.Name]; !dup || pkgPath == "" {
				db.SFuncs[sf.Name] = sf // first definition (or the prelude) is the package-independent fallback
			}
			cur = nil
		case "lemma":
			rest = strings.TrimSpace(rest)
			label, props, body := "", []string(nil), rest
			j := strings.Index(rest, ":")
			if j < 0 {
				return fail("lemma NAME {props}: expr")
			}
			head := rest[:j]
			body = strings.TrimSpace(rest[j+1:])
			if k := strings.Index(head, "{"); k >= 0 {
				_, props, _ = parseLabel(head[k:])
				head = head[:k]
			}
			label = strings.TrimSpace(head)
			e, err := parseExpr(body)
			if err != nil {
				return fail(err.Error())
			}
			db.Lemmas = append(db.Lemmas, &Lemma{Name: label, Props: props, Expr: e, Text: body, Pkg: pkgPath, File: path, Line: it.line})
			cur = nil
		default:
			if cur == nil {
				return fail("clause outside a func")
			}
			switch w {
			case "props":
				for _, p := range strings.Split(rest, ",") {
					cur.Props = append(cur.Props, strings.TrimSpace(p))
				}
			case "pure":
				cur.Pure = true
			case "stable":
				cur.Pure = true
				cur.Stable = true
			case "assumed":
				cur.Assumed = true
			case "concurrent":
				cur.Conc = true
				if r := strings.TrimSpace(rest); strings.HasSuffix(r, " and sequential") {
					// verified twice under these properties: one thread alone (all clauses), and against interference
					// (tagged clauses only; obligation names carry the suffix |thread-modular)
					cur.ConcAlso = true
					rest = strings.TrimSuffix(r, " and sequential")
				}
				for _, p := range strings.Split(rest, ",") {
					if p = strings.TrimSpace(p); p != "" {
						cur.ConcProps = append(cur.ConcProps, p)
					}
				}
			case "shared":
				for _, part := range splitTop(strings.TrimSpace(rest)) {
					e, err := parseExpr(part)
					if err != nil {
						return fail(err.Error())
					}
					cur.Shared = append(cur.Shared, &Clause{Kind: "shared", Text: part, Expr: e, Line: it.line, File: path})
				}
			case "onwrite":
				label, props, body := parseLabel(rest)
				j := strings.Index(body, ":")
				if j < 0 {
					return fail("onwrite[label] loc: cond")
				}
				le, err := parseExpr(body[:j])
				if err != nil {
					return fail(err.Error())
				}
				ce, err := parseExpr(body[j+1:])
				if err != nil {
					return fail(err.Error())
				}
				cur.OnWrites = append(cur.OnWrites, &Clause{Kind: "onwrite", Label: label, Props: props, Text: body, Expr: ce, Loc: le, Line: it.line, File: path})
			case "noinline":
				cur.NoInline = true
			case "unroll":
				cur.Unroll = true
			case "panics":
				cur.Panics = strings.TrimSpace(rest)
			case "loop":
				key := strings.TrimSuffix(strings.TrimSpace(rest), ":")
				curLoop = &LoopSpec{Key: key}
				if cur.Loops == nil {
					cur.Loops = map[string]*LoopSpec{}
				}
				cur.Loops[key] = curLoop
			case "decreases":
				if curLoop != nil {
					curLoop.Decr = strings.TrimSpace(rest)
				}
			case "replay":
				// replay TEMPLATE[@dir] [for LABEL-SUBSTRING]
				f := strings.Fields(rest)
				if len(f) == 3 && f[1] == "for" {
					if cur.ReplayFor == nil {
						cur.ReplayFor = map[string]string{}
					}
					cur.ReplayFor[f[2]] = f[0]
				} else {
					cur.Replay = strings.TrimSpace(rest)
				}
			case "use":
				e, err := parseExpr(strings.TrimSpace(rest))
				if err != nil || e.Op != "call" || e.Args[0].Op != "ident" {
					return fail("use LEMMA(args)")
				}
				cur.Uses = append(cur.Uses, &Clause{Kind: "use", Label: e.Args[0].Name, Text: rest, Expr: e, Line: it.line, File: path})
			case "case":
				rest = strings.TrimSpace(rest)
				j := strings.Index(rest, ":")
				if j < 0 {
					return fail("case NAME: cond")
				}
				e, err := parseExpr(rest[j+1:])
				if err != nil {
					return fail(err.Error())
				}
				cur.Cases = append(cur.Cases, &Clause{Kind: "case", Label: strings.TrimSpace(rest[:j]), Text: rest[j+1:], Expr: e, Line: it.line, File: path})
			case "sets":
				rest = strings.TrimSpace(rest)
				j := strings.Index(rest, "=")
				if j < 0 {
					return fail("sets GHOST = expr")
				}
				e, err := parseExpr(rest[j+1:])
				if err != nil {
					return fail(err.Error())
				}
				cur.Sets = append(cur.Sets, &Clause{Kind: "sets", Label: strings.TrimSpace(rest[:j]), Text: rest[j+1:], Expr: e, Line: it.line, File: path})
			case "let", "witness":
				rest = strings.TrimSpace(rest)
				j := strings.Index(rest, "=")
				if j < 0 {
					return fail("let NAME = expr")
				}
				e, err := parseExpr(rest[j+1:])
				if err != nil {
					return fail(err.Error())
				}
				cl := &Clause{Kind: w, Label: strings.TrimSpace(rest[:j]), Text: rest[j+1:], Expr: e, Line: it.line, File: path}
				if w == "let" && curLoop != nil {
					curLoop.Lets = append(curLoop.Lets, cl)
				} else if w == "let" {
					cur.Lets = append(cur.Lets, cl)
				} else {
					cur.Wits = append(cur.Wits, cl)
				}
			case "objinv":
				// representation invariant of the receiver/arguments: assumed at entry, not checked at call sites
				label, props, body := parseLabel(rest)
				e, err := parseExpr(body)
				if err != nil {
					return fail(err.Error())
				}
				cur.Requires = append(cur.Requires, &Clause{Kind: "objinv", Label: label, Text: body, Expr: e, Line: it.line, File: path, Props: props})
				curLoop = nil
			case "always":
				// like ensures, but also holds when the callee panics (e.g. "this call was made")
				label, props, body := parseLabel(rest)
				e, err := parseExpr(body)
				if err != nil {
					return fail(err.Error())
				}
				cur.Ensures = append(cur.Ensures, &Clause{Kind: "always", Label: label, Text: body, Expr: e, Line: it.line, File: path, Props: props})
				curLoop = nil
			case "requires", "ensures", "invariant", "modifies":
				label, props, body := parseLabel(rest)
				c := &Clause{Kind: w, Label: label, Text: body, Line: it.line, File: path, Props: props}
				if w == "modifies" {
					if body != "nothing" {
						for _, part := range splitTop(body) {
							if part == "heap" {
								// the whole real heap may change; ghost state only as listed
								if curLoop == nil {
									cur.ModHeap = true
								}
								continue
							}
							e, err := parseExpr(part)
							if err != nil {
								return fail(err.Error())
							}
							cc := *c
							cc.Text, cc.Expr = part, e
							if curLoop != nil {
								curLoop.Modifies = append(curLoop.Modifies, &cc)
							} else {
								cur.Modifies = append(cur.Modifies, &cc)
							}
						}
					}
					if curLoop == nil {
						cur.HasMod = true
					}
					continue
				}
				e, err := parseExpr(body)
				if err != nil {
					return fail(err.Error())
				}
				c.Expr = e
				switch w {
				case "requires":
					cur.Requires = append(cur.Requires, c)
					curLoop = nil
				case "ensures":
					if strings.HasSuffix(c.Label, "?") {
						c.Label, c.NoCover = strings.TrimSuffix(c.Label, "?"), true
					}
					cur.Ensures = append(cur.Ensures, c)
					curLoop = nil
				case "invariant":
					if curLoop == nil {
						return fail("invariant outside loop")
					}
					curLoop.Invs = append(curLoop.Invs, c)
				}
			}
		}
	}
	return nil
}

// splitTop splits on commas not nested in brackets.
func splitTop(s string) []string {
	var out []string
	depth, start := 0, 0
	for i, c := range s {
		switch c {
		case '(', '[':
			depth++
		case ')', ']':
			depth--
		case ',':
			if depth == 0 {
				out = append(out, strings.TrimSpace(s[start:i]))
				start = i + 1
			}
		}
	}
	out = append(out, strings.TrimSpace(s[start:]))
	return out
}

// parseHeader: "(d *T) Name(p1, p2) (r1, r2)"  or  "Name(p) r"  or for iface "T.Name(p) r"
func parseHeader(s, pkgPath string, iface bool) (*FuncSpec, error) {
	fs := &FuncSpec{Pkg: pkgPath, IsIface: iface}
	recvT := ""
	if strings.HasPrefix(s, "(") {
		j := strings.Index(s, ")")
		f := strings.Fields(s[1:j])
		if len(f) != 2 {
			return nil, fmt.Errorf("bad receiver")
		}
		fs.Recv, recvT = f[0], f[1]
		s = strings.TrimSpace(s[j+1:])
	}
	j := strings.Index(s, "(")
	if j < 0 {
		return nil, fmt.Errorf("missing parameter list")
	}
	name := strings.TrimSpace(s[:j])
	k := strings.Index(s, ")")
	for _, p := range strings.Split(s[j+1:k], ",") {
		if p = strings.TrimSpace(p); p != "" {
			fs.Params = append(fs.Params, p)
		}
	}
	res := strings.TrimSpace(s[k+1:])
	res = strings.Trim(res, "()")
	for _, p := range strings.Split(res, ",") {
		if p = strings.TrimSpace(p); p != "" {
			fs.Results = append(fs.Results, p)
		}
	}
	if iface {
		// name is T.Method or pkg/path.T.Method
		fs.Recv = "this"
		if strings.Contains(name, "/") {
			fs.Key = name
		} else {
			fs.Key = pkgPath + "." + name
		}
		return fs, nil
	}
	if recvT != "" {
		if strings.HasPrefix(recvT, "*") {
			fs.Key = fmt.Sprintf("(*%s.%s).%s", pkgPath, recvT[1:], name)
		} else {
			fs.Key = fmt.Sprintf("(%s.%s).%s", pkgPath, recvT, name)
		}
	} else {
		fs.Key = pkgPath + "." + name
	}
	return fs, nil
}

func parseExternMethod(s string) (*FuncSpec, error) {
	j := strings.Index(s, ").")
	if j < 0 {
		return nil, fmt.Errorf("extern (*pkg.Type).Method(recv, params)")
	}
	k := strings.Index(s[j:], "(")
	if k < 0 {
		return nil, fmt.Errorf("missing parameter list")
	}
	k += j
	fs := &FuncSpec{Key: strings.TrimSpace(s[:k])}
	e := strings.Index(s[k:], ")")
	if e < 0 {
		return nil, fmt.Errorf("missing )")
	}
	e += k
	for i, p := range strings.Split(s[k+1:e], ",") {
		if p = strings.TrimSpace(p); p != "" {
			if i == 0 {
				fs.Recv = p
			} else {
				fs.Params = append(fs.Params, p)
			}
		}
	}
	if fs.Recv == "" {
		return nil, fmt.Errorf("extern method needs a receiver name")
	}
	for _, p := range strings.Split(strings.Trim(strings.TrimSpace(s[e+1:]), "()"), ",") {
		if p = strings.TrimSpace(p); p != "" {
			fs.Results = append(fs.Results, p)
		}
	}
	return fs, nil
}

// parseSpecFunc: "func name(a Int, b Real) Bool = expr"
func parseSpecFunc(s, pkgPath string) (*SpecFunc, error) {
	rec := false
	if strings.HasPrefix(s, "rec ") {
		rec = true
		s = "func " + strings.TrimSpace(s[4:])
	}
	if !strings.HasPrefix(s, "func ") {
		return nil, fmt.Errorf("spec func expected")
	}
	s = strings.TrimSpace(s[5:])
	j := strings.Index(s, "(")
	k := -1
	depth := 0
	for i := j; i >= 0 && i < len(s); i++ {
		if s[i] == '(' {
			depth++
		} else if s[i] == ')' {
			depth--
			if depth == 0 {
				k = i
				break
			}
		}
	}
	eq := -1
	if k >= 0 {
		if e := strings.Index(s[k:], "="); e >= 0 {
			eq = k + e
		}
	}
	if j < 0 || k < 0 || eq < k {
		return nil, fmt.Errorf("bad spec func")
	}
	sf := &SpecFunc{Name: strings.TrimSpace(s[:j]), Pkg: pkgPath, Rec: rec}
	for _, p := range splitTop(s[j+1 : k]) {
		f := strings.Fields(p)
		if len(f) == 0 {
			continue
		}
		sf.Params = append(sf.Params, f[0])
		if len(f) > 1 {
			sf.Sorts = append(sf.Sorts, strings.Join(f[1:], " "))
		} else {
			sf.Sorts = append(sf.Sorts, "")
		}
	}
	sf.Ret = strings.TrimSpace(s[k+1 : eq])
	sf.Text = strings.TrimSpace(s[eq+1:])
	e, err := parseExpr(sf.Text)
	if err != nil {
		return nil, err
	}
	sf.Body = e
	return sf, nil
}
