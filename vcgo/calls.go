package main

import (
	"fmt"
	"go/token"
	"go/types"
	"os"
	"sort"
	"strconv"
	"strings"

	"golang.org/x/tools/go/ssa"
)

func (x *Engine) args(fr *Frame, cc *ssa.CallCommon) []Val {
	var out []Val
	if cc.IsInvoke() {
		out = append(out, x.val(fr, cc.Value))
	}
	for _, a := range cc.Args {
		out = append(out, x.val(fr, a))
	}
	return out
}

func (x *Engine) call(fr *Frame, st *State, instr ssa.Instruction, cc *ssa.CallCommon, pos token.Pos) Val {
	return x.dispatch(fr, st, cc, x.args(fr, cc), pos)
}

func resultVal(sig *types.Signature, vs []Val) Val {
	switch len(vs) {
	case 0:
		return Val{}
	case 1:
		return vs[0]
	}
	return Val{Typ: sig.Results(), Tup: vs}
}

func (x *Engine) freshResults(st *State, sig *types.Signature, prefix string) []Val {
	var out []Val
	for i := 0; i < sig.Results().Len(); i++ {
		out = append(out, x.freshVal(prefix, sig.Results().At(i).Type(), st))
	}
	return out
}

func (x *Engine) dispatch(fr *Frame, st *State, cc *ssa.CallCommon, args []Val, pos token.Pos) Val {
	sig := cc.Signature()
	p := posOf(x.prog, pos)
	if cc.IsInvoke() {
		key := x.ifaceKey(cc.Value.Type(), cc.Method)
		if fs := x.db.Funcs[key]; fs != nil {
			return x.applyContract(fr, st, fs, sig, args, p, key)
		}
		if cc.Method.Name() == "Error" && cc.Method.Pkg() == nil {
			x.abstracted("error.Error(): opaque string, no effect")
			return resultVal(sig, x.freshResults(st, sig, "es"))
		}
		if strings.HasPrefix(key, "reflect.") {
			x.abstracted("reflect method: opaque result, no effect")
			return resultVal(sig, x.freshResults(st, sig, "rf"))
		}
		if strings.HasPrefix(key, repoPfx+"exporter/metric.") {
			x.abstracted("metric exporter call skipped")
			return resultVal(sig, x.freshResults(st, sig, "mx"))
		}
		// dynamic dispatch resolved statically when the receiver was built from a known concrete value
		if x.externalEffect(st, "interface call without contract") {
			x.extCalls[key]++
			return resultVal(sig, x.freshResults(st, sig, "ir"))
		}
		x.abstracted("invoke without contract: " + key)
		x.degrade("interface call without contract: " + key)
		x.havocAll(st)
		x.bumpEpoch(st)
		return resultVal(sig, x.freshResults(st, sig, "ir"))
	}
	if b, ok := cc.Value.(*ssa.Builtin); ok {
		return x.builtin(fr, st, b, cc, args, p)
	}
	callee := cc.StaticCallee()
	var binds []Val
	if callee == nil {
		fv := x.val(fr, cc.Value)
		if fv.Clo != nil {
			callee, binds = fv.Clo.Fn, fv.Clo.Binds
		}
	} else if mc, ok := cc.Value.(*ssa.MakeClosure); ok {
		binds = x.val(fr, mc).Clo.Binds
	}
	if callee == nil {
		// call of a function value of unknown identity: a nil function value panics
		if fv := x.val(fr, cc.Value); fv.Clo == nil && fv.T != "" && (!fr.hooksOnly || isFieldLoad(cc.Value)) {
			if os.Getenv("VCGO_DEBUG") != "" {
				fmt.Fprintf(os.Stderr, "nilfunc at %s: value %T hooksOnly=%v fieldload=%v\n", p, cc.Value, fr.hooksOnly, isFieldLoad(cc.Value))
			}
			x.mayPanic(fr, st, fmt.Sprintf("(= %s 0)", fv.T), "nilfunc@"+p)
		}
		if cb := x.callbackSpec(fr, cc); cb != nil {
			if cb.Pure {
				fv := x.val(fr, cc.Value)
				r := x.pureApp(st, cb.Key, sig, Val{T: fv.T, Typ: types.Typ[types.Int]}, args)
				r.T = x.name("pv", x.sortOf(r.Typ), r.T)
				x.assume(st, x.wf(r.Typ, r.T, st))
				x.assumedC[cb.Key] = true
				return r
			}
			return x.applyContract(fr, st, cb, sig, args, p, cb.Key)
		}
		if x.externalEffect(st, "call of an unknown function value") {
			x.extCalls["unknown function value at "+p]++
			return resultVal(sig, x.freshResults(st, sig, "ur"))
		}
		x.abstracted("call of unknown function value")
		x.degrade("call of an unknown function value at " + p)
		x.havocAll(st)
		x.bumpEpoch(st)
		return resultVal(sig, x.freshResults(st, sig, "ur"))
	}
	name := callee.String()
	if r, ok := x.intrinsic(fr, st, name, callee, args, sig, p); ok {
		return r
	}
	key := specKeyOf(callee)
	if fs := x.db.Funcs[key]; fs != nil && !(fr.top && callee == fr.fn) && !x.forceInline[key] && !(x.conc && hasProp(fs.ConcProps, x.curProp) && callee.Blocks != nil) {
		return x.applyContract(fr, st, fs, sig, args, p, key)
	}
	if (callee.Blocks == nil || (callee.Pkg != nil && !isRepoPkg(callee.Pkg.Pkg))) && x.externalEffect(st, "call into another module without contract") {
		x.extCalls[name]++
		return resultVal(sig, x.freshResults(st, sig, "xr"))
	}
	if callee.Blocks == nil {
		x.abstracted("external call: " + name)
		x.degrade("external call without model: " + name)
		x.havocAll(st)
		x.bumpEpoch(st)
		return resultVal(sig, x.freshResults(st, sig, "xr"))
	}
	return x.inline(fr, st, callee, args, binds, p)
}

// isFieldLoad: the function value was read from a struct field (an optional hook), not passed in or captured.
func isFieldLoad(v ssa.Value) bool {
	switch v := v.(type) {
	case *ssa.UnOp:
		_, ok := v.X.(*ssa.FieldAddr)
		return ok
	case *ssa.Field:
		return true
	}
	return false
}

func (x *Engine) callbackSpec(fr *Frame, cc *ssa.CallCommon) *FuncSpec {
	// contract attached to a named function type: key "pkgpath.TypeName.call"
	if n, ok := cc.Value.Type().(*types.Named); ok && n.Obj().Pkg() != nil {
		if fs := x.db.Funcs[n.Obj().Pkg().Path()+"."+n.Obj().Name()+".call"]; fs != nil {
			return fs
		}
	}
	// contract attached to a function-typed parameter: key "<function key>.<param>.call"
	if par, ok := cc.Value.(*ssa.Parameter); ok && par.Parent() != nil {
		if fs := x.db.Funcs[specKeyOf(par.Parent())+"."+par.Name()+".call"]; fs != nil {
			return fs
		}
	}
	// contract attached to a struct field holding the function: key "pkgpath.Struct.field.call"
	var st types.Type
	idx := -1
	switch v := cc.Value.(type) {
	case *ssa.UnOp:
		if fa, ok := v.X.(*ssa.FieldAddr); ok {
			st, idx = ptrElem(fa.X.Type()), fa.Field
		}
	case *ssa.Field:
		st, idx = v.X.Type(), v.Field
	}
	if n, ok := st.(*types.Named); ok && n.Obj().Pkg() != nil && idx >= 0 {
		if sn, ok := n.Underlying().(*types.Struct); ok && idx < sn.NumFields() {
			return x.db.Funcs[n.Obj().Pkg().Path()+"."+n.Obj().Name()+"."+sn.Field(idx).Name()+".call"]
		}
	}
	return nil
}

// externalEffect: a call that leaves the verified code without a contract. Under the policy "preserve-ghosts"
// (framework code never calls back into the protocol functions) the heap is forgotten, ghost state kept, no panic.
func (x *Engine) externalEffect(st *State, what string) bool {
	if x.extPolicy != "preserve-ghosts" {
		return false
	}
	x.abstracted(what + " (policy: heap forgotten except fields of the package's unexported struct types, ghost state kept, assumed not to panic)")
	ghosts := map[string]string{}
	for k := range x.compSort {
		if strings.HasPrefix(k, "ghost:") || x.privateField(k) {
			ghosts[k] = x.get(st, k)
		}
	}
	x.havocAll(st)
	for k, v := range ghosts {
		st.h[k] = v
	}
	x.bumpEpoch(st)
	return true
}

// privateField: a field of an unexported struct type declared in one of the packages under verification. Code of
// other modules cannot name such a type; the adapters never hand out pointers to their option structs.
func (x *Engine) privateField(key string) bool {
	if !strings.HasPrefix(key, "F:") {
		return false
	}
	for p := range x.initialPkgs {
		pre := "F:" + shortPkg(p) + "."
		if strings.HasPrefix(key, pre) && len(key) > len(pre) && key[len(pre)] >= 'a' && key[len(pre)] <= 'z' {
			return true
		}
	}
	return false
}

// inline executes the callee's body in place.
func (x *Engine) inline(fr *Frame, st *State, callee *ssa.Function, args []Val, binds []Val, pos string) Val {
	sig := callee.Signature
	for f := fr; f != nil; f = f.parent {
		if f.fn == callee {
			x.degrade("recursive call of " + callee.String())
			x.havocAll(st)
			return resultVal(sig, x.freshResults(st, sig, "rr"))
		}
	}
	if fr.depth >= x.maxDepth {
		x.degrade("inline depth exceeded at " + callee.String())
		x.havocAll(st)
		return resultVal(sig, x.freshResults(st, sig, "dr"))
	}
	x.inlined[callee.String()] = true
	nf := x.newFrame(callee, fr)
	nf.spec = x.db.Funcs[specKeyOf(callee)]
	for i, p := range callee.Params {
		if i < len(args) {
			nf.vals[p] = args[i]
		}
	}
	for i, fv := range callee.FreeVars {
		if i < len(binds) {
			nf.vals[fv] = binds[i]
		}
	}
	nf.entry = fr.entryState()
	if nf.spec != nil {
		// the callee's contract names (receiver, parameters) inside its own loop invariants
		nf.env = x.contractEnv(nf.spec, sig, args)
	}
	unroll := false
	if len(nf.loops) > 0 {
		for _, a := range args {
			if a.Elems != nil {
				unroll = true
			}
		}
		if nf.spec != nil && nf.spec.Unroll {
			unroll = true
		}
	}
	if nf.spec != nil {
		for k := range nf.spec.Loops {
			if n, err := strconv.Atoi(k); err == nil && n > len(nf.loops) {
				x.loopMismatch = append(x.loopMismatch, fmt.Sprintf("the contract of the inlined %s has invariants for loop %d, the function has %d loop(s)", shortKey(nf.spec.Key), n, len(nf.loops)))
			}
		}
	}
	if unroll {
		budget := 600
		x.runUnrolled(nf, callee.Blocks[0], nil, st.clone(), &budget)
	} else {
		if len(nf.loops) > 0 && (nf.spec == nil || nf.spec.Loops == nil) {
			x.notes = append(x.notes, "inlined callee with a loop and no invariant: "+callee.String())
			if callee.Parent() == nil { // a named helper, not a closure of the function under contract
				x.inlinedLoop = shortKey(callee.String())
			}
		}
		x.runBody(nf, callee.Blocks[0], st)
	}
	x.finishFrame(nf)
	// propagate panics
	fr.panics = append(fr.panics, nf.panics...)
	if len(nf.returns) == 0 {
		st.live = "false"
		var zs []Val
		for i := 0; i < sig.Results().Len(); i++ {
			zs = append(zs, Val{T: x.zero(sig.Results().At(i).Type()), Typ: sig.Results().At(i).Type()})
		}
		return resultVal(sig, zs)
	}
	var conds []string
	var sts []*State
	for _, r := range nf.returns {
		conds = append(conds, r.cond)
		sts = append(sts, r.st)
	}
	m := x.merge(conds, sts)
	*st = *m
	var res []Val
	for i := 0; i < sig.Results().Len(); i++ {
		rt := sig.Results().At(i).Type()
		v := nf.returns[len(nf.returns)-1].res[i]
		same := true
		for _, r := range nf.returns {
			if r.res[i].T != v.T {
				same = false
			}
		}
		if !same {
			term := v.T
			for k := len(nf.returns) - 2; k >= 0; k-- {
				term = fmt.Sprintf("(ite %s %s %s)", nf.returns[k].cond, nf.returns[k].res[i].T, term)
			}
			v = Val{T: x.name("rv", x.sortOf(rt), term), Typ: rt}
		} else {
			v.Typ = rt
		}
		res = append(res, v)
	}
	return resultVal(sig, res)
}

func (fr *Frame) entryState() *State {
	for f := fr; f != nil; f = f.parent {
		if f.entry != nil {
			return f.entry
		}
	}
	return nil
}

// finishFrame routes the frame's panic exits through its deferred calls and recover block.
func (x *Engine) finishFrame(fr *Frame) {
	if len(fr.panics) == 0 || len(fr.defers) == 0 {
		return
	}
	var conds []string
	var sts []*State
	var origins []string
	for _, p := range fr.panics {
		conds = append(conds, p.cond)
		sts = append(sts, p.st)
		origins = append(origins, p.origin)
	}
	ps := x.merge(conds, sts)
	fr.panics = nil
	recKey := fmt.Sprintf("$rec:%d", fr.id)
	x.regComp(recKey, "Bool")
	ps.h[recKey] = "false"
	fr.recKey = recKey
	x.panicking = append(x.panicking, fr)
	x.runDefers(fr, ps, true)
	x.panicking = x.panicking[:len(x.panicking)-1]
	rec := x.get(ps, recKey)
	// not recovered: keeps propagating
	if rec != "true" {
		// keep one exit per original source so that each has its own obligation name
		for k, c := range conds {
			fr.panics = append(fr.panics, exit{cond: x.name("pp", "Bool", andTerms(c, ps.live, notTerm(rec))), st: ps.clone(), origin: origins[k]})
		}
	}
	if rec != "false" {
		if fr.fn.Recover != nil {
			rs := ps.clone()
			rs.live = x.name("live", "Bool", andTerms(ps.live, rec))
			x.recovered = append(x.recovered, rs.live)
			x.runBody(fr, fr.fn.Recover, rs)
		} else {
			// recovered without a recover block: function returns zero values
			x.degrade("recovered panic without recover block in " + fr.fn.String())
		}
	}
}

// runDefers runs the registered deferred calls in LIFO order on st.
func (x *Engine) runDefers(fr *Frame, st *State, panicking bool) {
	for k := len(fr.defers) - 1; k >= 0; k-- {
		d := fr.defers[k]
		flag := x.get(st, d.key)
		if flag == "false" {
			continue
		}
		args := fr.vals[deferArgs{d.instr}].Tup
		if flag == "true" {
			st.h[d.key] = "false"
			x.dispatch(fr, st, d.instr.Common(), args, d.instr.Pos())
			continue
		}
		// conditionally registered: run on a copy and merge
		run := st.clone()
		run.live = x.name("live", "Bool", andTerms(st.live, flag))
		run.h[d.key] = "false"
		skip := st.clone()
		skip.live = x.name("live", "Bool", andTerms(st.live, notTerm(flag)))
		skip.h[d.key] = "false"
		x.dispatch(fr, run, d.instr.Common(), args, d.instr.Pos())
		m := x.merge([]string{run.live, skip.live}, []*State{run, skip})
		*st = *m
	}
}

// ---------------------------------------------------------------- contracts at call sites

func (x *Engine) contractEnv(fs *FuncSpec, sig *types.Signature, args []Val) map[string]Val {
	env := map[string]Val{}
	i := 0
	if fs.Recv != "" && (sig.Recv() != nil || fs.IsIface) && len(args) > 0 {
		env[fs.Recv] = args[0]
		i = 1
	}
	for k, p := range fs.Params {
		if i+k < len(args) && p != "_" {
			env[p] = args[i+k]
		}
	}
	return env
}

func (x *Engine) pkgByPath(path string) *ssa.Package {
	for _, p := range x.prog.AllPackages() {
		if p.Pkg.Path() == path {
			return p
		}
	}
	return nil
}

func (x *Engine) applyContract(fr *Frame, st *State, fs *FuncSpec, sig *types.Signature, args []Val, pos, key string) Val {
	for _, a := range args {
		if a.Clo != nil {
			x.closureSummary(fr, st, a)
		}
	}
	env := x.contractEnv(fs, sig, args)
	pkg := x.pkgByPath(fs.Pkg)
	x.usedContracts[key] = true
	// a callee known by its contract was verified on the assumption that it is entered without the declared mutexes
	// it acquires itself: the caller must not hold one of them (sync.RWMutex is not reentrant, not even for readers:
	// a writer queued between the two read locks blocks the second one for ever)
	if len(x.guards) > 0 && !fs.IsIface && !fs.IsCallback {
		if callee := x.fnByKey[key]; callee != nil {
			var gs []*ssa.Global
			for g := range x.acquiredMutexes(callee) {
				gs = append(gs, g)
			}
			sort.Slice(gs, func(i, j int) bool { return gs[i].Name() < gs[j].Name() })
			for _, g := range gs {
				if !x.requiresMentionsMutex(fs, g) {
					x.lockAcquireChecks(fr, st, x.mutexTerm(g), "call-of-"+callee.Name()+"-which-locks", pos)
				}
			}
		}
	}
	if fs.Assumed || fs.IsIface {
		x.assumedC[key] = true
	}
	for _, c := range fs.Lets {
		ev := &Eval{x: x, st: st, old: st, env: env, pkg: pkg}
		lv := x.safeEval(ev, c)
		lv.T = x.name("let_"+mangle(c.Label), ev.sortOf(lv), lv.T)
		env[c.Label] = lv
	}
	for i, c := range fs.Requires {
		if c.Kind == "objinv" {
			x.objInvs[key+": "+c.Text] = true
			continue
		}
		if len(c.Props) > 0 && !hasProp(c.Props, x.curProp) {
			continue // a precondition that belongs to another property's clause set
		}
		ev := &Eval{x: x, st: st, old: st, env: env, pkg: pkg}
		g := x.safeEvalBool(ev, c)
		lab := c.Label
		if lab == "" {
			lab = fmt.Sprint(i + 1)
		}
		if i == 0 {
			x.ordinals["call:"+key]++
		}
		ro := x.oblige(st, fmt.Sprintf("call[%s#%d].requires", shortKey(key), x.ordinals["call:"+key]), lab, g, c.Text+" (call at "+pos+")", pos)
		if len(c.Props) > 0 && ro != nil {
			ro.Props, ro.Tagged = c.Props, true
		}
	}
	if len(x.guards) > 0 && x.guardProp(x.curProp) {
		// a callee with a lock precondition is entered holding exactly the locks it names
		hasLockPre := false
		for _, c := range fs.Requires {
			if len(c.Props) > 0 && hasProp(c.Props, x.curProp) && strings.Contains(c.Text, "lockcount(") {
				hasLockPre = true
			}
		}
		if cp := x.pkgByPath(fs.Pkg); hasLockPre && cp != nil {
			for k, t := range x.notHeldTerms(st, cp, fs) {
				ro := x.oblige(st, fmt.Sprintf("call[%s#%d].requires", shortKey(key), x.ordinals["call:"+key]), fmt.Sprintf("other-locks-not-held-%d", k+1), t, "the callee is entered holding only the locks its precondition names (call at "+pos+")", pos)
				if ro != nil {
					ro.Props, ro.Tagged = []string{x.curProp}, true
				}
			}
		}
	}
	if fs.Pure {
		var recv Val
		var rest []Val
		if sig.Recv() == nil && !fs.IsIface {
			// pure free function: receiver slot is a dummy
			recv = Val{T: "0", Typ: types.Typ[types.Int]}
			rest = args
		} else {
			recv, rest = args[0], args[1:]
		}
		r := x.pureApp(st, key, sig, recv, rest)
		r.T = x.name("pv", x.sortOf(r.Typ), r.T)
		x.assume(st, x.wf(r.Typ, r.T, st))
		if len(fs.Results) > 0 {
			env[fs.Results[0]] = r
		}
		env["result"] = r
		for _, c := range fs.Ensures {
			ev := &Eval{x: x, st: st, old: st, env: env, pkg: pkg}
			x.assume(st, x.safeEvalBool(ev, c))
		}
		return r
	}
	pre := st.clone()
	if !fs.HasMod {
		x.notes = append(x.notes, "contract of "+key+" has no modifies clause: everything havocked")
		x.havocAll(st)
		x.bumpEpoch(st)
	} else {
		if fs.ModHeap {
			ghosts := map[string]string{}
			for name, g := range x.db.Ghosts {
				x.regComp("ghost:"+name, g.Sort)
			}
			for k := range x.compSort {
				if strings.HasPrefix(k, "ghost:") {
					ghosts[k] = x.get(st, k)
				}
			}
			x.havocAll(st)
			for k, v := range ghosts {
				st.h[k] = v
			}
			x.bumpEpoch(st)
		}
		for _, m := range fs.Modifies {
			x.havocLoc(st, pre, m, env, pkg)
		}
		if len(fs.Modifies) > 0 {
			x.bumpEpoch(st)
			{
				// what the callee stored to is known only through its postconditions
				var wks []string
				for k := range x.compSort {
					if strings.HasPrefix(k, "$wr:") {
						wks = append(wks, k)
					}
				}
				sort.Strings(wks)
				for _, k := range wks {
					x.havocKey(st, k)
				}
			}
		}
	}
	// a callee may allocate
	x.havocKey(st, "$alloc")
	res := x.freshResults(st, sig, "cr")
	for i, r := range res {
		if i < len(fs.Results) {
			env[fs.Results[i]] = r
		}
	}
	if len(res) == 1 {
		env["result"] = res[0]
	}
	// panicked() inside an always clause: whether this call ended in a panic
	pc := Val{T: "false", Sort: "Bool"}
	if fs.Panics == "may" || fs.Panics == "callees" {
		pc = x.freshVal("maypanic", types.Typ[types.Bool], nil)
	}
	env["$panicked"] = Val{T: pc.T, Sort: "Bool"}
	for _, c := range fs.Ensures {
		if c.Kind == "always" {
			ev := &Eval{x: x, st: st, old: pre, env: env, pkg: pkg}
			x.assume(st, x.safeEvalBool(ev, c))
		}
	}
	if fs.Panics == "may" || fs.Panics == "callees" {
		fr.panics = append(fr.panics, exit{cond: x.name("pc", "Bool", andTerms(st.live, pc.T)), st: st.clone(), origin: "callee-panic[" + shortKey(key) + "]@" + pos})
		st.live = x.name("live", "Bool", andTerms(st.live, notTerm(pc.T)))
	}
	for _, c := range fs.Ensures {
		if x.conc && !hasProp(c.Props, x.curProp) && !fs.IsIface && !fs.Assumed {
			continue // a sequential postcondition is not valid under interference
		}
		if !x.conc && len(c.Props) > 0 && !hasProp(c.Props, x.curProp) {
			continue
		}
		if modeExcluded(c.Props, x.conc) {
			continue
		}
		ev := &Eval{x: x, st: st, old: pre, env: env, pkg: pkg}
		x.assume(st, x.safeEvalBool(ev, c))
	}
	return resultVal(sig, res)
}

func shortKey(k string) string {
	return strings.ReplaceAll(k, "github.com/alibaba/sentinel-golang/", "")
}

func (x *Engine) safeEval(ev *Eval, c *Clause) (res Val) {
	defer func() {
		if r := recover(); r != nil {
			if ee, ok := r.(evalErr); ok {
				panic(fmt.Sprintf("%s:%d: contract error: %s\n    in: %s", c.File, c.Line, ee.msg, c.Text))
			}
			panic(r)
		}
	}()
	return ev.eval(c.Expr)
}

// havocLoc forgets the location denoted by a modifies clause.
func (x *Engine) havocLoc(st, pre *State, m *Clause, env map[string]Val, pkg *ssa.Package) {
	n := m.Expr
	ev := &Eval{x: x, st: pre, old: pre, env: env, pkg: pkg}
	if n.Op == "ident" {
		if g, ok := x.db.Ghosts[n.Name]; ok {
			key := "ghost:" + n.Name
			x.regComp(key, g.Sort)
			x.havocKey(st, key)
			return
		}
		if pkg != nil {
			if gl, ok := pkg.Members[n.Name].(*ssa.Global); ok {
				x.havocKey(st, x.globalKey(gl))
				return
			}
		}
	}
	if n.Op == "call" && n.Args[0].Op == "ident" {
		switch n.Args[0].Name {
		case "elems":
			v := x.safeEval(ev, &Clause{Expr: n.Args[1], Text: m.Text, File: m.File, Line: m.Line})
			el := v.Typ.Underlying().(*types.Slice).Elem()
			key := x.elemKey(el)
			row := x.fresh("row")
			x.decl(row, "(Array Int "+x.sortOf(el)+")")
			// a nil slice (base 0) has no elements: nothing is written
			cur := x.get(st, key)
			x.set(st, key, fmt.Sprintf("(store %s (s_base %s) (ite (= (s_base %s) 0) (select %s 0) %s))", cur, v.T, v.T, cur, row))
			return
		case "mapof":
			v := x.safeEval(ev, &Clause{Expr: n.Args[1], Text: m.Text, File: m.File, Line: m.Line})
			mt := v.Typ.Underlying().(*types.Map)
			dom, val := x.mapKeys(mt)
			d, vv, l := x.fresh("md"), x.fresh("mv"), x.fresh("ml")
			x.decl(d, fmt.Sprintf("(Array %s Bool)", x.sortOf(mt.Key())))
			x.decl(vv, fmt.Sprintf("(Array %s %s)", x.sortOf(mt.Key()), x.sortOf(mt.Elem())))
			x.decl(l, "Int")
			x.set(st, dom, fmt.Sprintf("(store %s %s %s)", x.get(st, dom), v.T, d))
			x.set(st, val, fmt.Sprintf("(store %s %s %s)", x.get(st, val), v.T, vv))
			x.set(st, "MapLen", fmt.Sprintf("(store %s %s %s)", x.get(st, "MapLen"), v.T, l))
			x.assume(st, fmt.Sprintf("(<= 0 %s)", l))
			return
		case "fields":
			v := x.safeEval(ev, &Clause{Expr: n.Args[1], Text: m.Text, File: m.File, Line: m.Line})
			t, _ := deref(v.Typ)
			x.havocObject(st, t, v.T)
			return
		case "cells":
			// cells(Type): every scalar cell of that type (objects created by new(Type))
			if tn, ok := pkg.Members[n.Args[1].Name].(*ssa.Type); ok {
				x.havocKey(st, x.memKey(tn.Type()))
				return
			}
			if bt, ok := types.Universe.Lookup(n.Args[1].Name).(*types.TypeName); ok {
				x.havocKey(st, x.memKey(bt.Type()))
				return
			}
		case "allfields":
			// allfields(Type): every field of every object of that struct type
			if tn := x.typeByNode(pkg, n.Args[1]); tn != nil {
				ks := map[string]bool{}
				x.structKeys(tn.Type(), ks)
				for k := range ks {
					x.havocKey(st, k)
				}
				return
			}
		case "all":
			// all(Type.field): whole field array
			if k, ok := x.allFieldKey(pkg, n.Args[1]); ok {
				x.havocKey(st, k)
				return
			}
		}
	}
	v, stated := x.trySafeEval(ev, m)
	if !stated {
		// the contract names something the current code no longer has (a removed field): what the callee may change
		// is unknown — everything is forgotten, and the function is degraded (see trySafeEval)
		x.havocAll(st)
		return
	}
	if v.Addr == nil {
		panic(fmt.Sprintf("%s:%d: modifies target is not a location: %s", m.File, m.Line, m.Text))
	}
	f := x.fresh("mod")
	srt := x.compSortOf(v.Addr.Key)
	// element sort of the array
	es := elemSortOfArray(srt, v.Addr.Kind)
	x.decl(f, es)
	x.storeAddr(st, v.Addr, f)
	if v.Typ != nil {
		x.assume(st, x.wf(v.Typ, f, st))
	}
}

func elemSortOfArray(arraySort, kind string) string {
	// "(Array Int X)" → X ; elem: "(Array Int (Array Int X))" → X ; global: itself
	strip := func(s string) string {
		s = strings.TrimPrefix(s, "(Array Int ")
		return strings.TrimSuffix(s, ")")
	}
	switch kind {
	case "field", "cell":
		return strip(arraySort)
	case "elem":
		return strip(strip(arraySort))
	}
	return arraySort
}

func (x *Engine) havocObject(st *State, t types.Type, ref string) {
	stt, ok := structOf(t)
	if !ok || isOpaqueStruct(t) {
		return
	}
	for i := 0; i < stt.NumFields(); i++ {
		f := stt.Field(i)
		if _, ok := structOf(f.Type()); ok {
			x.havocObject(st, f.Type(), x.embRef(t, f, ref))
			continue
		}
		k := x.fieldKey(t, f)
		n := x.fresh("hf")
		x.decl(n, x.sortOf(f.Type()))
		x.set(st, k, fmt.Sprintf("(store %s %s %s)", x.get(st, k), ref, n))
		x.assume(st, x.wf(f.Type(), n, st))
	}
}

// modKeyStatic: state components named by a modifies clause, determined from types only.
func (x *Engine) modKeyStatic(fs *FuncSpec, m *Clause) (keys []string, ok bool) {
	defer func() {
		if r := recover(); r != nil {
			ok = false
		}
	}()
	n := m.Expr
	if n.Op == "call" && len(n.Args) > 0 && n.Args[0].Op == "ident" && (n.Args[0].Name == "wlockcount" || n.Args[0].Name == "rlockcount") {
		key := "Lock:w"
		if n.Args[0].Name == "rlockcount" {
			key = "Lock:r"
		}
		x.regComp(key, "(Array Int Int)")
		return []string{key}, true
	}
	if n.Op == "ident" {
		if _, isG := x.db.Ghosts[n.Name]; isG {
			x.regComp("ghost:"+n.Name, x.db.Ghosts[n.Name].Sort)
			return []string{"ghost:" + n.Name}, true
		}
		if pkg := x.pkgByPath(fs.Pkg); pkg != nil {
			if gl, isGl := pkg.Members[n.Name].(*ssa.Global); isGl {
				return []string{x.globalKey(gl)}, true
			}
		}
	}
	sig := x.sigOf(fs)
	if sig == nil {
		return nil, false
	}
	// dummy environment with the right types
	saveS, saveD := len(x.script), len(x.decls)
	var args []Val
	if sig.Recv() != nil {
		args = append(args, Val{T: "dummy", Typ: sig.Recv().Type()})
	} else if fs.IsIface {
		args = append(args, Val{T: "dummy", Typ: x.ifaceTypeOf(fs)})
	}
	for i := 0; i < sig.Params().Len(); i++ {
		args = append(args, Val{T: "dummy", Typ: sig.Params().At(i).Type()})
	}
	env := x.contractEnv(fs, sig, args)
	st := &State{live: "true", h: map[string]string{}}
	pkg := x.pkgByPath(fs.Pkg)
	defer func() { x.script = x.script[:saveS]; _ = saveD }()
	if n.Op == "call" && n.Args[0].Op == "ident" {
		ev := &Eval{x: x, st: st, old: st, env: env, pkg: pkg}
		switch n.Args[0].Name {
		case "elems":
			v := ev.eval(n.Args[1])
			return []string{x.elemKey(v.Typ.Underlying().(*types.Slice).Elem())}, true
		case "mapof":
			v := ev.eval(n.Args[1])
			d, vv := x.mapKeys(v.Typ.Underlying().(*types.Map))
			return []string{d, vv, "MapLen"}, true
		case "fields":
			v := ev.eval(n.Args[1])
			t, _ := deref(v.Typ)
			ks := map[string]bool{}
			x.structKeys(t, ks)
			for k := range ks {
				keys = append(keys, k)
			}
			return keys, true
		case "cells":
			if tn, ok := pkg.Members[n.Args[1].Name].(*ssa.Type); ok {
				return []string{x.memKey(tn.Type())}, true
			}
			if bt, ok := types.Universe.Lookup(n.Args[1].Name).(*types.TypeName); ok {
				return []string{x.memKey(bt.Type())}, true
			}
		case "allfields":
			if tn := x.typeByNode(pkg, n.Args[1]); tn != nil {
				ks := map[string]bool{}
				x.structKeys(tn.Type(), ks)
				for k := range ks {
					keys = append(keys, k)
				}
				return keys, true
			}
		case "all":
			if k, ok := x.allFieldKey(pkg, n.Args[1]); ok {
				return []string{k}, true
			}
		}
		return nil, false
	}
	ev := &Eval{x: x, st: st, old: st, env: env, pkg: pkg}
	v := ev.eval(n)
	if v.Addr == nil {
		return nil, false
	}
	return []string{v.Addr.Key}, true
}

func (x *Engine) sigOf(fs *FuncSpec) *types.Signature {
	if fs.IsCallback {
		k := strings.TrimSuffix(fs.Key, ".call")
		i := strings.LastIndex(k, ".")
		if pkg := x.pkgByPath(k[:i]); pkg != nil {
			if tn, ok := pkg.Members[k[i+1:]].(*ssa.Type); ok {
				if sg, ok := tn.Type().Underlying().(*types.Signature); ok {
					return sg
				}
			}
		}
		return nil
	}
	if fs.IsIface {
		if m := x.ifaceMethod(fs); m != nil {
			return m.Type().(*types.Signature)
		}
		return nil
	}
	if fn := x.fnByKey[fs.Key]; fn != nil {
		return fn.Signature
	}
	return nil
}

func (x *Engine) ifaceTypeOf(fs *FuncSpec) types.Type {
	// key: pkgpath.Type.Method
	k := fs.Key
	j := strings.LastIndex(k, ".")
	tk := k[:j]
	i := strings.LastIndex(tk, ".")
	pkg := x.pkgByPath(tk[:i])
	if pkg == nil {
		return nil
	}
	if tn, ok := pkg.Members[tk[i+1:]].(*ssa.Type); ok {
		return tn.Type()
	}
	return nil
}

func (x *Engine) ifaceMethod(fs *FuncSpec) *types.Func {
	t := x.ifaceTypeOf(fs)
	if t == nil {
		return nil
	}
	j := strings.LastIndex(fs.Key, ".")
	name := fs.Key[j+1:]
	if name == "call" {
		return nil
	}
	obj, _, _ := types.LookupFieldOrMethod(t, true, nil, name)
	f, _ := obj.(*types.Func)
	return f
}

// ---------------------------------------------------------------- builtins

func (x *Engine) builtin(fr *Frame, st *State, b *ssa.Builtin, cc *ssa.CallCommon, args []Val, pos string) Val {
	sig := cc.Signature()
	switch b.Name() {
	case "len", "cap":
		v := args[0]
		rt := types.Typ[types.Int]
		if v.Elems != nil && b.Name() == "len" {
			return Val{T: fmt.Sprint(len(v.Elems)), Typ: rt}
		}
		switch u := v.Typ.Underlying().(type) {
		case *types.Slice:
			if b.Name() == "cap" {
				return Val{T: "(s_cap " + v.T + ")", Typ: rt}
			}
			return Val{T: "(s_len " + v.T + ")", Typ: rt}
		case *types.Basic:
			return Val{T: "(strlen " + v.T + ")", Typ: rt}
		case *types.Map:
			x.mapKeys(u)
			return Val{T: fmt.Sprintf("(select %s %s)", x.get(st, "MapLen"), v.T), Typ: rt}
		case *types.Array:
			return Val{T: fmt.Sprint(u.Len()), Typ: rt}
		case *types.Pointer:
			if a, ok := u.Elem().Underlying().(*types.Array); ok {
				return Val{T: fmt.Sprint(a.Len()), Typ: rt}
			}
		case *types.Chan:
			// arbitrary non-negative value: other goroutines fill and drain the channel
			x.abstracted("len(channel): arbitrary non-negative value")
			v := x.freshVal("chl", rt, st)
			x.assume(st, fmt.Sprintf("(>= %s 0)", v.T))
			return v
		}
	case "append":
		return x.doAppend(fr, st, args, cc)
	case "delete":
		x.mapDelete(st, args[0], args[1])
		return Val{}
	case "recover":
		rt := sig.Results().At(0).Type()
		if len(x.panicking) == 0 {
			return Val{T: x.zero(rt), Typ: rt}
		}
		pf := x.panicking[len(x.panicking)-1]
		// recover() only stops the panic when called directly by the deferred function: in a function that the
		// deferred function calls (one frame further down) it returns nil and the panic keeps unwinding
		if fr.parent != pf {
			x.abstracted("recover() not called directly by a deferred function: returns nil")
			return Val{T: x.zero(rt), Typ: rt}
		}
		already := x.get(st, pf.recKey)
		st.h[pf.recKey] = "true"
		pv := x.freshVal("panicval", rt, st)
		x.assume(st, fmt.Sprintf("(=> (not %s) (not (= (i_tag %s) 0)))", already, pv.T))
		x.assume(st, fmt.Sprintf("(=> %s (= (i_tag %s) 0))", already, pv.T))
		return pv
	case "copy":
		x.abstracted("copy(): destination elements havocked")
		el := args[0].Typ.Underlying().(*types.Slice).Elem()
		key := x.elemKey(el)
		row := x.fresh("row")
		x.decl(row, "(Array Int "+x.sortOf(el)+")")
		x.set(st, key, fmt.Sprintf("(store %s (s_base %s) %s)", x.get(st, key), args[0].T, row))
		return x.freshVal("cpn", types.Typ[types.Int], st)
	case "print", "println":
		return Val{}
	case "min", "max":
		op := "<="
		if b.Name() == "max" {
			op = ">="
		}
		r := args[0]
		for _, a := range args[1:] {
			r = Val{T: fmt.Sprintf("(ite (%s %s %s) %s %s)", op, r.T, a.T, r.T, a.T), Typ: r.Typ}
		}
		return r
	}
	x.degrade("builtin " + b.Name())
	return resultVal(sig, x.freshResults(st, sig, "br"))
}

// doAppend: append(s, elems...) — shares the backing array iff capacity suffices.
func (x *Engine) doAppend(fr *Frame, st *State, args []Val, cc *ssa.CallCommon) Val {
	s, add := args[0], args[1]
	stype := s.Typ
	if _, ok := stype.Underlying().(*types.Slice); !ok {
		stype = cc.Signature().Results().At(0).Type()
	}
	el := stype.Underlying().(*types.Slice).Elem()
	if isString(add.Typ) {
		x.abstracted("append(bytes, string...)")
		return x.freshVal("ap", stype, st)
	}
	key := x.elemKey(el)
	if _, isS := structOf(el); isS {
		x.abstracted("append to a slice of structs")
		x.degrade("append to a slice of structs in " + fr.fn.String())
		return x.freshVal("ap", stype, st)
	}
	if s.Off != "" {
		x.degrade("append to a sub-slice with non-zero low bound in " + fr.fn.String())
	}
	aoff := "0"
	if add.Off != "" {
		aoff = add.Off
	}
	n := fmt.Sprintf("(s_len %s)", add.T)
	newLen := x.name("al", "Int", fmt.Sprintf("(+ (s_len %s) %s)", s.T, n))
	fits := x.name("fits", "Bool", fmt.Sprintf("(<= %s (s_cap %s))", newLen, s.T))
	r := x.alloc(st)
	newCap := x.fresh("ncap")
	x.decl(newCap, "Int")
	x.assume(st, fmt.Sprintf("(>= %s %s)", newCap, newLen))
	arr := x.get(st, key)
	var staticN = -1
	if add.Elems != nil {
		staticN = len(add.Elems)
	}
	srcRow := x.name("srow", "(Array Int "+x.sortOf(el)+")", fmt.Sprintf("(select %s (s_base %s))", arr, s.T))
	var rowShared, rowNew string
	if staticN >= 0 && staticN <= 8 {
		rowShared = srcRow
		cp := x.fresh("cprow")
		x.decl(cp, "(Array Int "+x.sortOf(el)+")")
		x.assume(st, fmt.Sprintf("(forall ((j Int)) (! (=> (and (<= 0 j) (< j (s_len %s))) (= (select %s j) (select %s j))) :pattern ((select %s j))))", s.T, cp, srcRow, cp))
		rowNew = cp
		for j := 0; j < staticN; j++ {
			ev := fmt.Sprintf("(select (select %s (s_base %s)) (+ %s %d))", arr, add.T, aoff, j)
			if aoff == "0" {
				ev = fmt.Sprintf("(select (select %s (s_base %s)) %d)", arr, add.T, j)
			}
			rowShared = fmt.Sprintf("(store %s (+ (s_len %s) %d) %s)", rowShared, s.T, j, ev)
			rowNew = fmt.Sprintf("(store %s (+ (s_len %s) %d) %s)", rowNew, s.T, j, ev)
		}
	} else {
		x.abstracted("append of a dynamic number of elements: appended range axiomatised")
		sh := x.fresh("shrow")
		cp := x.fresh("cprow")
		x.decl(sh, "(Array Int "+x.sortOf(el)+")")
		x.decl(cp, "(Array Int "+x.sortOf(el)+")")
		addRow := x.name("arow", "(Array Int "+x.sortOf(el)+")", fmt.Sprintf("(select %s (s_base %s))", arr, add.T))
		x.assume(st, fmt.Sprintf("(forall ((j Int)) (! (= (select %s j) (ite (and (<= (s_len %s) j) (< j %s)) (select %s (+ %s (- j (s_len %s)))) (select %s j))) :pattern ((select %s j))))",
			sh, s.T, newLen, addRow, aoff, s.T, srcRow, sh))
		x.assume(st, fmt.Sprintf("(forall ((j Int)) (! (=> (and (<= 0 j) (< j %s)) (= (select %s j) (ite (< j (s_len %s)) (select %s j) (select %s (+ %s (- j (s_len %s))))))) :pattern ((select %s j))))",
			newLen, cp, s.T, srcRow, addRow, aoff, s.T, cp))
		rowShared, rowNew = sh, cp
	}
	x.set(st, key, fmt.Sprintf("(ite %s (store %s (s_base %s) %s) (store %s %s %s))", fits, arr, s.T, rowShared, arr, r, rowNew))
	if !s.Fresh {
		x.bumpEpoch(st)
	}
	res := fmt.Sprintf("(ite %s (mk_slice (s_base %s) %s (s_cap %s)) (mk_slice %s %s %s))", fits, s.T, newLen, s.T, r, newLen, newCap)
	return Val{T: x.name("ap", "Slice", res), Typ: stype}
}

// closureSummary relates the uninterpreted application of a pure callback to the body of a statically known closure.
func (x *Engine) closureSummary(fr *Frame, st *State, v Val) {
	n, ok := v.Typ.(*types.Named)
	if !ok || n.Obj().Pkg() == nil || v.Clo == nil || v.Clo.Fn.Blocks == nil {
		return
	}
	key := n.Obj().Pkg().Path() + "." + n.Obj().Name() + ".call"
	fs := x.db.Funcs[key]
	if fs == nil || !fs.Pure || x.declared["closum:"+v.T+x.get(st, "$epoch")] {
		return
	}
	x.declared["closum:"+v.T+x.get(st, "$epoch")] = true
	sig := n.Underlying().(*types.Signature)
	fn := v.Clo.Fn
	nf := x.newFrame(fn, fr)
	var formals []string
	var args []Val
	for i, p := range fn.Params {
		nm := fmt.Sprintf("cba%d_%d", i, nf.id)
		formals = append(formals, fmt.Sprintf("(%s %s)", nm, x.sortOf(p.Type())))
		a := Val{T: nm, Typ: p.Type()}
		nf.vals[p] = a
		args = append(args, a)
	}
	for i, fv := range fn.FreeVars {
		if i < len(v.Clo.Binds) {
			nf.vals[fv] = v.Clo.Binds[i]
		}
	}
	nf.entry = fr.entryState()
	saveScript := len(x.script)
	x.pureMode = true
	ok = func() (ok bool) {
		defer func() {
			if r := recover(); r != nil {
				if s, isS := r.(string); isS && s == "impure" {
					ok = false
					return
				}
				panic(r)
			}
		}()
		x.runBody(nf, fn.Blocks[0], st.clone())
		return true
	}()
	x.pureMode = false
	x.script = x.script[:saveScript]
	if !ok || len(nf.returns) == 0 || len(nf.panics) > 0 {
		x.notes = append(x.notes, "closure "+fn.String()+" could not be summarised as a pure expression")
		return
	}
	term := nf.returns[len(nf.returns)-1].res[0].T
	for k := len(nf.returns) - 2; k >= 0; k-- {
		term = fmt.Sprintf("(ite %s %s %s)", nf.returns[k].cond, nf.returns[k].res[0].T, term)
	}
	app := x.pureApp(st, key, sig, Val{T: v.T, Typ: types.Typ[types.Int]}, args)
	x.emit(fmt.Sprintf("(assert (forall (%s) (! (= %s %s) :pattern (%s))))", strings.Join(formals, " "), app.T, term, app.T))
}

// typeByNode resolves `T` or `pkg.T` to a named type.
// allFieldKey: the state component named by all(T.f) / all(pkg.T.f) — field f of every object of type T.
func (x *Engine) allFieldKey(pkg *ssa.Package, sel *Node) (string, bool) {
	if sel == nil || sel.Op != "sel" || len(sel.Args) == 0 {
		return "", false
	}
	tn := x.typeByNode(pkg, sel.Args[0])
	if tn == nil {
		return "", false
	}
	_, f := findField(tn.Type(), sel.Name, 0)
	if f == nil {
		return "", false
	}
	return x.fieldKey(tn.Type(), f), true
}

func (x *Engine) typeByNode(pkg *ssa.Package, n *Node) *ssa.Type {
	if n.Op == "ident" && pkg != nil {
		tn, _ := pkg.Members[n.Name].(*ssa.Type)
		return tn
	}
	if n.Op == "sel" && n.Args[0].Op == "ident" {
		for _, p := range x.prog.AllPackages() {
			if p.Pkg.Name() == n.Args[0].Name && isRepoPkg(p.Pkg) {
				if tn, ok := p.Members[n.Name].(*ssa.Type); ok {
					return tn
				}
			}
		}
		// the qualifier may be a file-local import alias: accept a unique type of that name
		var found *ssa.Type
		cnt := 0
		for _, p := range x.prog.AllPackages() {
			if isRepoPkg(p.Pkg) {
				if tn, ok := p.Members[n.Name].(*ssa.Type); ok {
					found = tn
					cnt++
				}
			}
		}
		if cnt == 1 {
			return found
		}
		// a type of another module or the standard library (list.Element): by package name, if unique
		found, cnt = nil, 0
		for _, p := range x.prog.AllPackages() {
			if p.Pkg.Name() == n.Args[0].Name && !isRepoPkg(p.Pkg) {
				if tn, ok := p.Members[n.Name].(*ssa.Type); ok {
					found = tn
					cnt++
				}
			}
		}
		if cnt == 1 {
			return found
		}
	}
	return nil
}

// acquiredMutexes: the declared (guard / lock-order) mutex variables a function locks itself or through the functions
// it calls, found syntactically (static callees, function literals; depth-limited).
func (x *Engine) acquiredMutexes(fn *ssa.Function) map[*ssa.Global]bool {
	if x.acqMemo == nil {
		x.acqMemo = map[*ssa.Function]map[*ssa.Global]bool{}
	}
	if m, ok := x.acqMemo[fn]; ok {
		return m
	}
	out := map[*ssa.Global]bool{}
	x.acqMemo[fn] = out // cuts recursion
	var scan func(f *ssa.Function, depth int)
	seen := map[*ssa.Function]bool{}
	scan = func(f *ssa.Function, depth int) {
		if f == nil || seen[f] || depth > 6 || f.Blocks == nil {
			return
		}
		seen[f] = true
		for _, b := range f.Blocks {
			for _, ins := range b.Instrs {
				ci, ok := ins.(ssa.CallInstruction)
				if !ok {
					continue
				}
				if _, isGo := ins.(*ssa.Go); isGo {
					continue // another thread
				}
				cc := ci.Common()
				callee := cc.StaticCallee()
				if callee == nil {
					if mc, ok := cc.Value.(*ssa.MakeClosure); ok {
						callee, _ = mc.Fn.(*ssa.Function)
					}
				}
				if callee == nil {
					continue
				}
				switch callee.String() {
				case "(*sync.Mutex).Lock", "(*sync.RWMutex).Lock", "(*sync.RWMutex).RLock":
					if len(cc.Args) > 0 {
						if u, ok := cc.Args[0].(*ssa.UnOp); ok {
							if g, ok := u.X.(*ssa.Global); ok && x.isGuardMutex(g) {
								out[g] = true
							}
						}
					}
				default:
					if callee.Pkg != nil && isRepoPkg(callee.Pkg.Pkg) {
						scan(callee, depth+1)
					}
				}
			}
		}
	}
	scan(fn, 0)
	return out
}

// requiresMentionsMutex: the contract states itself what it expects of this mutex at entry (e.g. "holds the update lock").
func (x *Engine) requiresMentionsMutex(fs *FuncSpec, g *ssa.Global) bool {
	for _, c := range fs.Requires {
		if strings.Contains(c.Text, "lockcount("+g.Name()+")") {
			return true
		}
	}
	return false
}
