package main

import (
	"fmt"
	"go/token"
	"go/types"
	"golang.org/x/tools/go/packages"
	"os"
	"sort"
	"strconv"
	"strings"

	"golang.org/x/tools/go/ssa"
)

type FuncReport struct {
	Key        string
	Props      []string
	Obls       []*Obl
	Degraded   []string
	Abstracted map[string]int
	Inlined    []string
	Assumed    []string
	Notes      []string
	Decls      []string
	Script     []string
	Blocks     int
	Instrs     int
	Err        string
	ObjInvs    []string
	Witness    []Witness
	Replay     string
	ReplayFor  map[string]string
	PkgDir     string
}

func (x *Engine) indexFunctions() {
	x.fnByKey = map[string]*ssa.Function{}
	for _, p := range x.prog.AllPackages() {
		if !isRepoPkg(p.Pkg) {
			continue
		}
		for _, m := range p.Members {
			switch m := m.(type) {
			case *ssa.Function:
				x.fnByKey[specKeyOf(m)] = m
				x.indexAnon(m)
			case *ssa.Type:
				for _, t := range []types.Type{m.Type(), types.NewPointer(m.Type())} {
					ms := x.prog.MethodSets.MethodSet(t)
					for i := 0; i < ms.Len(); i++ {
						if f := x.prog.MethodValue(ms.At(i)); f != nil && f.Synthetic == "" {
							x.fnByKey[specKeyOf(f)] = f
							x.indexAnon(f)
						}
					}
				}
			}
		}
	}
}

// instantiateAutos gives every function of the loaded packages that directly calls the trigger of an autofunc
// template that template's clauses (appended to an explicit contract of the function when there is one).
func (x *Engine) instantiateAutos(pkgs []*packages.Package) {
	if len(x.db.Autos) == 0 {
		return
	}
	initial := map[string]bool{}
	for _, p := range pkgs {
		initial[p.PkgPath] = true
	}
	var keys []string
	for k := range x.fnByKey {
		keys = append(keys, k)
	}
	sort.Strings(keys)
	for _, a := range x.db.Autos {
		for _, k := range keys {
			fn := x.fnByKey[k]
			if fn.Pkg == nil || !initial[fn.Pkg.Pkg.Path()] || !callsDirectly(fn, a.Calls) {
				continue
			}
			t := a.Spec
			fs := x.db.Funcs[k]
			if fs == nil {
				c := *t
				c.Key, c.Pkg = k, fn.Pkg.Pkg.Path()
				x.db.Funcs[k] = &c
				x.db.Order = append(x.db.Order, k)
				continue
			}
			if fs.Assumed || fs.IsIface {
				continue
			}
			for _, pr := range t.Props {
				if !hasProp(fs.Props, pr) {
					fs.Props = append(fs.Props, pr)
				}
			}
			fs.Lets = append(append([]*Clause{}, t.Lets...), fs.Lets...)
			fs.Requires = append(append([]*Clause{}, t.Requires...), fs.Requires...)
			fs.Ensures = append(append([]*Clause{}, t.Ensures...), fs.Ensures...)
			if fs.Panics == "" {
				fs.Panics = t.Panics
			}
			if !fs.HasMod {
				fs.Modifies, fs.HasMod, fs.ModHeap = t.Modifies, t.HasMod, t.ModHeap
			}
		}
	}
}

// resolveGuards binds the "guarded G by M" declarations to the package variables.
func (x *Engine) resolveGuards() {
	x.guards = map[*ssa.Global]*guard{}
	for _, gs := range x.db.Guards {
		pkg := x.pkgByPath(gs.Pkg)
		if pkg == nil {
			panic(fmt.Sprintf("%s:%d: contract error: guarded: package %s not loaded", gs.File, gs.Line, gs.Pkg))
		}
		g, _ := pkg.Members[gs.Global].(*ssa.Global)
		mu, _ := pkg.Members[gs.Mutex].(*ssa.Global)
		if g == nil || mu == nil {
			panic(fmt.Sprintf("%s:%d: contract error: guarded: %s or %s is not a package variable of %s", gs.File, gs.Line, gs.Global, gs.Mutex, gs.Pkg))
		}
		gd := &guard{g: g, mu: mu, props: gs.Props, insertOnce: gs.InsertOnce}
		if gs.ReadersAlso != "" {
			gd.alt, _ = pkg.Members[gs.ReadersAlso].(*ssa.Global)
			if gd.alt == nil {
				panic(fmt.Sprintf("%s:%d: contract error: guarded: %s is not a package variable", gs.File, gs.Line, gs.ReadersAlso))
			}
		}
		x.guards[g] = gd
	}
	x.lockOrders = nil
	for _, os := range x.db.Orders {
		pkg := x.pkgByPath(os.Pkg)
		if pkg == nil {
			continue
		}
		a, _ := pkg.Members[os.Global].(*ssa.Global)
		b, _ := pkg.Members[os.Mutex].(*ssa.Global)
		if a == nil || b == nil {
			panic(fmt.Sprintf("%s:%d: contract error: lockorder: unknown mutex variable", os.File, os.Line))
		}
		x.lockOrders = append(x.lockOrders, [2]*ssa.Global{a, b})
		x.lockOrderProps = os.Props
	}
	// the mutex variables must never be reassigned outside package initialisation
	for _, fn := range x.fnByKey {
		if fn.Name() == "init" {
			continue
		}
		for _, b := range fn.Blocks {
			for _, in := range b.Instrs {
				if st, ok := in.(*ssa.Store); ok {
					if g, ok := st.Addr.(*ssa.Global); ok && x.isGuardMutex(g) {
						panic(fmt.Sprintf("contract error: guarded: mutex variable %s is assigned in %s", g.Name(), fn))
					}
				}
			}
		}
	}
}

// guardFuncs: the functions that must be verified for the lock discipline of prop — every named function of the
// loaded packages that mentions a guarded variable (a helper that expects its caller to hold the lock needs an
// explicit "requires{prop} wlockcount(mutex) > 0"). Function literals are covered through the function that runs them.
func (x *Engine) guardFuncs(prop string, pkgs []*packages.Package) []string {
	initial := map[string]bool{}
	for _, p := range pkgs {
		initial[p.PkgPath] = true
	}
	called := map[*ssa.Function]bool{}
	for _, fn := range x.fnByKey {
		for _, b := range fn.Blocks {
			for _, in := range b.Instrs {
				if c, ok := in.(ssa.CallInstruction); ok {
					if cal := c.Common().StaticCallee(); cal != nil {
						called[cal] = true
					}
				}
			}
		}
	}
	var out []string
	for k, fn := range x.fnByKey {
		if fn.Pkg == nil || !initial[fn.Pkg.Pkg.Path()] || fn.Parent() != nil || fn.Name() == "init" {
			continue
		}
		touches := false
		for _, b := range fn.Blocks {
			for _, in := range b.Instrs {
				for _, op := range in.Operands(nil) {
					if op == nil || *op == nil {
						continue
					}
					if g, ok := (*op).(*ssa.Global); ok {
						if gd := x.guards[g]; gd != nil && hasProp(gd.props, prop) {
							touches = true
						}
						// ... or takes / releases one of the declared mutexes (a function that only locks and then calls a
						// helper for the guarded access must be checked too: re-acquisition, lock order, balance)
						for _, gd := range x.guards {
							if (gd.mu == g || gd.alt == g) && hasProp(gd.props, prop) {
								touches = true
							}
						}
					}
				}
			}
		}
		if !touches {
			continue
		}
		_ = called
		out = append(out, k)
	}
	// An unexported helper without a contract of its own that is only ever called (never used as a value) from
	// functions that are themselves verified under this property is covered through them: it is inlined at every call
	// site, where its accesses are checked against the locks the caller actually holds ("fooLocked" helpers). Verifying
	// it on its own as well — as if entered from outside, holding nothing — would flag exactly that idiom.
	inSet := map[string]bool{}
	for _, k := range out {
		inSet[k] = true
	}
	verified := func(fn *ssa.Function) bool {
		for fn != nil && fn.Parent() != nil {
			fn = fn.Parent()
		}
		if fn == nil {
			return false
		}
		k := specKeyOf(fn)
		if fs := x.db.Funcs[k]; fs != nil && hasProp(fs.Props, prop) && !fs.Assumed {
			return true
		}
		return inSet[k]
	}
	var kept []string
	for _, k := range out {
		fn := x.fnByKey[k]
		if fn == nil || x.db.Funcs[k] != nil || token.IsExported(fn.Name()) {
			kept = append(kept, k)
			continue
		}
		callers, escapes := 0, false
		for _, g := range x.fnByKey {
			if g.Pkg != fn.Pkg {
				continue
			}
			var scan func(h *ssa.Function)
			scan = func(h *ssa.Function) {
				for _, b := range h.Blocks {
					for _, in := range b.Instrs {
						if c, ok := in.(ssa.CallInstruction); ok && c.Common().StaticCallee() == fn {
							if _, isGo := in.(*ssa.Go); isGo || !verified(h) || h == fn {
								escapes = true
								if os.Getenv("VCGO_DEBUG_GUARD") != "" {
									fmt.Fprintf(os.Stderr, "  caller %s of %s: go=%v verified=%v\n", specKeyOf(h), k, isGo, verified(h))
								}
							}
							callers++
							for _, a := range c.Common().Args {
								if a == ssa.Value(fn) {
									escapes = true
								}
							}
							continue
						}
						if _, isDbg := in.(*ssa.DebugRef); isDbg {
							continue
						}
						for _, op := range in.Operands(nil) {
							if op != nil && *op == ssa.Value(fn) {
								if c, ok := in.(ssa.CallInstruction); !ok || c.Common().Value != ssa.Value(fn) {
									escapes = true // used as a value: may run anywhere
								}
							}
						}
					}
				}
				for _, an := range h.AnonFuncs {
					scan(an)
				}
			}
			scan(g)
		}
		if os.Getenv("VCGO_DEBUG_GUARD") != "" {
			fmt.Fprintf(os.Stderr, "guard helper %s: callers=%d escapes=%v\n", k, callers, escapes)
		}
		if callers > 0 && !escapes {
			continue // covered through its (verified) callers
		}
		kept = append(kept, k)
	}
	out = kept
	sort.Strings(out)
	return out
}

func (x *Engine) guardProp(prop string) bool {
	for _, gd := range x.guards {
		if hasProp(gd.props, prop) {
			return true
		}
	}
	return false
}

func storesTo(fn *ssa.Function, v ssa.Value) bool {
	for _, b := range fn.Blocks {
		for _, in := range b.Instrs {
			if st, ok := in.(*ssa.Store); ok && st.Addr == v {
				return true
			}
		}
	}
	for _, a := range fn.AnonFuncs {
		for _, bind := range a.FreeVars {
			_ = bind
		}
	}
	return false
}

func callsDirectly(fn *ssa.Function, key string) bool {
	for _, b := range fn.Blocks {
		for _, in := range b.Instrs {
			if c, ok := in.(ssa.CallInstruction); ok {
				if callee := c.Common().StaticCallee(); callee != nil && specKeyOf(callee) == key {
					return true
				}
			}
		}
	}
	return false
}

func (x *Engine) indexAnon(f *ssa.Function) {
	for _, a := range f.AnonFuncs {
		if a.Pkg != nil {
			x.fnByKey[a.Pkg.Pkg.Path()+"."+a.Name()] = a
		}
		x.indexAnon(a)
	}
}

// verifyFunc generates all obligations of one function under contract.
func (x *Engine) verifyFunc(fs *FuncSpec, cs *Clause, prop string, mode string) (rep *FuncReport) {
	rep = &FuncReport{Key: fs.Key, Props: fs.Props}
	fn := x.fnByKey[fs.Key]
	if fn == nil {
		rep.Err = "function not found in the current tree: " + fs.Key
		return
	}
	x.reset(shortKey(fs.Key))
	if cs != nil {
		x.curFn += "|" + cs.Label
		rep.Key += "|" + cs.Label
	}
	x.curProps = fs.Props
	x.obls = nil
	x.topSpec = fs
	x.conc = hasProp(fs.ConcProps, prop) && mode != "seq"
	x.curProp = prop
	if mode == "conc" {
		x.curFn += "|thread-modular"
		rep.Key += "|thread-modular"
	}
	defer func() {
		if r := recover(); r != nil {
			if s, ok := r.(string); ok && strings.Contains(s, "contract error") {
				rep.Err = s
				return
			}
			panic(r)
		}
	}()
	for _, b := range fn.Blocks {
		rep.Blocks++
		rep.Instrs += len(b.Instrs)
	}
	fr := x.newFrame(fn, nil)
	fr.top = true
	fr.spec = fs
	// the contract carries invariants for loop ordinals: if the function no longer has that many loops (a loop was
	// extracted into a helper, merged, unrolled by hand), the invariants are bound to the wrong loops or to none — the
	// contract has to be brought up to date, and until then failures of this function are undecided, not violations
	// (only when the missing loop turns up, un-annotated, in a callee that is inlined — see the end of this function: a
	// change that simply DROPS a loop is a change of behaviour and is decided as usual)
	x.loopMismatch, x.inlinedLoop = nil, ""
	for k := range fs.Loops {
		if n, err := strconv.Atoi(k); err == nil && n > len(fr.loops) {
			x.loopMismatch = append(x.loopMismatch, fmt.Sprintf("the contract of %s has invariants for loop %d, the function has %d loop(s)", shortKey(fs.Key), n, len(fr.loops)))
		}
	}
	fr.track = fs.Panics == "never" || fs.Panics == "callees"
	fr.hooksOnly = fs.Panics == "callees"
	st := &State{live: "true", h: map[string]string{}}
	fr.entry = &State{live: "true", h: map[string]string{}}
	pkg := fn.Pkg
	var args []Val
	for _, p := range fn.Params {
		n := "p_" + mangle(p.Name())
		x.decl(n, x.sortOf(p.Type()))
		v := Val{T: n, Typ: p.Type()}
		x.assume(st, x.wf(p.Type(), n, st))
		fr.vals[p] = v
		args = append(args, v)
	}
	fr.env = x.contractEnv(fs, fn.Signature, args)
	// captured variables of a closure under contract: cells holding arbitrary well-formed values
	for _, fv := range fn.FreeVars {
		cell := "fv_" + mangle(fv.Name())
		x.decl(cell, "Int")
		et := ptrElem(fv.Type())
		cv := Val{T: cell, Typ: fv.Type()}
		if _, isS := structOf(et); !isS {
			cv.Addr = &Addr{Kind: "cell", Key: x.memKey(et), Ref: cell, Priv: true}
		}
		x.assume(st, fmt.Sprintf("(and (< %s %s) (not (= %s 0)))", cell, x.get(st, "$alloc"), cell))
		if cv.Addr != nil {
			content := Val{T: x.name("fvv", x.sortOf(et), x.loadAddr(st, cv.Addr)), Typ: et}
			x.assume(st, x.wf(et, content.T, st))
			fr.env[fv.Name()] = content
			if x.extPolicy == "preserve-ghosts" && !storesTo(fn, fv) {
				// a captured variable this closure never assigns keeps its value while the closure runs (no other
				// code can name it; the enclosing function is assumed not to reassign it concurrently)
				c := content
				cv.Static = &c
			}
		}
		fr.vals[fv] = cv
	}
	if x.conc {
		x.setupConc(fr, st, fs)
	} else {
		x.setupWritten(fr, st, fs)
	}
	for _, c := range fs.Lets {
		ev := &Eval{x: x, st: st, old: st, env: fr.env, pkg: pkg}
		lv, okLet := x.trySafeEval(ev, c)
		if !okLet {
			continue
		}
		lv.T = x.name("let_"+mangle(c.Label), ev.sortOf(lv), lv.T)
		fr.env[c.Label] = lv
	}
	for _, c := range fs.Requires {
		if len(c.Props) > 0 && !hasProp(c.Props, prop) {
			continue
		}
		ev := &Eval{x: x, st: st, old: st, env: fr.env, pkg: pkg}
		x.assume(st, x.safeEvalBool(ev, c))
		if c.Kind == "objinv" {
			x.objInvs[fs.Key+": "+c.Text] = true
		}
	}
	if cs != nil {
		ev := &Eval{x: x, st: st, old: st, env: fr.env, pkg: pkg}
		x.assume(st, x.safeEvalBool(ev, cs))
	}
	if len(x.guards) > 0 && pkg != nil && x.guardProp(prop) {
		// the package's mutexes are unexported: a caller from outside holds none of them; a helper that expects
		// one says so in a lock precondition (checked at its call sites, together with "the others are not held")
		for _, t := range x.notHeldTerms(st, pkg, fs) {
			x.assume(st, t)
		}
	}
	for _, c := range fs.Wits {
		ev := &Eval{x: x, st: st, old: st, env: fr.env, pkg: pkg}
		wv, okWit := x.trySafeEval(ev, c)
		if !okWit {
			continue
		}
		srt := ev.sortOf(wv)
		rep.Witness = append(rep.Witness, Witness{Name: c.Label, Term: x.name("wit_"+mangle(c.Label), srt, wv.T), Sort: srt})
	}
	rep.Replay = fs.Replay
	rep.ReplayFor = fs.ReplayFor
	rep.PkgDir = strings.TrimPrefix(strings.TrimPrefix(fs.Pkg, "github.com/alibaba/sentinel-golang"), "/")
	if i := strings.Index(rep.Replay, "@"); i >= 0 {
		// "template@dir": the replay test is injected into another package directory
		rep.PkgDir = rep.Replay[i+1:]
		rep.Replay = rep.Replay[:i]
	}
	// vacuity: the precondition must be satisfiable
	cov := &Obl{Name: x.curFn + "#cover[requires]", Func: x.curFn, Kind: "cover", Label: "requires", Props: fs.Props, NScript: len(x.script), Goal: "false", Live: "true", Text: "precondition satisfiable", Expect: "sat"}
	x.obls = append(x.obls, cov)

	x.runBody(fr, fn.Blocks[0], st)
	x.finishFrame(fr)

	if len(fr.returns) > 0 {
		var conds []string
		var sts []*State
		for _, r := range fr.returns {
			conds = append(conds, r.cond)
			sts = append(sts, r.st)
		}
		ret := x.merge(conds, sts)
		env := map[string]Val{}
		for k, v := range fr.env {
			env[k] = v
		}
		env["$panicked"] = Val{T: "false", Sort: "Bool"}
		sig := fn.Signature
		for i := 0; i < sig.Results().Len(); i++ {
			rt := sig.Results().At(i).Type()
			term := fr.returns[len(fr.returns)-1].res[i].T
			for k := len(fr.returns) - 2; k >= 0; k-- {
				if fr.returns[k].res[i].T != term {
					term = fmt.Sprintf("(ite %s %s %s)", fr.returns[k].cond, fr.returns[k].res[i].T, term)
				}
			}
			v := Val{T: x.name("res", x.sortOf(rt), term), Typ: rt}
			if i < len(fs.Results) {
				env[fs.Results[i]] = v
			}
			if sig.Results().Len() == 1 {
				env["result"] = v
			}
			if types.Identical(rt, types.Universe.Lookup("error").Type()) {
				env["reserr"] = v // the (last) error result, for contract templates that cannot name results
			}
		}
		if _, ok := env["reserr"]; !ok {
			env["reserr"] = Val{T: "(mk_iface 0 0)", Sort: "Iface"}
		}
		// reachability of the normal return (vacuity)
		x.obls = append(x.obls, &Obl{Name: x.curFn + "#cover[return]", Func: x.curFn, Kind: "cover", Label: "return", Props: fs.Props, NScript: len(x.script), Goal: "false", Live: ret.live, Text: "a normal return is reachable", Expect: "sat"})
		// ghost assignments at the normal return (ghost state never influences the code)
		for _, c := range fs.Sets {
			g, ok := x.db.Ghosts[c.Label]
			if !ok {
				panic(fmt.Sprintf("%s:%d: contract error: sets: %s is not a ghost variable\n    in: %s", c.File, c.Line, c.Label, c.Text))
			}
			ev := &Eval{x: x, st: ret, old: fr.entry, env: env, pkg: pkg}
			v := x.safeEval(ev, c)
			if g.Sort == "Real" {
				v = ev.toReal(v)
			}
			key := "ghost:" + c.Label
			x.regComp(key, g.Sort)
			x.set(ret, key, v.T)
		}
		if len(fs.Uses) > 0 {
			// lemma arguments may mention locals of the (last) return point
			uenv := map[string]Val{}
			var rb *ssa.BasicBlock
			for _, b := range fn.Blocks {
				if len(b.Instrs) > 0 {
					if _, ok := b.Instrs[len(b.Instrs)-1].(*ssa.Return); ok && b != fn.Recover {
						rb = b
					}
				}
			}
			if rb != nil {
				le, _ := x.nameEnv(fr, rb, nil)
				for k, v := range le {
					uenv[k] = v
				}
			}
			for k, v := range env {
				uenv[k] = v
			}
			for _, u := range fs.Uses {
				x.useLemma(ret, fr.entry, u, uenv, pkg)
			}
		}
		for i, c := range fs.Ensures {
			if len(c.Props) > 0 && !hasProp(c.Props, prop) {
				continue
			}
			if x.conc && len(c.Props) == 0 {
				continue // sequential clauses are not valid under interference
			}
			if modeExcluded(c.Props, x.conc) {
				continue // {.., seq}: stated for one thread only; {.., conc}: stated for the thread-modular pass only
			}
			ev := &Eval{x: x, st: ret, old: fr.entry, env: env, pkg: pkg}
			g := x.safeEvalBool(ev, c)
			lab := c.Label
			if lab == "" {
				lab = fmt.Sprint(i + 1)
			}
			o := x.obligeNoAssume(ret, "ensures", lab, g, c.Text, fmt.Sprintf("%s:%d", shortFile(c.File), c.Line))
			if len(c.Props) > 0 {
				o.Props, o.Tagged = c.Props, true
			}
			// cover: the antecedent of an implication must be reachable
			if c.Expr.Op == "binary" && c.Expr.Name == "==>" && cs == nil && !c.NoCover {
				ant := x.safeEvalBool(ev, &Clause{Expr: c.Expr.Args[0], Text: c.Text, File: c.File, Line: c.Line})
				x.obls = append(x.obls, &Obl{Name: x.curFn + "#cover[" + lab + "]", Func: x.curFn, Kind: "cover", Label: lab, Props: o.Props, NScript: len(x.script), Goal: notTerm(ant), Live: ret.live, Text: "antecedent reachable: " + c.Text, Expect: "sat"})
			}
		}
		if fs.HasMod && !x.conc {
			x.frameObligations(fr, fs, ret, env, pkg)
		}
		if x.conc {
			x.concObligations(fr, fs, ret, env, pkg)
		}
	} else {
		x.notes = append(x.notes, "no normal return reachable in "+fs.Key)
	}
	// always clauses hold on every exit: checked at each escaping panic too (state after the deferred calls ran)
	for i, c := range fs.Ensures {
		if c.Kind != "always" || (len(c.Props) > 0 && !hasProp(c.Props, prop)) {
			continue
		}
		for _, p := range fr.panics {
			pst := p.st.clone()
			pst.live = p.cond
			env := map[string]Val{}
			for k, v := range fr.env {
				env[k] = v
			}
			env["$panicked"] = Val{T: "true", Sort: "Bool"}
			ev := &Eval{x: x, st: pst, old: fr.entry, env: env, pkg: pkg}
			g := x.safeEvalBool(ev, c)
			lab := c.Label
			if lab == "" {
				lab = fmt.Sprint(i + 1)
			}
			o := x.obligeNoAssume(pst, "always", lab+"@panic:"+stableOrigin(p.origin), g, c.Text+"   [on the exit by panic from "+p.origin+"]", fmt.Sprintf("%s:%d", shortFile(c.File), c.Line))
			if len(c.Props) > 0 {
				o.Props = c.Props
			}
		}
	}
	if fs.Panics == "callees" {
		// the function's own code never panics: only a callee declared "panics may" can make it exit by panic
		for _, p := range fr.panics {
			if !strings.HasPrefix(p.origin, "callee-panic") {
				x.obligeNoAssume(&State{live: "true", h: map[string]string{}}, "nopanic", stableOrigin(p.origin), notTerm(p.cond), "no panic of its own: "+p.origin, p.origin)
			}
		}
	}
	if fs.Panics == "never" {
		for _, p := range fr.panics {
			x.obligeNoAssume(&State{live: "true", h: map[string]string{}}, "nopanic", stableOrigin(p.origin), notTerm(p.cond), "no panic escapes: "+p.origin, p.origin)
		}
	}
	rep.Obls = x.obls
	if len(x.loopMismatch) > 0 && x.inlinedLoop != "" {
		x.degrade(strings.Join(x.loopMismatch, "; ") + ", and " + x.inlinedLoop + " (inlined, no contract) has a loop without invariant: a loop was moved into a helper since the contract was written")
	}
	rep.Degraded = x.degraded
	rep.Abstracted = x.abstr
	for k := range x.inlined {
		rep.Inlined = append(rep.Inlined, shortKey(k))
	}
	sort.Strings(rep.Inlined)
	for k := range x.assumedC {
		rep.Assumed = append(rep.Assumed, shortKey(k))
	}
	sort.Strings(rep.Assumed)
	rep.Notes = x.notes
	for k := range x.objInvs {
		rep.ObjInvs = append(rep.ObjInvs, shortKey(k))
	}
	rep.Decls = x.decls
	rep.Script = x.script
	return rep
}

func shortFile(f string) string {
	if i := strings.Index(f, "/repo/"); i >= 0 {
		return f[i+6:]
	}
	return f
}

func (x *Engine) obligeNoAssume(st *State, kind, label, goal, text, pos string) *Obl {
	n := len(x.script)
	o := x.oblige(st, kind, label, goal, text, pos)
	x.script = x.script[:n]
	return o
}

// frameObligations: nothing but the declared locations changed (objects allocated before the call).
func (x *Engine) frameObligations(fr *Frame, fs *FuncSpec, ret *State, env map[string]Val, pkg *ssa.Package) {
	// allowed locations per component
	allowed := map[string][]*Addr{}
	whole := map[string]bool{}
	for _, m := range fs.Modifies {
		n := m.Expr
		if n.Op == "ident" {
			if _, ok := x.db.Ghosts[n.Name]; ok {
				whole["ghost:"+n.Name] = true
				continue
			}
			if gl, ok := pkg.Members[n.Name].(*ssa.Global); ok {
				whole[x.globalKey(gl)] = true
				continue
			}
		}
		if n.Op == "call" && n.Args[0].Op == "ident" {
			ev := &Eval{x: x, st: fr.entry, old: fr.entry, env: env, pkg: pkg}
			switch n.Args[0].Name {
			case "elems":
				v := x.safeEval(ev, &Clause{Expr: n.Args[1], Text: m.Text, File: m.File, Line: m.Line})
				key := x.elemKey(v.Typ.Underlying().(*types.Slice).Elem())
				allowed[key] = append(allowed[key], &Addr{Kind: "row", Key: key, Ref: "(s_base " + v.T + ")"})
				continue
			case "mapof":
				v := x.safeEval(ev, &Clause{Expr: n.Args[1], Text: m.Text, File: m.File, Line: m.Line})
				d, vv := x.mapKeys(v.Typ.Underlying().(*types.Map))
				for _, k := range []string{d, vv, "MapLen"} {
					allowed[k] = append(allowed[k], &Addr{Kind: "row", Key: k, Ref: v.T})
				}
				continue
			case "fields":
				v := x.safeEval(ev, &Clause{Expr: n.Args[1], Text: m.Text, File: m.File, Line: m.Line})
				t, _ := deref(v.Typ)
				ks := map[string]bool{}
				x.structKeys(t, ks)
				for k := range ks {
					allowed[k] = append(allowed[k], &Addr{Kind: "row", Key: k, Ref: v.T})
				}
				continue
			case "all", "cells", "allfields":
				ks, ok := x.modKeyStatic(fs, m)
				if ok {
					for _, k := range ks {
						whole[k] = true
					}
					continue
				}
			}
		}
		ev := &Eval{x: x, st: fr.entry, old: fr.entry, env: env, pkg: pkg}
		v, stated := x.trySafeEval(ev, m)
		if !stated {
			continue // names something the current code no longer has: the function is degraded (see trySafeEval)
		}
		if v.Addr == nil {
			panic(fmt.Sprintf("%s:%d: contract error: modifies target is not a location\n    in: %s", m.File, m.Line, m.Text))
		}
		allowed[v.Addr.Key] = append(allowed[v.Addr.Key], v.Addr)
	}
	var keys []string
	for k := range x.compSort {
		keys = append(keys, k)
	}
	sort.Strings(keys)
	a0 := x.get(fr.entry, "$alloc")
	for _, k := range keys {
		if strings.HasPrefix(k, "$") || strings.HasPrefix(k, "Once:") || strings.HasPrefix(k, "Iter:") || k == "ghost:gLastPooled" || whole[k] || k == "ghost:clock_ms" || k == "ghost:clock_ns" {
			continue
		}
		fin, ini := x.get(ret, k), x.get(fr.entry, k)
		if fin == ini {
			continue
		}
		if fs.ModHeap && !strings.HasPrefix(k, "ghost:") {
			continue
		}
		var goal string
		switch {
		case strings.HasPrefix(k, "G:"), strings.HasPrefix(k, "ghost:"):
			goal = fmt.Sprintf("(= %s %s)", fin, ini)
		case strings.HasPrefix(k, "Elem:"):
			var ex []string
			for _, a := range allowed[k] {
				if a.Kind == "row" {
					ex = append(ex, fmt.Sprintf("(not (= r %s))", a.Ref))
				} else {
					ex = append(ex, fmt.Sprintf("(not (and (= r %s) (= j %s)))", a.Ref, a.Idx))
				}
			}
			goal = fmt.Sprintf("(forall ((r Int) (j Int)) (=> (and (< r %s) %s) (= (select (select %s r) j) (select (select %s r) j))))", a0, andTerms(ex...), fin, ini)
		default:
			var ex []string
			for _, a := range allowed[k] {
				ex = append(ex, fmt.Sprintf("(not (= r %s))", a.Ref))
			}
			goal = fmt.Sprintf("(forall ((r Int)) (=> (and (< r %s) %s) (= (select %s r) (select %s r))))", a0, andTerms(ex...), fin, ini)
		}
		x.obligeNoAssume(ret, "frame", k, goal, "only declared locations change: "+k, "")
	}
}

// stableOrigin names a panic exit by the kinds of its sources (no line numbers, so edits elsewhere do not rename it).
func stableOrigin(o string) string {
	seen := map[string]bool{}
	var parts []string
	for _, p := range strings.Split(o, "|") {
		if i := strings.Index(p, "@"); i >= 0 {
			p = p[:i]
		}
		if !seen[p] {
			seen[p] = true
			parts = append(parts, p)
		}
	}
	sort.Strings(parts)
	s := strings.Join(parts, ",")
	if len(s) > 120 {
		s = s[:120] + "..."
	}
	return s
}

// modeExcluded: on a postcondition the pseudo tags restrict, they do not select — {P, seq} is stated under P in the
// one-thread pass only, {P, conc} under P in the thread-modular pass only.
func modeExcluded(props []string, conc bool) bool {
	return (conc && hasProp(props, "seq")) || (!conc && hasProp(props, "conc"))
}
