package main

import "golang.org/x/tools/go/ssa"

// Thread-modular ("volatile") mode; filled in later.
func (x *Engine) setupConc(fr *Frame, st *State, fs *FuncSpec) {}

func (x *Engine) concObligations(fr *Frame, fs *FuncSpec, ret *State, env map[string]Val, pkg *ssa.Package) {
}
