package main

import (
	"fmt"

	"golang.org/x/tools/go/ssa"
)

// Thread-modular ("volatile") mode. For a function verified under a property listed in its `concurrent` clause:
//   - the locations named by `shared` may be changed by other threads before every atomic access: their state
//     components are forgotten there (sound for any number of threads and any schedule; nothing is assumed about
//     what the others write);
//   - only postconditions tagged with that property are checked, and only such postconditions of callees are used;
//   - `onwrite[label] loc: cond` is checked in the state right after each successful atomic write to loc
//     (`new` / `prev` are the written and the overwritten value).
func (x *Engine) setupConc(fr *Frame, st *State, fs *FuncSpec) {
	x.sharedKeys = nil
	x.sharedAddrs = nil
	pkg := fr.fn.Pkg
	seen := map[string]bool{}
	for _, c := range fs.Shared {
		ev := &Eval{x: x, st: st, old: st, env: fr.env, pkg: pkg}
		v := x.safeEval(ev, c)
		if v.Addr == nil {
			panic(fmt.Sprintf("%s:%d: contract error: shared target is not a location\n    in: %s", c.File, c.Line, c.Text))
		}
		x.sharedAddrs = append(x.sharedAddrs, v.Addr)
		if !seen[v.Addr.Key] {
			seen[v.Addr.Key] = true
			x.sharedKeys = append(x.sharedKeys, v.Addr.Key)
			// written(loc): which shared locations this call has stored to so far (nothing at entry)
			x.regComp(wrKey(v.Addr.Key), wrSort)
			st.h[wrKey(v.Addr.Key)] = wrNone
		}
	}
	x.onWrite = func(st *State, a *Addr, prev, nv, cond, pos string) {
		for _, c := range fs.OnWrites {
			if len(c.Props) > 0 && !hasProp(c.Props, x.curProp) {
				continue
			}
			ev := &Eval{x: x, st: fr.entry, old: fr.entry, env: fr.env, pkg: pkg}
			loc := x.safeEval(ev, &Clause{Expr: c.Loc, Text: c.Text, File: c.File, Line: c.Line})
			if loc.Addr == nil || loc.Addr.Key != a.Key {
				continue
			}
			env := map[string]Val{}
			for k, v := range fr.env {
				env[k] = v
			}
			env["new"] = Val{T: nv, Sort: "Int"}
			env["prev"] = Val{T: prev, Sort: "Int"}
			same := fmt.Sprintf("(= %s %s)", a.Ref, loc.Addr.Ref)
			if a.Idx != "" {
				env["idx"] = Val{T: a.Idx, Sort: "Int"} // the element written, when the watched location is a whole array
				if loc.Addr.Idx != "" {
					same = fmt.Sprintf("(and %s (= %s %s))", same, a.Idx, loc.Addr.Idx)
				}
			}
			ev2 := &Eval{x: x, st: st, old: fr.entry, env: env, pkg: pkg}
			g := x.safeEvalBool(ev2, c)
			goal := fmt.Sprintf("(=> (and %s %s) %s)", same, cond, g)
			x.ordinals["onwrite:"+c.Label]++
			x.obligeNoAssume(st, "onwrite", fmt.Sprintf("%s#%d", c.Label, x.ordinals["onwrite:"+c.Label]), goal, c.Text+" (atomic write at "+pos+")", pos)
		}
	}
}

// The ghost component behind written(loc): per shared state component, the set of (object, element) pairs this call
// has successfully stored to through sync/atomic. It starts empty, grows at every atomic store / add / successful
// compare-and-swap, and is forgotten (arbitrary) wherever the component itself is summarised — at a loop head whose
// body writes the component, after an un-annotated loop, after a callee known only by a contract that may modify it —
// so a clause can only rely on writes the engine has actually followed.
const wrSort = "(Array Int (Array Int Bool))"
const wrNone = "((as const (Array Int (Array Int Bool))) ((as const (Array Int Bool)) false))"

func wrKey(k string) string { return "$wr:" + k }

// setupWritten: in the one-thread pass the locations declared shared are tracked as well (written() means the same
// there; nothing interferes)
func (x *Engine) setupWritten(fr *Frame, st *State, fs *FuncSpec) {
	for _, c := range fs.Shared {
		ev := &Eval{x: x, st: st, old: st, env: fr.env, pkg: fr.fn.Pkg}
		v, ok := x.trySafeEval(ev, c)
		if !ok || v.Addr == nil {
			continue
		}
		if _, seen := st.h[wrKey(v.Addr.Key)]; !seen {
			x.regComp(wrKey(v.Addr.Key), wrSort)
			st.h[wrKey(v.Addr.Key)] = wrNone
		}
	}
}

func (x *Engine) markWritten(st *State, a *Addr, cond string) {
	k := wrKey(a.Key)
	if _, ok := x.compSort[k]; !ok {
		return
	}
	idx := "0"
	if a.Idx != "" {
		idx = a.Idx
	}
	w := x.get(st, k)
	row := fmt.Sprintf("(select %s %s)", w, a.Ref)
	x.set(st, k, fmt.Sprintf("(store %s %s (store %s %s (or %s (select %s %s))))", w, a.Ref, row, idx, cond, row, idx))
}

func (x *Engine) concObligations(fr *Frame, fs *FuncSpec, ret *State, env map[string]Val, pkg *ssa.Package) {
}
