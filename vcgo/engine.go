package main

import (
	"fmt"
	"go/constant"
	"go/token"
	"go/types"
	"math/big"
	"sort"
	"strings"

	"golang.org/x/tools/go/ssa"
)

// ---------------------------------------------------------------- values

type Addr struct {
	Kind string // field elem cell global
	Key  string // state component
	Ref  string // object reference / base
	Idx  string // element index (elem)
	Priv bool   // the cell of a captured variable of the function under verification (never a shared location)
}

type Closure struct {
	Fn    *ssa.Function
	Binds []Val
}

type Val struct {
	T      string
	Typ    types.Type
	Sort   string // when Typ == nil
	Addr   *Addr
	Clo    *Closure
	Tup    []Val
	Elems  []Val  // static contents of a slice built from a local array
	Static *Val   // for an element address: the statically known content
	Pooled bool   // value obtained from sync.Pool.Get
	Emb    bool   // interior reference of an inline struct (never nil)
	Iter   string // state component holding the visited set of a map iterator
	Off    string // element offset of a sub-slice s[lo:] (translator-level; such values must not escape)
	Fresh  bool   // reference allocated during this execution
}

type State struct {
	live string
	h    map[string]string
	gen  int
}

func (s *State) clone() *State {
	n := &State{live: s.live, h: make(map[string]string, len(s.h)), gen: s.gen}
	for k, v := range s.h {
		n.h[k] = v
	}
	return n
}

type Obl struct {
	Tagged  bool // carries clause-level properties (kept when a function is verified for a lock discipline only)
	Name    string
	Func    string
	Kind    string
	Label   string
	Props   []string
	NDecl   int
	NScript int
	Goal    string // formula that must be valid under live
	Live    string
	Text    string
	Pos     string
	Expect  string // "unsat" normally, "sat" for cover/canary
	Values  []string
	// results
	Status  string
	Solver  string
	TimeMs  int64
	Model   string
	SmtSize int
	File    string
	LiteSat bool // the weakened query has a model (candidate counterexample)
}

type exit struct {
	cond   string
	st     *State
	res    []Val
	origin string
}

type deferRec struct {
	instr *ssa.Defer
	key   string
}

type Frame struct {
	fn        *ssa.Function
	id        int
	vals      map[ssa.Value]Val
	spec      *FuncSpec
	parent    *Frame
	depth     int
	track     bool // implicit runtime panics are obligations/exits
	hooksOnly bool // ("panics callees") only calls of nil hook fields and explicit panics are tracked; nil / index / division on inputs are assumed away
	returns   []exit
	panics    []exit
	defers    []deferRec
	recKey    string
	entry     *State
	env       map[string]Val // contract names
	arrays    map[ssa.Value][]Val
	top       bool
	loops     map[*ssa.BasicBlock]*loopInfo
	loopLets  map[*ssa.BasicBlock]map[string]Val
	inDefer   bool
	panicVal  string
	guarded   map[ssa.Value]*guard // values loaded from a guarded package variable (and ranges over them)
}

// guard: a package variable that may only be accessed while holding a mutex (reads: read or write lock; writes and
// map updates: write lock).
type guard struct {
	g, mu      *ssa.Global
	alt        *ssa.Global // readers may hold this exclusive lock instead; writers must hold both
	insertOnce bool
	props      []string
}

type loopInfo struct {
	header *ssa.BasicBlock
	blocks map[*ssa.BasicBlock]bool
	ord    int
}

type Engine struct {
	acqMemo         map[*ssa.Function]map[*ssa.Global]bool // declared mutexes a function acquires (syntactic, transitive)
	privAlloc       map[string]*ssa.Alloc                  // private cells ($priv:n): captured locals only this frame and its own closures can reach
	prog            *ssa.Program
	db              *SpecDB
	decls           []string
	declared        map[string]bool
	script          []string
	obls            []*Obl
	n               int
	compSort        map[string]string
	strs            map[string]string
	typeTags        map[string]int
	tagList         []string
	curFn           string
	curProps        []string
	degraded        []string
	abstr           map[string]int
	muxIDs          map[string]int
	lockOrders      [][2]*ssa.Global // (outer, inner) pairs of "lockorder" declarations
	lockOrderProps  []string
	guards          map[*ssa.Global]*guard
	sharedAddrs     []*Addr         // the locations declared shared (thread-modular mode)
	loopPriv        []string        // private cells the loop being cut may write (forgotten at its head)
	loopGhostWriter bool            // the loop being cut contains a call whose contract writes ghost state
	initialPkgs     map[string]bool // import paths of the packages loaded for verification
	extPolicy       string          // "" or "preserve-ghosts": how calls leaving the verified code without a contract are treated
	extCalls        map[string]int  // such calls, for the evidence
	inlined         map[string]bool
	assumedC        map[string]bool
	maxDepth        int
	topSpec         *FuncSpec
	notes           []string
	conc            bool

	objInvs       map[string]bool
	putType       map[string]*boxed
	nGlobals      int
	usedLemmas    map[string]bool
	loopMismatch  []string // contract loop ordinals the function (or an inlined contracted callee) no longer has
	inlinedLoop   string   // a named callee without contract that was inlined and has a loop without invariant
	ordinals      map[string]int
	pureMode      bool
	curProp       string
	fnByKey       map[string]*ssa.Function
	forceInline   map[string]bool
	usedContracts map[string]bool
	panicking     []*Frame
	recovered     []string
	poolEvents    []poolEvent
	atomics       []atomicEv
	lockEvents    []lockEv
	sharedKeys    []string
	relyHook      func(st *State, key, pre, post string)
	onWrite       func(st *State, a *Addr, prev, nv, cond, pos string)
}

func newEngine(prog *ssa.Program, db *SpecDB) *Engine {
	return &Engine{prog: prog, db: db, maxDepth: 12, extCalls: map[string]int{}}
}

func (x *Engine) reset(fn string) {
	x.decls = nil
	x.declared = map[string]bool{}
	x.script = nil
	x.n = 0
	x.compSort = map[string]string{}
	x.privAlloc = map[string]*ssa.Alloc{}
	x.strs = map[string]string{}
	x.curFn = fn
	x.degraded = nil
	x.abstr = map[string]int{}
	x.inlined = map[string]bool{}
	x.assumedC = map[string]bool{}
	x.notes = nil
	x.conc = false
	x.usedContracts = map[string]bool{}
	x.ordinals = map[string]int{}
	x.nGlobals = 0
	x.putType = nil
	x.objInvs = map[string]bool{}
	if x.usedLemmas == nil {
		x.usedLemmas = map[string]bool{}
	}
	x.panicking = nil
	x.recovered = nil
	x.poolEvents = nil
	x.atomics = nil
	x.lockEvents = nil
	x.sharedKeys = nil
	x.relyHook = nil
	x.onWrite = nil
	if x.forceInline == nil {
		x.forceInline = map[string]bool{}
	}
}

func (x *Engine) fresh(prefix string) string {
	x.n++
	return fmt.Sprintf("%s_%d", prefix, x.n)
}

func (x *Engine) decl(name, sort string) {
	if x.declared[name] {
		return
	}
	x.declared[name] = true
	x.decls = append(x.decls, fmt.Sprintf("(declare-fun %s () %s)", name, sort))
}

func (x *Engine) declRaw(key, line string) {
	if x.declared[key] {
		return
	}
	x.declared[key] = true
	x.decls = append(x.decls, line)
}

func (x *Engine) emit(line string) { x.script = append(x.script, line) }

func (x *Engine) assume(st *State, f string) {
	if f == "true" || x.pureMode {
		return
	}
	if st.live == "true" {
		x.emit("(assert " + f + ")")
	} else {
		x.emit(fmt.Sprintf("(assert (=> %s %s))", st.live, f))
	}
}

// name binds a term to a fresh defined constant to keep strings small.
func (x *Engine) name(prefix, sort, term string) string {
	if len(term) < 24 && !strings.Contains(term, " ") {
		return term
	}
	if x.pureMode {
		return term
	}
	n := x.fresh(prefix)
	x.emit(fmt.Sprintf("(define-fun %s () %s %s)", n, sort, term))
	return n
}

func (x *Engine) degrade(why string) {
	for _, d := range x.degraded {
		if d == why {
			return
		}
	}
	x.degraded = append(x.degraded, why)
}

func (x *Engine) abstracted(what string) { x.abstr[what]++ }

// ---------------------------------------------------------------- sorts

func mangle(s string) string {
	var b strings.Builder
	for _, c := range s {
		switch {
		case c >= 'a' && c <= 'z' || c >= 'A' && c <= 'Z' || c >= '0' && c <= '9' || c == '_':
			b.WriteRune(c)
		case c == '*':
			b.WriteString("P")
		default:
			b.WriteRune('_')
		}
	}
	return b.String()
}

func shortPkg(p string) string {
	p = strings.TrimPrefix(p, "github.com/alibaba/sentinel-golang/")
	return p
}

func typeName(t types.Type) string {
	return types.TypeString(t, func(p *types.Package) string { return shortPkg(p.Path()) })
}

func isRepoPkg(p *types.Package) bool {
	return p != nil && strings.HasPrefix(p.Path(), "github.com/alibaba/sentinel-golang")
}

func (x *Engine) sortOf(t types.Type) string {
	switch u := t.(type) {
	case *types.Named:
		if st, ok := u.Underlying().(*types.Struct); ok {
			return x.structSort(u, st)
		}
		return x.sortOf(u.Underlying())
	case *types.Alias:
		return x.sortOf(types.Unalias(u))
	case *types.Basic:
		switch {
		case u.Info()&types.IsBoolean != 0:
			return "Bool"
		case u.Info()&types.IsInteger != 0:
			return "Int"
		case u.Info()&types.IsFloat != 0:
			return "Real"
		case u.Info()&types.IsString != 0:
			return "Str"
		case u.Kind() == types.UnsafePointer, u.Kind() == types.UntypedNil:
			return "Int"
		}
		return "Int"
	case *types.Pointer, *types.Map, *types.Chan, *types.Signature:
		return "Int"
	case *types.Slice:
		return "Slice"
	case *types.Interface:
		return "Iface"
	case *types.Struct:
		return x.structSort(nil, u)
	case *types.Array:
		return "(Array Int " + x.sortOf(u.Elem()) + ")"
	case *types.Tuple:
		return "Int"
	}
	return "Int"
}

func (x *Engine) structSort(n *types.Named, st *types.Struct) string {
	var nm string
	if n != nil {
		if !isRepoPkg(n.Obj().Pkg()) {
			s := "O_" + mangle(typeName(n))
			x.declRaw("sort:"+s, fmt.Sprintf("(declare-sort %s 0)", s))
			return s
		}
		nm = "S_" + mangle(typeName(n))
	} else {
		nm = "S_anon_" + mangle(typeName(st))
	}
	if x.declared["sort:"+nm] {
		return nm
	}
	x.declared["sort:"+nm] = true
	if st.NumFields() == 0 {
		x.decls = append(x.decls, fmt.Sprintf("(declare-datatypes ((%s 0)) (((mk_%s))))", nm, nm))
		return nm
	}
	var fs []string
	for i := 0; i < st.NumFields(); i++ {
		f := st.Field(i)
		fs = append(fs, fmt.Sprintf("(%s_%s %s)", nm, mangle(f.Name()), x.sortOf(f.Type())))
	}
	x.decls = append(x.decls, fmt.Sprintf("(declare-datatypes ((%s 0)) (((mk_%s %s))))", nm, nm, strings.Join(fs, " ")))
	return nm
}

func structOf(t types.Type) (*types.Struct, bool) {
	st, ok := t.Underlying().(*types.Struct)
	return st, ok
}

func isOpaqueStruct(t types.Type) bool {
	if n, ok := t.(*types.Named); ok {
		if _, ok := n.Underlying().(*types.Struct); ok && !isRepoPkg(n.Obj().Pkg()) {
			return true
		}
	}
	return false
}

func (x *Engine) zero(t types.Type) string {
	s := x.sortOf(t)
	switch s {
	case "Int":
		return "0"
	case "Real":
		return "0.0"
	case "Bool":
		return "false"
	case "Str":
		return x.strConst("")
	case "Slice":
		return "(mk_slice 0 0 0)"
	case "Iface":
		return "(mk_iface 0 0)"
	}
	if st, ok := structOf(t); ok && !isOpaqueStruct(t) {
		if st.NumFields() == 0 {
			return "mk_" + s
		}
		var fs []string
		for i := 0; i < st.NumFields(); i++ {
			fs = append(fs, x.zero(st.Field(i).Type()))
		}
		return fmt.Sprintf("(mk_%s %s)", s, strings.Join(fs, " "))
	}
	if a, ok := t.Underlying().(*types.Array); ok {
		return fmt.Sprintf("((as const %s) %s)", s, x.zero(a.Elem()))
	}
	z := "zero_" + mangle(s)
	x.decl(z, s)
	return z
}

func (x *Engine) strConst(s string) string {
	if n, ok := x.strs[s]; ok {
		return n
	}
	n := fmt.Sprintf("str_%d", len(x.strs))
	x.strs[s] = n
	x.decl(n, "Str")
	x.decls = append(x.decls, fmt.Sprintf("(assert (= (strlen %s) %d))", n, len(s)))
	for o, on := range x.strs {
		if o != s {
			x.decls = append(x.decls, fmt.Sprintf("(assert (not (= %s %s)))", n, on))
		}
	}
	return n
}

func intRange(t types.Type) (lo, hi string, ok bool) {
	b, isB := t.Underlying().(*types.Basic)
	if !isB || b.Info()&types.IsInteger == 0 {
		return "", "", false
	}
	switch b.Kind() {
	case types.Int8:
		return "(- 128)", "127", true
	case types.Int16:
		return "(- 32768)", "32767", true
	case types.Int32:
		return "(- 2147483648)", "2147483647", true
	case types.Int, types.Int64, types.UntypedInt:
		return "(- 9223372036854775808)", "9223372036854775807", true
	case types.Uint8:
		return "0", "255", true
	case types.Uint16:
		return "0", "65535", true
	case types.Uint32:
		return "0", "4294967295", true
	case types.Uint, types.Uint64, types.Uintptr:
		return "0", "18446744073709551615", true
	}
	return "", "", false
}

func isUnsigned(t types.Type) bool {
	b, ok := t.Underlying().(*types.Basic)
	return ok && b.Info()&types.IsUnsigned != 0
}

func isFloat(t types.Type) bool {
	b, ok := t.Underlying().(*types.Basic)
	return ok && b.Info()&types.IsFloat != 0
}
func isInteger(t types.Type) bool {
	b, ok := t.Underlying().(*types.Basic)
	return ok && b.Info()&types.IsInteger != 0
}
func isString(t types.Type) bool {
	b, ok := t.Underlying().(*types.Basic)
	return ok && b.Info()&types.IsString != 0
}

func wrapTerm(t types.Type, term string) string {
	b, ok := t.Underlying().(*types.Basic)
	if !ok {
		return term
	}
	switch b.Kind() {
	case types.Int8:
		return "(wrap_i8 " + term + ")"
	case types.Int16:
		return "(wrap_i16 " + term + ")"
	case types.Int32:
		return "(wrap_i32 " + term + ")"
	case types.Int, types.Int64:
		return "(wrap_i64 " + term + ")"
	case types.Uint8:
		return "(wrap_u8 " + term + ")"
	case types.Uint16:
		return "(wrap_u16 " + term + ")"
	case types.Uint32:
		return "(wrap_u32 " + term + ")"
	case types.Uint, types.Uint64, types.Uintptr:
		return "(wrap_u64 " + term + ")"
	}
	return term
}

// wf returns the well-formedness constraint of a value of Go type t coming from an unconstrained source.
func (x *Engine) wf(t types.Type, term string, st *State) string {
	if lo, hi, ok := intRange(t); ok {
		return fmt.Sprintf("(and (<= %s %s) (<= %s %s))", lo, term, term, hi)
	}
	switch u := t.Underlying().(type) {
	case *types.Pointer:
		if _, isS := structOf(u.Elem()); isS {
			// the object and all its inline sub-objects lie below the allocation frontier
			return fmt.Sprintf("(and (< %s %s) (<= (+ (mod %s %d) %d) %d))", term, x.get(st, "$alloc"), term, refStride, x.structSize(u.Elem()), refStride)
		}
		return fmt.Sprintf("(< %s %s)", term, x.get(st, "$alloc"))
	case *types.Map, *types.Chan:
		return fmt.Sprintf("(< %s %s)", term, x.get(st, "$alloc"))
	case *types.Slice:
		return fmt.Sprintf("(and (< (s_base %s) %s) (<= 0 (s_len %s)) (<= (s_len %s) (s_cap %s)) (<= (s_cap %s) 4611686018427387904) (=> (= (s_base %s) 0) (= (s_cap %s) 0)))",
			term, x.get(st, "$alloc"), term, term, term, term, term, term)
	case *types.Interface:
		return fmt.Sprintf("(and (<= 0 (i_tag %s)) (=> (= (i_tag %s) 0) (= (i_val %s) 0)) (< (i_val %s) %s))", term, term, term, term, x.get(st, "$alloc"))
	case *types.Basic:
		if u.Info()&types.IsString != 0 {
			return fmt.Sprintf("(<= 0 (strlen %s))", term)
		}
	}
	return "true"
}

// ---------------------------------------------------------------- state components

func (x *Engine) compSortOf(key string) string {
	if s, ok := x.compSort[key]; ok {
		return s
	}
	panic("unknown state component " + key)
}

func (x *Engine) regComp(key, sort string) {
	if _, ok := x.compSort[key]; !ok {
		x.compSort[key] = sort
	}
}

func (x *Engine) initName(key string, gen int) string {
	n := fmt.Sprintf("%s@%d", mangle(key), gen)
	n = strings.ReplaceAll(n, "@", "_g")
	if !x.declared[n] {
		x.decl(n, x.compSortOf(key))
		if key == "$alloc" {
			x.decls = append(x.decls, fmt.Sprintf("(assert (and (<= %d %s) (= (mod %s %d) 0)))", refStride, n, n, refStride))
		}
		if strings.HasPrefix(key, "MapDom:") {
			// nil map has an empty domain
			ks := strings.TrimPrefix(key, "MapDom:")
			x.decls = append(x.decls, fmt.Sprintf("(assert (= (select %s 0) ((as const (Array %s Bool)) false)))", n, ks))
		}
		if key == "MapLen" {
			x.decls = append(x.decls, fmt.Sprintf("(assert (= (select %s 0) 0))", n))
		}
		if strings.HasPrefix(key, "Lock:") {
			// a thread never holds a lock a negative number of times
			x.decls = append(x.decls, fmt.Sprintf("(assert (forall ((r Int)) (! (>= (select %s r) 0) :pattern ((select %s r)))))", n, n))
		}
	}
	return n
}

func (x *Engine) get(st *State, key string) string {
	if key == "$alloc" {
		x.regComp(key, "Int")
	}
	if key == "$epoch" {
		x.regComp(key, "Int")
	}
	if v, ok := st.h[key]; ok {
		return v
	}
	if strings.HasPrefix(key, "$defer:") || strings.HasPrefix(key, "$rec:") {
		return "false" // a deferred call that was never registered on this path / no recover() yet
	}
	return x.initName(key, st.gen)
}

func (x *Engine) set(st *State, key, term string) {
	if x.pureMode {
		panic("impure")
	}
	st.h[key] = x.name("H", x.compSortOf(key), term)
}

func (x *Engine) bumpEpoch(st *State) {
	x.regComp("$epoch", "Int")
	n := x.fresh("epoch")
	x.decl(n, "Int")
	st.h["$epoch"] = n
}

// havocAll forgets everything about the heap (unknown callee).
func (x *Engine) havocAll(st *State) {
	oldAlloc := x.get(st, "$alloc")
	keep := map[string]string{}
	for k, v := range st.h {
		if strings.HasPrefix(k, "$defer:") || strings.HasPrefix(k, "$rec:") || strings.HasPrefix(k, "$ret:") || strings.HasPrefix(k, "$priv:") {
			keep[k] = v
		}
	}
	// which locks this thread holds is not something other code can change (callees are assumed lock-balanced
	// unless their contract says otherwise)
	for _, k := range []string{"Lock:w", "Lock:r"} {
		if _, ok := x.compSort[k]; ok {
			keep[k] = x.get(st, k)
		}
	}
	x.n++
	st.gen = x.n + 1000
	st.h = keep
	na := x.get(st, "$alloc")
	x.assume(st, fmt.Sprintf("(<= %s %s)", oldAlloc, na))
}

func (x *Engine) havocKey(st *State, key string) {
	if key == "$alloc" {
		old := x.get(st, key)
		n := x.fresh("alloc")
		x.decl(n, "Int")
		st.h[key] = n
		x.assume(st, fmt.Sprintf("(and (<= %s %s) (= (mod %s %d) 0))", old, n, n, refStride))
		return
	}
	n := x.fresh("hv_" + mangle(key))
	x.decl(n, x.compSortOf(key))
	st.h[key] = n
}

// merge joins states; conds are the edge conditions (exactly one holds when the join is reached).
func (x *Engine) merge(conds []string, sts []*State) *State {
	if len(sts) == 1 {
		s := sts[0].clone()
		s.live = conds[0]
		return s
	}
	out := &State{h: map[string]string{}, gen: sts[0].gen}
	keys := map[string]bool{}
	sameGen := true
	for _, s := range sts {
		for k := range s.h {
			keys[k] = true
		}
		if s.gen != out.gen {
			sameGen = false
		}
	}
	if !sameGen {
		for k := range x.compSort {
			keys[k] = true
		}
		// components first touched later in differing generations cannot be reconciled lazily: allocate a new generation
		x.n++
		out.gen = x.n + 1000
	}
	var ks []string
	for k := range keys {
		ks = append(ks, k)
	}
	sort.Strings(ks)
	for _, k := range ks {
		if _, ok := x.compSort[k]; !ok {
			continue
		}
		first := x.get(sts[0], k)
		same := true
		for _, s := range sts[1:] {
			if x.get(s, k) != first {
				same = false
			}
		}
		if same {
			out.h[k] = first
			continue
		}
		term := x.get(sts[len(sts)-1], k)
		for i := len(sts) - 2; i >= 0; i-- {
			term = fmt.Sprintf("(ite %s %s %s)", conds[i], x.get(sts[i], k), term)
		}
		out.h[k] = x.name("M", x.compSortOf(k), term)
	}
	out.live = x.name("live", "Bool", orTerms(conds))
	return out
}

func orTerms(c []string) string {
	var cs []string
	for _, t := range c {
		if t == "true" {
			return "true"
		}
		if t != "false" {
			cs = append(cs, t)
		}
	}
	if len(cs) == 0 {
		return "false"
	}
	if len(cs) == 1 {
		return cs[0]
	}
	return "(or " + strings.Join(cs, " ") + ")"
}

func andTerms(c ...string) string {
	var cs []string
	for _, t := range c {
		if t == "false" {
			return "false"
		}
		if t != "true" && t != "" {
			cs = append(cs, t)
		}
	}
	if len(cs) == 0 {
		return "true"
	}
	if len(cs) == 1 {
		return cs[0]
	}
	return "(and " + strings.Join(cs, " ") + ")"
}

func notTerm(t string) string {
	if t == "true" {
		return "false"
	}
	if t == "false" {
		return "true"
	}
	if strings.HasPrefix(t, "(not ") && strings.HasSuffix(t, ")") && balanced(t[5:len(t)-1]) {
		return t[5 : len(t)-1]
	}
	return "(not " + t + ")"
}

func balanced(s string) bool {
	d := 0
	for _, c := range s {
		if c == '(' {
			d++
		} else if c == ')' {
			d--
			if d < 0 {
				return false
			}
		}
	}
	return d == 0
}

// ---------------------------------------------------------------- heap access

func (x *Engine) fieldKey(owner types.Type, f *types.Var) string {
	key := "F:" + typeName(owner) + "." + f.Name()
	x.regComp(key, "(Array Int "+x.sortOf(f.Type())+")")
	return key
}

func (x *Engine) memKey(t types.Type) string {
	s := x.sortOf(t)
	key := "Mem:" + s
	x.regComp(key, "(Array Int "+s+")")
	return key
}

func (x *Engine) elemKey(t types.Type) string {
	s := x.sortOf(t)
	key := "Elem:" + s
	x.regComp(key, "(Array Int (Array Int "+s+"))")
	return key
}

func (x *Engine) globalKey(g *ssa.Global) string {
	t := g.Type().(*types.Pointer).Elem()
	key := "G:" + shortPkg(g.Pkg.Pkg.Path()) + "." + g.Name()
	x.regComp(key, x.sortOf(t))
	return key
}

func (x *Engine) loadAddr(st *State, a *Addr) string {
	switch a.Kind {
	case "field", "cell":
		return fmt.Sprintf("(select %s %s)", x.get(st, a.Key), a.Ref)
	case "elem":
		return fmt.Sprintf("(select (select %s %s) %s)", x.get(st, a.Key), a.Ref, a.Idx)
	case "global", "priv":
		return x.get(st, a.Key)
	}
	panic("bad addr")
}

func (x *Engine) storeAddr(st *State, a *Addr, v string) {
	switch a.Kind {
	case "field", "cell":
		x.set(st, a.Key, fmt.Sprintf("(store %s %s %s)", x.get(st, a.Key), a.Ref, v))
	case "elem":
		arr := x.get(st, a.Key)
		x.set(st, a.Key, fmt.Sprintf("(store %s %s (store (select %s %s) %s %s))", arr, a.Ref, arr, a.Ref, a.Idx, v))
	case "global", "priv":
		x.set(st, a.Key, v)
	default:
		panic("bad addr")
	}
}

// Object references are multiples of refStride; the sub-objects of a struct stored inline (embedded structs,
// struct-typed fields) get the references ref+1 .. ref+size-1, laid out like memory. This makes interior pointers
// injective and order preserving (an interior reference is "old" exactly when its object is) without axioms.
const refStride = 4096

func (x *Engine) structSize(t types.Type) int {
	st, ok := structOf(t)
	if !ok || isOpaqueStruct(t) {
		return 1
	}
	n := 1
	for i := 0; i < st.NumFields(); i++ {
		if _, inl := structOf(st.Field(i).Type()); inl {
			n += x.structSize(st.Field(i).Type())
		}
	}
	return n
}

func (x *Engine) embOff(owner types.Type, f *types.Var) int {
	st, _ := structOf(owner)
	off := 1
	for i := 0; i < st.NumFields(); i++ {
		g := st.Field(i)
		if g == f {
			return off
		}
		if _, inl := structOf(g.Type()); inl {
			off += x.structSize(g.Type())
		}
	}
	return off
}

func (x *Engine) embRef(owner types.Type, f *types.Var, ref string) string {
	off := x.embOff(owner, f)
	if x.structSize(owner) >= refStride {
		x.degrade("struct too large for the reference layout: " + typeName(owner))
	}
	if k, ok := litInt(ref); ok {
		return intLit(fmt.Sprint(k + int64(off)))
	}
	// an uninterpreted symbol keeps the term usable as a quantifier trigger; its meaning is ref+off
	fn := "emb_" + mangle(typeName(owner)) + "_" + mangle(f.Name())
	x.declRaw("fun:"+fn, fmt.Sprintf("(declare-fun %s (Int) Int)", fn))
	t := fmt.Sprintf("(%s %s)", fn, ref)
	if strings.Contains(ref, "dummy") {
		return t
	}
	if strings.Contains(ref, "_q") || strings.Contains(ref, "cba") {
		if !x.declared["qinst:"+fn] {
			x.declared["qinst:"+fn] = true
			x.decls = append(x.decls, fmt.Sprintf("(assert (forall ((r Int)) (! (= (%s r) (+ r %d)) :pattern ((%s r)))))", fn, off, fn))
		}
		return t
	}
	if !x.declared["inst:"+t] {
		x.declared["inst:"+t] = true
		x.emit(fmt.Sprintf("(assert (= %s (+ %s %d)))", t, ref, off))
	}
	return t
}

func (x *Engine) elemRef(base, idx string) string {
	x.declRaw("fun:eref", "(declare-fun eref (Int Int) Int)\n(declare-fun eref_b (Int) Int)\n(declare-fun eref_i (Int) Int)")
	t := fmt.Sprintf("(eref %s %s)", base, idx)
	if !strings.Contains(t, "_q") && !x.declared["inst:"+t] && !strings.Contains(t, "dummy") {
		x.declared["inst:"+t] = true
		x.emit(fmt.Sprintf("(assert (and (= (eref_b %s) %s) (= (eref_i %s) %s) (< %s 0)))", t, base, t, idx, t))
	}
	return t
}

// loadStruct reads a whole struct value from the object at ref.
func (x *Engine) loadStruct(st *State, t types.Type, ref string) string {
	s := x.sortOf(t)
	stt, _ := structOf(t)
	if isOpaqueStruct(t) {
		key := x.memKey(t)
		return fmt.Sprintf("(select %s %s)", x.get(st, key), ref)
	}
	if stt.NumFields() == 0 {
		return "mk_" + s
	}
	var fs []string
	for i := 0; i < stt.NumFields(); i++ {
		f := stt.Field(i)
		if _, ok := structOf(f.Type()); ok {
			fs = append(fs, x.loadStruct(st, f.Type(), x.embRef(t, f, ref)))
		} else {
			fs = append(fs, fmt.Sprintf("(select %s %s)", x.get(st, x.fieldKey(t, f)), ref))
		}
	}
	return fmt.Sprintf("(mk_%s %s)", s, strings.Join(fs, " "))
}

func (x *Engine) storeStruct(st *State, t types.Type, ref, val string) {
	s := x.sortOf(t)
	stt, _ := structOf(t)
	if isOpaqueStruct(t) {
		key := x.memKey(t)
		x.set(st, key, fmt.Sprintf("(store %s %s %s)", x.get(st, key), ref, val))
		return
	}
	for i := 0; i < stt.NumFields(); i++ {
		f := stt.Field(i)
		fv := fmt.Sprintf("(%s_%s %s)", s, mangle(f.Name()), val)
		if _, ok := structOf(f.Type()); ok {
			x.storeStruct(st, f.Type(), x.embRef(t, f, ref), fv)
		} else {
			k := x.fieldKey(t, f)
			x.set(st, k, fmt.Sprintf("(store %s %s %s)", x.get(st, k), ref, fv))
		}
	}
}

func (x *Engine) zeroStruct(st *State, t types.Type, ref string) {
	stt, _ := structOf(t)
	if isOpaqueStruct(t) {
		return
	}
	for i := 0; i < stt.NumFields(); i++ {
		f := stt.Field(i)
		if _, ok := structOf(f.Type()); ok {
			x.zeroStruct(st, f.Type(), x.embRef(t, f, ref))
		} else {
			k := x.fieldKey(t, f)
			x.set(st, k, fmt.Sprintf("(store %s %s %s)", x.get(st, k), ref, x.zero(f.Type())))
		}
	}
}

func (x *Engine) alloc(st *State) string {
	r := x.fresh("ref")
	x.emit(fmt.Sprintf("(define-fun %s () Int %s)", r, x.get(st, "$alloc")))
	st.h["$alloc"] = x.name("alloc", "Int", fmt.Sprintf("(+ %s %d)", r, refStride))
	return r
}

// ---------------------------------------------------------------- constants

func (x *Engine) constVal(c *ssa.Const) Val {
	t := c.Type()
	if c.Value == nil {
		v := Val{T: x.zero(t), Typ: t}
		if _, ok := t.Underlying().(*types.Slice); ok {
			v.Elems = []Val{}
		}
		return v
	}
	switch c.Value.Kind() {
	case constant.Bool:
		if constant.BoolVal(c.Value) {
			return Val{T: "true", Typ: t}
		}
		return Val{T: "false", Typ: t}
	case constant.String:
		return Val{T: x.strConst(constant.StringVal(c.Value)), Typ: t}
	case constant.Int:
		if isFloat(t) {
			return Val{T: ratLit(c.Value), Typ: t}
		}
		return Val{T: intLit(c.Value.ExactString()), Typ: t}
	case constant.Float:
		if isInteger(t) {
			return Val{T: intLit(constant.ToInt(c.Value).ExactString()), Typ: t}
		}
		return Val{T: ratLit(c.Value), Typ: t}
	}
	x.degrade("constant kind " + c.Value.Kind().String())
	return x.freshVal("k", t, nil)
}

func intLit(s string) string {
	if strings.HasPrefix(s, "-") {
		return "(- " + s[1:] + ")"
	}
	return s
}

func ratLit(v constant.Value) string {
	// exact float64 value as a rational
	f, _ := constant.Float64Val(v)
	r := new(big.Rat)
	if r.SetFloat64(f) == nil {
		return "0.0"
	}
	num, den := r.Num(), r.Denom()
	neg := num.Sign() < 0
	if neg {
		num = new(big.Int).Neg(num)
	}
	var s string
	if den.Cmp(big.NewInt(1)) == 0 {
		s = num.String() + ".0"
	} else {
		s = fmt.Sprintf("(/ %s.0 %s.0)", num.String(), den.String())
	}
	if neg {
		s = "(- " + s + ")"
	}
	return s
}

func (x *Engine) freshVal(prefix string, t types.Type, st *State) Val {
	n := x.fresh(prefix)
	x.decl(n, x.sortOf(t))
	if st != nil {
		x.assume(st, x.wf(t, n, st))
	}
	return Val{T: n, Typ: t}
}

func posOf(prog *ssa.Program, p token.Pos) string {
	if !p.IsValid() {
		return ""
	}
	pp := prog.Fset.Position(p)
	f := pp.Filename
	if i := strings.Index(f, "/repo/"); i >= 0 {
		f = f[i+6:]
	}
	return fmt.Sprintf("%s:%d", f, pp.Line)
}

// ---------------------------------------------------------------- obligations

func (x *Engine) oblige(st *State, kind, label, goal, text, pos string) *Obl {
	name := fmt.Sprintf("%s#%s[%s]", x.curFn, kind, label)
	// disambiguate duplicates
	cnt := 0
	for _, o := range x.obls {
		if o.Name == name || strings.HasPrefix(o.Name, name+"~") {
			cnt++
		}
	}
	if cnt > 0 {
		name = fmt.Sprintf("%s~%d", name, cnt+1)
	}
	o := &Obl{Name: name, Func: x.curFn, Kind: kind, Label: label, Props: x.curProps, NDecl: -1, NScript: len(x.script), Goal: goal, Live: st.live, Text: text, Pos: pos, Expect: "unsat"}
	x.obls = append(x.obls, o)
	// once checked, the fact may be assumed downstream
	x.assume(st, goal)
	return o
}
