package main

import (
	"fmt"
	"strings"
)

// Node is the AST of a contract expression.
type Node struct {
	Op   string // ident num real str unary binary sel index call forall exists cond old hash
	Name string
	Args []*Node
	Sort string // binder sort for quantifiers
	Pos  int
}

func (n *Node) String() string {
	switch n.Op {
	case "ident", "num", "real":
		return n.Name
	case "str":
		return fmt.Sprintf("%q", n.Name)
	case "hash":
		return "#" + n.Name
	case "unary":
		return n.Name + n.Args[0].String()
	case "binary":
		return "(" + n.Args[0].String() + " " + n.Name + " " + n.Args[1].String() + ")"
	case "sel":
		return n.Args[0].String() + "." + n.Name
	case "index":
		return n.Args[0].String() + "[" + n.Args[1].String() + "]"
	case "call":
		var a []string
		for _, x := range n.Args[1:] {
			a = append(a, x.String())
		}
		return n.Args[0].String() + "(" + strings.Join(a, ", ") + ")"
	case "forall", "exists":
		return n.Op + " " + n.Name + " " + n.Sort + " :: " + n.Args[0].String()
	case "cond":
		return "(" + n.Args[0].String() + " ? " + n.Args[1].String() + " : " + n.Args[2].String() + ")"
	}
	return "?"
}

type tok struct {
	k string // id num real str op eof
	s string
	p int
}

func lex(s string) ([]tok, error) {
	var out []tok
	i := 0
	for i < len(s) {
		c := s[i]
		switch {
		case c == ' ' || c == '\t':
			i++
		case c == '_' || c >= 'a' && c <= 'z' || c >= 'A' && c <= 'Z':
			j := i
			for j < len(s) && (s[j] == '_' || s[j] >= 'a' && s[j] <= 'z' || s[j] >= 'A' && s[j] <= 'Z' || s[j] >= '0' && s[j] <= '9') {
				j++
			}
			out = append(out, tok{"id", s[i:j], i})
			i = j
		case c >= '0' && c <= '9':
			j := i
			isReal := false
			for j < len(s) && (s[j] >= '0' && s[j] <= '9' || s[j] == '_' || s[j] == '.' && j+1 < len(s) && s[j+1] >= '0' && s[j+1] <= '9') {
				if s[j] == '.' {
					isReal = true
				}
				j++
			}
			k := "num"
			if isReal {
				k = "real"
			}
			out = append(out, tok{k, strings.ReplaceAll(s[i:j], "_", ""), i})
			i = j
		case c == '"':
			j := i + 1
			for j < len(s) && s[j] != '"' {
				j++
			}
			if j >= len(s) {
				return nil, fmt.Errorf("unterminated string")
			}
			out = append(out, tok{"str", s[i+1 : j], i})
			i = j + 1
		default:
			ops := []string{"<==>", "==>", "::", "==", "!=", "<=", ">=", "&&", "||", "<", ">", "+", "-", "*", "/", "%", "!", "(", ")", "[", "]", ".", ",", "?", ":", "#"}
			found := false
			for _, op := range ops {
				if strings.HasPrefix(s[i:], op) {
					out = append(out, tok{"op", op, i})
					i += len(op)
					found = true
					break
				}
			}
			if !found {
				return nil, fmt.Errorf("bad character %q at %d in %q", c, i, s)
			}
		}
	}
	out = append(out, tok{"eof", "", len(s)})
	return out, nil
}

type parser struct {
	t []tok
	i int
}

func parseExpr(s string) (*Node, error) {
	t, err := lex(s)
	if err != nil {
		return nil, err
	}
	p := &parser{t: t}
	var n *Node
	func() {
		defer func() {
			if r := recover(); r != nil {
				err = fmt.Errorf("%v in %q", r, s)
			}
		}()
		n = p.expr(0)
		if p.peek().k != "eof" {
			panic(fmt.Sprintf("unexpected %q at %d", p.peek().s, p.peek().p))
		}
	}()
	return n, err
}

func (p *parser) peek() tok { return p.t[p.i] }
func (p *parser) next() tok { t := p.t[p.i]; p.i++; return t }
func (p *parser) isOp(s string) bool {
	return p.t[p.i].k == "op" && p.t[p.i].s == s
}
func (p *parser) expect(s string) {
	if !p.isOp(s) {
		panic(fmt.Sprintf("expected %q got %q at %d", s, p.peek().s, p.peek().p))
	}
	p.i++
}

var binPrec = map[string]int{"<==>": 1, "==>": 2, "||": 4, "&&": 5, "==": 6, "!=": 6, "<": 6, "<=": 6, ">": 6, ">=": 6, "+": 7, "-": 7, "*": 8, "/": 8, "%": 8}

func (p *parser) expr(min int) *Node {
	lhs := p.unary()
	for {
		t := p.peek()
		if t.k != "op" {
			break
		}
		if t.s == "?" && min <= 3 {
			p.next()
			a := p.expr(4)
			p.expect(":")
			b := p.expr(3)
			lhs = &Node{Op: "cond", Args: []*Node{lhs, a, b}}
			continue
		}
		pr, ok := binPrec[t.s]
		if !ok || pr < min {
			break
		}
		p.next()
		var rhs *Node
		if t.s == "==>" || t.s == "<==>" {
			rhs = p.expr(pr) // right assoc
		} else {
			rhs = p.expr(pr + 1)
		}
		lhs = &Node{Op: "binary", Name: t.s, Args: []*Node{lhs, rhs}, Pos: t.p}
	}
	return lhs
}

func (p *parser) unary() *Node {
	t := p.peek()
	if t.k == "op" && (t.s == "!" || t.s == "-") {
		p.next()
		return &Node{Op: "unary", Name: t.s, Args: []*Node{p.unary()}, Pos: t.p}
	}
	return p.postfix(p.primary())
}

func (p *parser) postfix(n *Node) *Node {
	for {
		switch {
		case p.isOp("."):
			p.next()
			t := p.next()
			if t.k != "id" {
				panic("field name expected")
			}
			n = &Node{Op: "sel", Name: t.s, Args: []*Node{n}, Pos: t.p}
		case p.isOp("["):
			p.next()
			ix := p.expr(0)
			p.expect("]")
			n = &Node{Op: "index", Args: []*Node{n, ix}}
		case p.isOp("("):
			p.next()
			args := []*Node{n}
			for !p.isOp(")") {
				args = append(args, p.expr(0))
				if p.isOp(",") {
					p.next()
				}
			}
			p.expect(")")
			n = &Node{Op: "call", Args: args}
		default:
			return n
		}
	}
}

func (p *parser) primary() *Node {
	t := p.next()
	switch t.k {
	case "num":
		return &Node{Op: "num", Name: t.s, Pos: t.p}
	case "real":
		return &Node{Op: "real", Name: t.s, Pos: t.p}
	case "str":
		return &Node{Op: "str", Name: t.s, Pos: t.p}
	case "id":
		if t.s == "forall" || t.s == "exists" {
			v := p.next()
			s := p.next()
			if v.k != "id" || s.k != "id" {
				panic("quantifier: forall x Sort :: body")
			}
			p.expect("::")
			body := p.expr(0)
			return &Node{Op: t.s, Name: v.s, Sort: s.s, Args: []*Node{body}, Pos: t.p}
		}
		return &Node{Op: "ident", Name: t.s, Pos: t.p}
	case "op":
		if t.s == "(" {
			n := p.expr(0)
			p.expect(")")
			return n
		}
		if t.s == "#" {
			v := p.next()
			return &Node{Op: "hash", Name: v.s, Pos: t.p}
		}
	}
	panic(fmt.Sprintf("unexpected %q at %d", t.s, t.p))
}
