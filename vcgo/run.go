package main

import (
	"fmt"
	"go/token"
	"go/types"
	"sort"
	"strings"

	"golang.org/x/tools/go/ssa"
)

// ---------------------------------------------------------------- frames and the DAG driver

func (x *Engine) newFrame(fn *ssa.Function, parent *Frame) *Frame {
	x.n++
	fr := &Frame{fn: fn, id: x.n, vals: map[ssa.Value]Val{}, parent: parent, arrays: map[ssa.Value][]Val{}}
	if parent != nil {
		fr.depth = parent.depth + 1
		fr.track = parent.track
		fr.hooksOnly = parent.hooksOnly
	}
	fr.computeLoops()
	return fr
}

func (fr *Frame) computeLoops() {
	fr.loops = map[*ssa.BasicBlock]*loopInfo{}
	if fr.fn.Blocks == nil {
		return
	}
	for _, b := range fr.fn.Blocks {
		for _, s := range b.Succs {
			if s.Dominates(b) { // back edge b -> s
				li := fr.loops[s]
				if li == nil {
					li = &loopInfo{header: s, blocks: map[*ssa.BasicBlock]bool{s: true}}
					fr.loops[s] = li
				}
				// natural loop: all blocks that reach b without passing s
				var stack []*ssa.BasicBlock
				if !li.blocks[b] {
					li.blocks[b] = true
					stack = append(stack, b)
				}
				for len(stack) > 0 {
					n := stack[len(stack)-1]
					stack = stack[:len(stack)-1]
					for _, p := range n.Preds {
						if !li.blocks[p] {
							li.blocks[p] = true
							stack = append(stack, p)
						}
					}
				}
			}
		}
	}
	var hs []*ssa.BasicBlock
	for h := range fr.loops {
		hs = append(hs, h)
	}
	sort.Slice(hs, func(i, j int) bool { return hs[i].Index < hs[j].Index })
	for i, h := range hs {
		fr.loops[h].ord = i + 1
	}
}

func isBackEdge(from, to *ssa.BasicBlock) bool { return to.Dominates(from) }

// topoOrder: reverse post-order ignoring back edges, from start.
func topoOrder(start *ssa.BasicBlock) []*ssa.BasicBlock {
	seen := map[*ssa.BasicBlock]bool{}
	var post []*ssa.BasicBlock
	var dfs func(b *ssa.BasicBlock)
	dfs = func(b *ssa.BasicBlock) {
		seen[b] = true
		for _, s := range b.Succs {
			if !seen[s] && !isBackEdge(b, s) {
				dfs(s)
			}
		}
		post = append(post, b)
	}
	dfs(start)
	for i, j := 0, len(post)-1; i < j; i, j = i+1, j-1 {
		post[i], post[j] = post[j], post[i]
	}
	return post
}

type inEdge struct {
	from *ssa.BasicBlock
	cond string
	st   *State
}

func (x *Engine) val(fr *Frame, v ssa.Value) Val {
	switch c := v.(type) {
	case *ssa.Const:
		return x.constVal(c)
	case *ssa.Global:
		t := c.Type().(*types.Pointer).Elem()
		if _, ok := structOf(t); ok {
			return Val{T: x.globalRef(c), Typ: c.Type()}
		}
		if _, ok := t.Underlying().(*types.Array); ok {
			return Val{T: x.globalRef(c), Typ: c.Type()}
		}
		return Val{T: "(gaddr " + x.globalRef(c) + ")", Typ: c.Type(), Addr: &Addr{Kind: "global", Key: x.globalKey(c)}}
	case *ssa.Function:
		return Val{T: x.funcRef(c), Typ: c.Type(), Clo: &Closure{Fn: c}}
	case *ssa.Builtin:
		return Val{T: "0", Typ: c.Type()}
	}
	for f := fr; f != nil; f = f.parent {
		if r, ok := f.vals[v]; ok {
			return r
		}
		if v.Parent() == f.fn {
			break
		}
	}
	panic(fmt.Sprintf("value %s (%T) of %s has no translation in frame of %s", v.Name(), v, v.Parent(), fr.fn))
}

func (x *Engine) funcRef(f *ssa.Function) string {
	n := "fn_" + mangle(shortPkg(f.String()))
	if !x.declared[n] {
		x.decl(n, "Int")
		x.decls = append(x.decls, fmt.Sprintf("(assert (< %s 0))", n))
	}
	return n
}

// runBody executes the acyclic cut of fn starting at start with state st0.
func (x *Engine) runBody(fr *Frame, start *ssa.BasicBlock, st0 *State) {
	order := topoOrder(start)
	in := map[*ssa.BasicBlock][]inEdge{}
	for _, b := range order {
		var st *State
		if b == start {
			st = st0.clone()
		} else {
			edges := in[b]
			if len(edges) == 0 {
				continue
			}
			var conds []string
			var sts []*State
			for _, e := range edges {
				conds = append(conds, e.cond)
				sts = append(sts, e.st)
			}
			st = x.merge(conds, sts)
			// phis from the incoming (non back) edges
			for _, ins := range b.Instrs {
				phi, ok := ins.(*ssa.Phi)
				if !ok {
					break
				}
				fr.vals[phi] = x.phiVal(fr, phi, b, edges)
			}
		}
		if li := fr.loops[b]; li != nil {
			x.loopHeader(fr, li, st)
		}
		dead := false
		for _, ins := range b.Instrs {
			if _, ok := ins.(*ssa.Phi); ok {
				continue
			}
			if x.step(fr, st, ins, in) {
				dead = true
				break
			}
		}
		_ = dead
	}
}

func (x *Engine) phiVal(fr *Frame, phi *ssa.Phi, b *ssa.BasicBlock, edges []inEdge) Val {
	var term string
	var first Val
	allSame := true
	var vs []Val
	for _, e := range edges {
		idx := -1
		for i, p := range b.Preds {
			if p == e.from {
				idx = i
				break
			}
		}
		if idx < 0 {
			panic("phi edge not found")
		}
		v := x.val(fr, phi.Edges[idx])
		vs = append(vs, v)
	}
	first = vs[0]
	for _, v := range vs[1:] {
		if v.T != first.T {
			allSame = false
		}
	}
	if allSame {
		r := first
		r.Typ = phi.Type()
		return r
	}
	term = vs[len(vs)-1].T
	for i := len(vs) - 2; i >= 0; i-- {
		term = fmt.Sprintf("(ite %s %s %s)", edges[i].cond, vs[i].T, term)
	}
	return Val{T: x.name("phi", x.sortOf(phi.Type()), term), Typ: phi.Type()}
}

// ---------------------------------------------------------------- loops

func (x *Engine) loopSpec(fr *Frame, li *loopInfo) *LoopSpec {
	if fr.spec == nil || fr.spec.Loops == nil {
		return nil
	}
	return fr.spec.Loops[fmt.Sprint(li.ord)]
}

// nameEnv resolves contract names for a program point dominated by block at.
func (x *Engine) nameEnv(fr *Frame, at *ssa.BasicBlock, override map[ssa.Value]Val) (map[string]Val, map[string]Val) {
	env := map[string]Val{}
	for k, v := range fr.env {
		env[k] = v
	}
	hash := map[string]Val{}
	// source-level names via DebugRef whose block dominates `at`
	for _, b := range fr.fn.Blocks {
		if !(b == at || b.Dominates(at)) {
			continue
		}
		for _, ins := range b.Instrs {
			if d, ok := ins.(*ssa.DebugRef); ok && d.IsAddr {
				// an address-taken struct local: the name denotes the object
				if al, ok := d.X.(*ssa.Alloc); ok {
					if _, isS := structOf(ptrElem(al.Type())); isS {
						if nm := exprName(d); nm != "" {
							if v, ok := fr.vals[al]; ok {
								if _, isParam := fr.env[nm]; !isParam {
									env[nm] = v
								}
							}
						}
					}
				}
			}
			if d, ok := ins.(*ssa.DebugRef); ok && !d.IsAddr {
				if id, ok := d.Expr.(interface{ String() string }); ok {
					_ = id
				}
				nm := exprName(d)
				if nm == "" {
					continue
				}
				if _, isParam := fr.env[nm]; isParam {
					continue
				}
				if v, ok := fr.vals[d.X]; ok {
					env[nm] = v
				} else if c, ok := d.X.(*ssa.Const); ok {
					env[nm] = x.constVal(c)
				}
			}
		}
	}
	for k, v := range fr.loopLets[at] {
		env[k] = v
	}
	// visited set of the map iteration driving this loop
	if li := fr.loops[at]; li != nil {
		for b := range li.blocks {
			for _, ins := range b.Instrs {
				if nx, ok := ins.(*ssa.Next); ok && !nx.IsString {
					if r, ok := nx.Iter.(*ssa.Range); ok && fr.loops[b] == li {
						hash["seen"] = Val{T: "$iter:" + x.iterKey(fr, r), Sort: x.compSortOf(x.iterKey(fr, r))}
					}
				}
			}
		}
	}
	// phis of the header, by variable comment
	for _, ins := range at.Instrs {
		phi, ok := ins.(*ssa.Phi)
		if !ok {
			break
		}
		v, ok := override[phi]
		if !ok {
			v, ok = fr.vals[phi]
			if !ok {
				continue
			}
		}
		if phi.Comment == "rangeindex" {
			hash["i"] = Val{T: fmt.Sprintf("(+ %s 1)", v.T), Sort: "Int"}
		} else if phi.Comment != "" {
			env[phi.Comment] = v
		}
	}
	return env, hash
}

func exprName(d *ssa.DebugRef) string {
	type namer interface{ String() string }
	if id, ok := d.Expr.(interface {
		Pos() token.Pos
		End() token.Pos
	}); ok {
		_ = id
	}
	if obj := d.Object(); obj != nil {
		return obj.Name()
	}
	return ""
}

func (x *Engine) loopHeader(fr *Frame, li *loopInfo, st *State) {
	ls := x.loopSpec(fr, li)
	h := li.header
	pos := ""
	if len(h.Instrs) > 0 {
		pos = posOf(x.prog, h.Instrs[len(h.Instrs)-1].Pos())
	}
	// loop-level lets: evaluated once in the state on entry
	if ls != nil && len(ls.Lets) > 0 {
		env, hash := x.nameEnv(fr, h, nil)
		if fr.loopLets == nil {
			fr.loopLets = map[*ssa.BasicBlock]map[string]Val{}
		}
		fr.loopLets[h] = map[string]Val{}
		for _, c := range ls.Lets {
			for k, v := range fr.loopLets[h] {
				env[k] = v
			}
			ev := &Eval{x: x, st: st, old: fr.entry, env: env, hash: hash, pkg: fr.fn.Pkg}
			lv, okLet := x.trySafeEval(ev, c)
			if !okLet {
				continue
			}
			lv.T = x.name("llet_"+mangle(c.Label), ev.sortOf(lv), lv.T)
			fr.loopLets[h][c.Label] = lv
		}
	}
	// 1. invariants on entry
	if ls != nil && fr.top {
		env, hash := x.nameEnv(fr, h, nil)
		for i, c := range ls.Invs {
			if !x.tagOK(c.Props) {
				continue // an invariant tagged {P,...} is stated (checked and assumed) only under those properties
			}
			ev := &Eval{x: x, st: st, old: fr.entry, env: env, hash: hash, pkg: fr.fn.Pkg}
			g, okInv := x.invBool(ev, c, li.ord)
			if !okInv {
				continue
			}
			lab := c.Label
			if lab == "" {
				lab = fmt.Sprint(i + 1)
			}
			x.oblige(st, fmt.Sprintf("loop%d.entry", li.ord), lab, g, c.Text, pos)
		}
	}
	// 2. havoc what the loop may write
	keys, freshKeys, all := x.writeSet(fr, li)
	loopPriv := x.loopPriv
	if all {
		// under the external-call policy "preserve-ghosts" unknown calls keep ghost state: only ghosts written by
		// contracts called in the loop are forgotten
		ghosts := map[string]string{}
		if x.extPolicy == "preserve-ghosts" && !x.loopGhostWriter {
			for k := range x.compSort {
				if strings.HasPrefix(k, "ghost:") && !keys[k] && !freshKeys[k] {
					ghosts[k] = x.get(st, k)
				}
			}
		}
		x.havocAll(st)
		for k, v := range ghosts {
			st.h[k] = v
		}
		x.bumpEpoch(st)
	} else {
		a0 := x.get(st, "$alloc")
		var fks []string
		for k := range freshKeys {
			fks = append(fks, k)
		}
		sort.Strings(fks)
		for _, k := range fks {
			pre := x.get(st, k)
			x.havocKey(st, k)
			post := x.get(st, k)
			if strings.HasPrefix(x.compSortOf(k), "(Array Int") {
				x.assume(st, fmt.Sprintf("(forall ((r Int)) (! (=> (< r %s) (= (select %s r) (select %s r))) :pattern ((select %s r))))", a0, post, pre, post))
			} else {
				st.h[k] = pre
			}
		}
		var ks []string
		for k := range keys {
			ks = append(ks, k)
		}
		sort.Strings(ks)
		for _, k := range ks {
			x.havocKey(st, k)
			if !strings.HasPrefix(k, "$") {
				x.bumpEpochOnce(st, li)
			}
		}
	}
	for _, k := range loopPriv {
		x.havocKey(st, k)
	}
	for _, ins := range h.Instrs {
		phi, ok := ins.(*ssa.Phi)
		if !ok {
			break
		}
		fr.vals[phi] = x.freshVal("lv_"+mangle(phi.Comment), phi.Type(), st)
	}
	// the alloc counter only grows
	// 3. assume invariants
	if ls != nil {
		env, hash := x.nameEnv(fr, h, nil)
		for _, c := range ls.Invs {
			if !x.tagOK(c.Props) {
				continue
			}
			ev := &Eval{x: x, st: st, old: fr.entry, env: env, hash: hash, pkg: fr.fn.Pkg}
			if g, okInv := x.invBool(ev, c, li.ord); okInv {
				x.assume(st, g)
			}
		}
	} else if fr.top {
		x.notes = append(x.notes, fmt.Sprintf("loop %d of %s has no invariant (true)", li.ord, fr.fn))
	}
	// vacuity guard: the havocked loop head must be reachable under the assumed invariants and frame axioms
	if fr.top {
		x.obls = append(x.obls, &Obl{Name: fmt.Sprintf("%s#cover[loop%d.head]", x.curFn, li.ord), Func: x.curFn, Kind: "cover", Label: "loop-head", Props: x.curProps, NScript: len(x.script), Goal: "false", Live: st.live, Text: "the loop head is reachable under the invariants", Expect: "sat"})
	}
	// range-index loops: 0 <= #i <= len is implied by construction; give it for free
	for _, ins := range h.Instrs {
		phi, ok := ins.(*ssa.Phi)
		if !ok {
			break
		}
		// a plain counting loop `for i := c; i < n; i++`: i starts at the constant c, the only other value it ever gets is
		// i+1 computed after the guard i < n let the iteration in (so the increment cannot wrap): i >= c at the head
		if phi.Comment != "rangeindex" && len(phi.Edges) == 2 {
			var start *ssa.Const
			counts := false
			for _, e := range phi.Edges {
				switch v := e.(type) {
				case *ssa.Const:
					if b, ok := v.Type().Underlying().(*types.Basic); ok && b.Info()&types.IsInteger != 0 && b.Info()&types.IsUnsigned == 0 {
						start = v
					}
				case *ssa.BinOp:
					if k, ok := v.Y.(*ssa.Const); ok && v.Op == token.ADD && v.X == ssa.Value(phi) && k.Value != nil && k.Value.ExactString() == "1" && li.blocks[v.Block()] {
						counts = true
					}
				}
			}
			guarded := false
			if iff, ok := h.Instrs[len(h.Instrs)-1].(*ssa.If); ok {
				if cmp, ok := iff.Cond.(*ssa.BinOp); ok && cmp.Op == token.LSS && cmp.X == ssa.Value(phi) && cmp.Block() == h && len(h.Succs) == 2 && li.blocks[h.Succs[0]] && !li.blocks[h.Succs[1]] {
					guarded = true
				}
			}
			if start != nil && counts && guarded {
				x.assume(st, fmt.Sprintf("(>= %s %s)", fr.vals[phi].T, x.constVal(start).T))
			}
		}
		if phi.Comment == "rangeindex" {
			x.assume(st, fmt.Sprintf("(>= %s (- 1))", fr.vals[phi].T))
			// by construction of a range loop the number of completed iterations never exceeds the length
			for _, ins2 := range h.Instrs {
				if cmp, ok := ins2.(*ssa.BinOp); ok && cmp.Op == token.LSS {
					if inc, ok := cmp.X.(*ssa.BinOp); ok && inc.Op == token.ADD && inc.X == ssa.Value(phi) {
						if lv, ok := fr.vals[cmp.Y]; ok {
							x.assume(st, fmt.Sprintf("(<= (+ %s 1) %s)", fr.vals[phi].T, lv.T))
						} else if c, ok := cmp.Y.(*ssa.Const); ok {
							x.assume(st, fmt.Sprintf("(<= (+ %s 1) %s)", fr.vals[phi].T, x.constVal(c).T))
						}
					}
				}
			}
		}
	}
}

func (x *Engine) bumpEpochOnce(st *State, li *loopInfo) {
	x.bumpEpoch(st)
}

func (x *Engine) backEdge(fr *Frame, from, h *ssa.BasicBlock, st *State) {
	li := fr.loops[h]
	ls := x.loopSpec(fr, li)
	if ls == nil || !fr.top {
		return
	}
	idx := -1
	for i, p := range h.Preds {
		if p == from {
			idx = i
		}
	}
	ov := map[ssa.Value]Val{}
	for _, ins := range h.Instrs {
		phi, ok := ins.(*ssa.Phi)
		if !ok {
			break
		}
		ov[phi] = x.val(fr, phi.Edges[idx])
	}
	env, hash := x.nameEnv(fr, h, ov)
	pos := posOf(x.prog, from.Instrs[len(from.Instrs)-1].Pos())
	for i, c := range ls.Invs {
		if !x.tagOK(c.Props) {
			continue
		}
		ev := &Eval{x: x, st: st, old: fr.entry, env: env, hash: hash, pkg: fr.fn.Pkg}
		g, okInv := x.invBool(ev, c, li.ord)
		if !okInv {
			continue
		}
		lab := c.Label
		if lab == "" {
			lab = fmt.Sprint(i + 1)
		}
		x.oblige(st, fmt.Sprintf("loop%d.preserve", li.ord), lab, g, c.Text, pos)
	}
}

// invBool evaluates a loop invariant. An invariant that names a local variable the current code no longer has (the
// function was edited: a rename, a restructured loop) cannot be stated: it is skipped, the function is marked degraded
// (whatever then fails to prove is reported as undecided, not as a violation), and the reason is kept in the evidence.
func (x *Engine) invBool(ev *Eval, c *Clause, ord int) (res string, ok bool) {
	defer func() {
		if r := recover(); r != nil {
			if ee, isEE := r.(evalErr); isEE && softName(ee.msg) {
				x.degrade(fmt.Sprintf("invariant [%s] of loop %d in %s is skipped: %s (the contract names a local variable the current code does not have)", c.Label, ord, x.curFn, ee.msg))
				res, ok = "true", false
				return
			}
			panic(r)
		}
	}()
	return x.safeEvalBool2(ev, c), true
}

func (x *Engine) safeEvalBool2(ev *Eval, c *Clause) (res string) {
	defer func() {
		if r := recover(); r != nil {
			if ee, ok := r.(evalErr); ok && !softName(ee.msg) {
				panic(fmt.Sprintf("%s:%d: contract error: %s\n    in: %s", c.File, c.Line, ee.msg, c.Text))
			}
			panic(r)
		}
	}()
	return ev.evalBool(c.Expr)
}

// softName: the clause names something the current code does not have (a local variable or a struct field that an edit
// renamed or removed, the iteration count #i of a loop that is no longer a range loop). Such a clause cannot be stated about this
// code: it is skipped, the function is marked degraded (failures are then reported as undecided, not as violations).
func softName(msg string) bool {
	return strings.Contains(msg, "unknown name") || strings.Contains(msg, "is not defined here") || strings.HasPrefix(msg, "no field ")
}

func (x *Engine) safeEvalBool(ev *Eval, c *Clause) (res string) {
	defer func() {
		if r := recover(); r != nil {
			if ee, ok := r.(evalErr); ok {
				if softName(ee.msg) && x.curFn != "" {
					x.degrade(fmt.Sprintf("clause [%s] of %s cannot be stated about the current code: %s", c.Label, x.curFn, ee.msg))
					b := x.fresh("unstated")
					x.decl(b, "Bool")
					res = b
					return
				}
				panic(fmt.Sprintf("%s:%d: contract error: %s\n    in: %s", c.File, c.Line, ee.msg, c.Text))
			}
			panic(r)
		}
	}()
	return ev.evalBool(c.Expr)
}

// trySafeEval: like safeEval, but a clause that names something the current code does not have yields ok=false
func (x *Engine) trySafeEval(ev *Eval, c *Clause) (res Val, ok bool) {
	defer func() {
		if r := recover(); r != nil {
			if ee, isEE := r.(evalErr); isEE && softName(ee.msg) {
				x.degrade(fmt.Sprintf("clause [%s] of %s cannot be stated about the current code: %s", c.Label, x.curFn, ee.msg))
				ok = false
				return
			}
			if ee, isEE := r.(evalErr); isEE {
				panic(fmt.Sprintf("%s:%d: contract error: %s\n    in: %s", c.File, c.Line, ee.msg, c.Text))
			}
			panic(r)
		}
	}()
	return ev.eval(c.Expr), true
}

// writeSet: state components a loop may write (conservative, syntactic).
// freshIn: v denotes an object allocated by an instruction for which inScope holds (i.e. inside the loop being
// summarised, or anywhere in a callee invoked from it). Objects allocated before the loop are NOT fresh for it.
var freshScope func(ssa.Instruction) bool

func isFreshBase(v ssa.Value) bool {
	switch a := v.(type) {
	case *ssa.Alloc, *ssa.MakeSlice, *ssa.MakeMap, *ssa.MakeClosure:
		if freshScope != nil {
			return freshScope(a.(ssa.Instruction))
		}
		return true
	case *ssa.FieldAddr:
		return isFreshBase(a.X)
	case *ssa.IndexAddr:
		return isFreshBase(a.X)
	case *ssa.Slice:
		return isFreshBase(a.X)
	}
	return false
}

func (x *Engine) writeSet(fr *Frame, li *loopInfo) (map[string]bool, map[string]bool, bool) {
	keys := map[string]bool{}
	arb := map[string]bool{}
	freshOnly := map[string]bool{}
	all := false
	var ins ssa.Instruction
	x.loopGhostWriter = false
	ghostWriter := func(fs *FuncSpec) {
		if fs == nil {
			return
		}
		for _, m := range fs.Modifies {
			if m.Expr.Op == "ident" {
				if _, ok := x.db.Ghosts[m.Expr.Name]; ok {
					x.loopGhostWriter = true
				}
			}
		}
		if !fs.HasMod {
			x.loopGhostWriter = true
		}
	}
	_ = ghostWriter
	setAll := func(i ssa.Instruction, n int) {
		all = true
		if ci, ok := i.(ssa.CallInstruction); ok {
			cc := ci.Common()
			if cc.IsInvoke() {
				ghostWriter(x.db.Funcs[x.ifaceKey(cc.Value.Type(), cc.Method)])
			} else if c := cc.StaticCallee(); c != nil {
				ghostWriter(x.db.Funcs[specKeyOf(c)])
			} else {
				ghostWriter(x.callbackSpec(fr, cc))
			}
		}
		if i != nil {
			x.notes = append(x.notes, fmt.Sprintf("loop frame unknown (#%d): %s in %s", n, i.String(), i.Parent()))
		}
	}
	_ = ins
	seen := map[*ssa.Function]bool{}
	var scanFn func(fn *ssa.Function, depth int)
	var scanInstr func(ins ssa.Instruction, depth int)
	storeKeys := func(addr ssa.Value) {
		if isFreshBase(addr) {
			keys = freshOnly
			defer func() { keys = arb }()
		}
		switch a := addr.(type) {
		case *ssa.FieldAddr:
			st, _ := structOf(a.X.Type().Underlying().(*types.Pointer).Elem())
			f := st.Field(a.Field)
			owner := a.X.Type().Underlying().(*types.Pointer).Elem()
			if _, inl := structOf(f.Type()); inl {
				x.structKeys(f.Type(), keys)
			} else {
				keys[x.fieldKey(owner, f)] = true
			}
			return
		case *ssa.IndexAddr:
			switch u := a.X.Type().Underlying().(type) {
			case *types.Slice:
				if _, ok := structOf(u.Elem()); ok {
					x.structKeys(u.Elem(), keys)
				} else {
					keys[x.elemKey(u.Elem())] = true
				}
			case *types.Pointer:
				arr := u.Elem().Underlying().(*types.Array)
				if fa, ok := a.X.(*ssa.FieldAddr); ok {
					if _, isS := structOf(arr.Elem()); !isS {
						owner := fa.X.Type().Underlying().(*types.Pointer).Elem()
						stt, _ := structOf(owner)
						keys[x.fieldKey(owner, stt.Field(fa.Field))] = true
						return
					}
				}
				if _, ok := structOf(arr.Elem()); ok {
					x.structKeys(arr.Elem(), keys)
				} else {
					keys[x.elemKey(arr.Elem())] = true
				}
			}
			return
		case *ssa.Global:
			t := a.Type().(*types.Pointer).Elem()
			if _, ok := structOf(t); ok {
				x.structKeys(t, keys)
			} else {
				keys[x.globalKey(a)] = true
			}
			return
		}
		pt, ok := addr.Type().Underlying().(*types.Pointer)
		if !ok {
			setAll(ins, 1)
			return
		}
		if _, ok := structOf(pt.Elem()); ok && !isOpaqueStruct(pt.Elem()) {
			x.structKeys(pt.Elem(), keys)
		} else {
			keys[x.memKey(pt.Elem())] = true
		}
	}
	scanInstr = func(ins0 ssa.Instruction, depth int) {
		ins = ins0
		switch i := ins.(type) {
		case *ssa.Store:
			storeKeys(i.Addr)
		case *ssa.Alloc, *ssa.MakeSlice, *ssa.MakeClosure:
			arb["$alloc"] = true
			keys = freshOnly
			defer func() { keys = arb }()
			if a, ok := i.(*ssa.Alloc); ok {
				// zero-initialisation writes the object's components
				t := a.Type().(*types.Pointer).Elem()
				if _, ok := structOf(t); ok && !isOpaqueStruct(t) {
					x.structKeys(t, keys)
				} else if arr, ok := t.Underlying().(*types.Array); ok {
					keys[x.elemKey(arr.Elem())] = true
				} else {
					keys[x.memKey(t)] = true
				}
			}
			if m, ok := i.(*ssa.MakeSlice); ok {
				el := m.Type().Underlying().(*types.Slice).Elem()
				if _, ok := structOf(el); ok {
					x.structKeys(el, keys)
				} else {
					keys[x.elemKey(el)] = true
				}
			}
		case *ssa.MakeMap:
			arb["$alloc"] = true
			keys = freshOnly
			defer func() { keys = arb }()
			d, v := x.mapKeys(i.Type().Underlying().(*types.Map))
			keys[d], keys[v], keys["MapLen"] = true, true, true
		case *ssa.Next:
			if r, ok := i.Iter.(*ssa.Range); ok && !i.IsString && i.Parent() == fr.fn {
				arb[x.iterKey(fr, r)] = true
			}
		case *ssa.MapUpdate:
			if isFreshBase(i.Map) {
				keys = freshOnly
				defer func() { keys = arb }()
			}
			d, v := x.mapKeys(i.Map.Type().Underlying().(*types.Map))
			keys[d], keys[v], keys["MapLen"] = true, true, true
		case *ssa.Defer:
			if i.Parent() == fr.fn {
				setAll(ins, 2)
				return
			}
			scanInstr(deferAsCall{i}, depth)
			return
		case *ssa.Send:
			// no effect on this thread's state (see step.go)
		case *ssa.Go, *ssa.Select:
			setAll(ins, 3)
		case ssa.CallInstruction:
			cc := i.Common()
			if cc.IsInvoke() {
				key := x.ifaceKey(cc.Value.Type(), cc.Method)
				if strings.HasPrefix(key, repoPfx+"exporter/metric.") || strings.HasPrefix(key, "reflect.") || (cc.Method.Name() == "Error" && cc.Method.Pkg() == nil) {
					return
				}
				if fs := x.db.Funcs[key]; fs != nil {
					if fs.Pure || (fs.HasMod && len(fs.Modifies) == 0) {
						return
					}
					if x.specModKeys(fs, keys) {
						return
					}
				}
				setAll(ins, 4)
				return
			}
			if b, ok := cc.Value.(*ssa.Builtin); ok {
				switch b.Name() {
				case "append":
					keys["$alloc"] = true
					el := cc.Args[0].Type().Underlying().(*types.Slice).Elem()
					keys[x.elemKey(el)] = true
				case "delete":
					d, v := x.mapKeys(cc.Args[0].Type().Underlying().(*types.Map))
					keys[d], keys[v], keys["MapLen"] = true, true, true
				case "copy":
					el := cc.Args[0].Type().Underlying().(*types.Slice).Elem()
					keys[x.elemKey(el)] = true
				}
				return
			}
			callee := cc.StaticCallee()
			if callee == nil {
				if mc, ok := cc.Value.(*ssa.MakeClosure); ok {
					callee = mc.Fn.(*ssa.Function)
				}
			}
			if callee == nil {
				if n, ok := cc.Value.Type().(*types.Named); ok && n.Obj().Pkg() != nil {
					if fs := x.db.Funcs[n.Obj().Pkg().Path()+"."+n.Obj().Name()+".call"]; fs != nil && (fs.Pure || x.specModKeys(fs, keys)) {
						return
					}
				}
				setAll(ins, 5)
				return
			}
			name := callee.String()
			if name == "(*sync.Once).Do" {
				x.regComp("Once:done", "(Array Int Bool)")
				arb["Once:done"] = true
				if mc, ok := cc.Args[1].(*ssa.MakeClosure); ok {
					scanFn(mc.Fn.(*ssa.Function), depth+1)
				} else {
					setAll(ins, 6)
				}
				return
			}
			if eff, ok := intrinsicEffect(name); ok {
				switch eff {
				case "none":
				case "arg0":
					storeKeys(cc.Args[0])
				case "atomicvalue":
					x.regComp("AtomicValue", "(Array Int Iface)")
					if isFreshBase(cc.Args[0]) {
						freshOnly["AtomicValue"] = true
					} else {
						arb["AtomicValue"] = true
					}
				case "lock":
					x.regComp("Lock:w", "(Array Int Int)")
					x.regComp("Lock:r", "(Array Int Int)")
					arb["Lock:w"], arb["Lock:r"] = true, true
				case "alloc":
					keys["$alloc"] = true
				case "clock":
					keys["ghost:clock_ms"], keys["ghost:clock_ns"] = true, true
					x.regComp("ghost:clock_ms", "Int")
					x.regComp("ghost:clock_ns", "Int")
				case "sleep":
					keys["ghost:slept_ns"] = true
					x.regComp("ghost:slept_ns", "Int")
				default:
					setAll(ins, 7)
				}
				return
			}
			if fs := x.db.Funcs[specKeyOf(callee)]; fs != nil && !(fr.top && callee == fr.fn) {
				if fs.Pure || (fs.HasMod && len(fs.Modifies) == 0) {
					keys["$alloc"] = true
					return
				}
				if x.specModKeys(fs, keys) {
					keys["$alloc"] = true
					return
				}
				if fs.HasMod {
					setAll(ins, 8)
					return
				}
			}
			if callee.Blocks == nil || depth > x.maxDepth {
				setAll(ins, 9)
				return
			}
			scanFn(callee, depth+1)
		}
	}
	scanFn = func(fn *ssa.Function, depth int) {
		if seen[fn] {
			return
		}
		seen[fn] = true
		for _, b := range fn.Blocks {
			for _, ins := range b.Instrs {
				scanInstr(ins, depth)
			}
		}
		for _, an := range fn.AnonFuncs {
			if x.closureOnlyHandedToContracts(fn, an) {
				continue // e.g. the function handed to time.AfterFunc: this thread never runs it
			}
			scanFn(an, depth+1)
		}
	}
	keys = arb
	freshScope = func(i ssa.Instruction) bool {
		// allocations of the loop's own function count only when they happen inside the loop
		return i.Parent() != fr.fn || li.blocks[i.Block()]
	}
	defer func() { freshScope = nil }()
	for _, b := range fr.fn.Blocks {
		if !li.blocks[b] {
			continue
		}
		for _, ins := range b.Instrs {
			scanInstr(ins, fr.depth)
		}
	}
	for k := range arb {
		delete(freshOnly, k)
	}
	// private cells: forgotten at the loop head when the loop stores to one, or runs a function literal (which may)
	x.loopPriv = nil
	touched := false
	for _, b := range fr.fn.Blocks {
		if !li.blocks[b] {
			continue
		}
		for _, ins := range b.Instrs {
			switch u := ins.(type) {
			case *ssa.Store:
				switch u.Addr.(type) {
				case *ssa.Alloc, *ssa.FreeVar:
					touched = true
				}
			case ssa.CallInstruction:
				if _, ok := u.Common().Value.(*ssa.MakeClosure); ok {
					touched = true
				}
				if f, ok := u.Common().Value.(*ssa.Function); ok && f.Parent() != nil {
					touched = true
				}
			}
		}
	}
	if touched {
		for k := range x.privAlloc {
			x.loopPriv = append(x.loopPriv, k)
		}
		sort.Strings(x.loopPriv)
	}
	for k := range arb {
		if _, ok := x.compSort[wrKey(k)]; ok && !strings.HasPrefix(k, "$") {
			arb[wrKey(k)] = true // written(loc) is summarised together with the component it watches
		}
	}
	return arb, freshOnly, all
}

func (x *Engine) structKeys(t types.Type, keys map[string]bool) {
	if isOpaqueStruct(t) {
		keys[x.memKey(t)] = true
		return
	}
	st, _ := structOf(t)
	for i := 0; i < st.NumFields(); i++ {
		f := st.Field(i)
		if _, ok := structOf(f.Type()); ok {
			x.structKeys(f.Type(), keys)
		} else {
			keys[x.fieldKey(t, f)] = true
		}
	}
}

// specModKeys adds the components named by a contract's modifies clauses; false if they cannot be determined.
func (x *Engine) specModKeys(fs *FuncSpec, keys map[string]bool) bool {
	if !fs.HasMod || fs.ModHeap {
		return false
	}
	for _, m := range fs.Modifies {
		k, ok := x.modKeyStatic(fs, m)
		if !ok {
			return false
		}
		for _, kk := range k {
			keys[kk] = true
		}
	}
	return true
}

func specKeyOf(fn *ssa.Function) string {
	if fn.Signature.Recv() != nil {
		rt := fn.Signature.Recv().Type()
		if p, ok := rt.(*types.Pointer); ok {
			if n, ok := p.Elem().(*types.Named); ok && n.Obj().Pkg() != nil {
				return fmt.Sprintf("(*%s.%s).%s", n.Obj().Pkg().Path(), n.Obj().Name(), fn.Name())
			}
		}
		if n, ok := rt.(*types.Named); ok && n.Obj().Pkg() != nil {
			return fmt.Sprintf("(%s.%s).%s", n.Obj().Pkg().Path(), n.Obj().Name(), fn.Name())
		}
	}
	if fn.Pkg != nil {
		return fn.Pkg.Pkg.Path() + "." + fn.Name()
	}
	return fn.String()
}

// runUnrolled executes paths one by one (no merging, loops unrolled): used for small callees whose loops run over
// slices with statically known contents (functional options).
func (x *Engine) runUnrolled(fr *Frame, b, pred *ssa.BasicBlock, st *State, budget *int) {
	*budget--
	if *budget < 0 {
		x.degrade("unrolling budget exhausted in " + fr.fn.String())
		return
	}
	if pred != nil {
		idx := -1
		for i, p := range b.Preds {
			if p == pred {
				idx = i
			}
		}
		var phis []*ssa.Phi
		var vs []Val
		for _, ins := range b.Instrs {
			phi, ok := ins.(*ssa.Phi)
			if !ok {
				break
			}
			phis = append(phis, phi)
			v := x.val(fr, phi.Edges[idx])
			v.Typ = phi.Type()
			vs = append(vs, v)
		}
		for i, phi := range phis {
			fr.vals[phi] = vs[i]
		}
	}
	for _, ins := range b.Instrs {
		switch i := ins.(type) {
		case *ssa.Phi:
			continue
		case *ssa.Jump:
			x.runUnrolled(fr, b.Succs[0], b, st, budget)
			return
		case *ssa.If:
			c := x.val(fr, i.Cond)
			switch c.T {
			case "true":
				x.runUnrolled(fr, b.Succs[0], b, st, budget)
			case "false":
				x.runUnrolled(fr, b.Succs[1], b, st, budget)
			default:
				save := make(map[ssa.Value]Val, len(fr.vals))
				for k, v := range fr.vals {
					save[k] = v
				}
				st2 := st.clone()
				st.live = x.name("live", "Bool", andTerms(st.live, c.T))
				x.runUnrolled(fr, b.Succs[0], b, st, budget)
				fr.vals = save
				st2.live = x.name("live", "Bool", andTerms(st2.live, notTerm(c.T)))
				x.runUnrolled(fr, b.Succs[1], b, st2, budget)
			}
			return
		default:
			if x.step(fr, st, ins, nil) {
				return
			}
		}
	}
}

// deferAsCall lets the write-set analysis treat a deferred call in a callee like an ordinary call.
type deferAsCall struct{ *ssa.Defer }

// tagOK: a clause tagged {P, ...} is stated only under those properties; the pseudo tags `seq` / `conc` select the
// sequential resp. thread-modular pass of a function that is verified in both modes.
func (x *Engine) tagOK(props []string) bool {
	if len(props) == 0 {
		return true
	}
	for _, p := range props {
		interf := x.conc || x.guardInterferenceActive()
		if p == x.curProp || (p == "seq" && !interf) || (p == "conc" && interf) {
			return true
		}
	}
	return false
}

// guardInterferenceActive: the current property is one under which `guarded` declarations make other threads'
// writes visible at lock acquisitions (see guardInterference).
func (x *Engine) guardInterferenceActive() bool {
	for _, gd := range x.guards {
		if hasProp(gd.props, x.curProp) {
			return true
		}
	}
	return false
}

// closureOnlyHandedToContracts: every closure value made from `an` inside fn is used only as an argument of calls whose
// callee has a contract (extern or not) — the contract, not the closure's body, says what such a call changes.
func (x *Engine) closureOnlyHandedToContracts(fn, an *ssa.Function) bool {
	found := false
	for _, b := range fn.Blocks {
		for _, ins := range b.Instrs {
			mc, ok := ins.(*ssa.MakeClosure)
			if !ok || mc.Fn != an {
				continue
			}
			found = true
			refs := mc.Referrers()
			if refs == nil {
				return false
			}
			for _, r := range *refs {
				if _, isDbg := r.(*ssa.DebugRef); isDbg {
					continue
				}
				call, isCall := r.(ssa.CallInstruction)
				if !isCall {
					return false
				}
				cc := call.Common()
				if cc.Value == ssa.Value(mc) {
					return false // the closure itself is called
				}
				callee := cc.StaticCallee()
				if callee == nil {
					return false
				}
				if fs := x.db.Funcs[specKeyOf(callee)]; fs == nil || !fs.HasMod {
					return false
				}
			}
		}
	}
	return found
}
