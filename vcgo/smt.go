package main

import (
	"bytes"
	"context"
	"fmt"
	"os"
	"os/exec"
	"path/filepath"
	"strings"
	"sync"
	"time"
)

const prelude = `(set-option :produce-models true)
(set-logic ALL)
(declare-sort Str 0)
(declare-fun strlen (Str) Int)
(declare-datatypes ((Slice 0)) (((mk_slice (s_base Int) (s_len Int) (s_cap Int)))))
(declare-datatypes ((Iface 0)) (((mk_iface (i_tag Int) (i_val Int)))))
(define-fun wrap_u8 ((x Int)) Int (ite (and (<= 0 x) (< x 256)) x (mod x 256)))
(define-fun wrap_u16 ((x Int)) Int (ite (and (<= 0 x) (< x 65536)) x (mod x 65536)))
(define-fun wrap_u32 ((x Int)) Int (ite (and (<= 0 x) (< x 4294967296)) x (mod x 4294967296)))
(define-fun wrap_u64 ((x Int)) Int (ite (and (<= 0 x) (< x 18446744073709551616)) x (mod x 18446744073709551616)))
(define-fun wrap_i8 ((x Int)) Int (ite (and (<= (- 128) x) (< x 128)) x (- (mod (+ x 128) 256) 128)))
(define-fun wrap_i16 ((x Int)) Int (ite (and (<= (- 32768) x) (< x 32768)) x (- (mod (+ x 32768) 65536) 32768)))
(define-fun wrap_i32 ((x Int)) Int (ite (and (<= (- 2147483648) x) (< x 2147483648)) x (- (mod (+ x 2147483648) 4294967296) 2147483648)))
(define-fun wrap_i64 ((x Int)) Int (ite (and (<= (- 9223372036854775808) x) (< x 9223372036854775808)) x (- (mod (+ x 9223372036854775808) 18446744073709551616) 9223372036854775808)))
(define-fun tdiv ((a Int) (b Int)) Int (ite (>= a 0) (ite (> b 0) (div a b) (- (div a (- b)))) (ite (> b 0) (- (div (- a) b)) (div (- a) (- b)))))
(define-fun tmod ((a Int) (b Int)) Int (- a (* b (tdiv a b))))
(declare-fun faddr (Int) Int)
(declare-fun gaddr (Int) Int)
`

type SolverSpec struct {
	Name string
	Args func(file string, timeoutS int, seed int) []string
}

var solvers = []SolverSpec{
	{"z3-new", func(f string, t, seed int) []string {
		return []string{"z3-new", fmt.Sprintf("-T:%d", t), fmt.Sprintf("smt.random_seed=%d", seed), fmt.Sprintf("sat.random_seed=%d", seed), f}
	}},
	{"z3", func(f string, t, seed int) []string {
		return []string{"/usr/bin/z3", fmt.Sprintf("-T:%d", t), fmt.Sprintf("smt.random_seed=%d", seed), f}
	}},
	{"cvc5", func(f string, t, seed int) []string {
		return []string{"cvc5", fmt.Sprintf("--tlimit=%d", t*1000), fmt.Sprintf("--seed=%d", seed), f}
	}},
}

// oblText renders the SMT-LIB text of one obligation.
func oblText(rep *FuncReport, o *Obl, withModel bool) string {
	var b strings.Builder
	b.WriteString(prelude)
	for _, d := range rep.Decls {
		b.WriteString(d)
		b.WriteByte('\n')
	}
	n := o.NScript
	if n > len(rep.Script) {
		n = len(rep.Script)
	}
	for _, s := range rep.Script[:n] {
		b.WriteString(s)
		b.WriteByte('\n')
	}
	fmt.Fprintf(&b, "; obligation %s\n; %s\n", o.Name, o.Text)
	fmt.Fprintf(&b, "(assert %s)\n(assert (not %s))\n(check-sat)\n", o.Live, o.Goal)
	if withModel {
		b.WriteString("(get-model)\n")
	}
	return b.String()
}

type solveResult struct {
	status string // unsat sat unknown timeout error
	solver string
	ms     int64
	out    string
}

func runOne(ctx context.Context, sp SolverSpec, file string, timeoutS, seed int) solveResult {
	args := sp.Args(file, timeoutS, seed)
	t0 := time.Now()
	cmd := exec.CommandContext(ctx, args[0], args[1:]...)
	var out bytes.Buffer
	cmd.Stdout = &out
	cmd.Stderr = &out
	_ = cmd.Run()
	ms := time.Since(t0).Milliseconds()
	s := out.String()
	first := ""
	for _, ln := range strings.Split(s, "\n") {
		ln = strings.TrimSpace(ln)
		if ln == "" || strings.HasPrefix(ln, "WARNING") || strings.HasPrefix(ln, ";") {
			continue
		}
		first = ln
		break
	}
	st := "error"
	switch {
	case first == "unsat", first == "sat", first == "unknown":
		st = first
	case strings.Contains(first, "timeout") || strings.Contains(s, "interrupted by timeout") || strings.Contains(s, "cvc5 interrupted"):
		st = "timeout"
	case ctx.Err() != nil:
		st = "cancelled"
	}
	return solveResult{st, sp.Name, ms, s}
}

// liteText weakens a query: quantified assumptions and the bodies of recursive functions are dropped.
// Removing assumptions is sound for refutation: unsat of the lite query implies unsat of the full one.
func liteText(txt string) string {
	var b strings.Builder
	lines := strings.Split(txt, "\n")
	for i, ln := range lines {
		last := i >= len(lines)-5
		if strings.HasPrefix(ln, "(assert") && strings.Contains(ln, "(forall ") && !last && !strings.HasPrefix(ln, "(assert (not ") {
			continue
		}
		if strings.HasPrefix(ln, "(define-fun-rec ") {
			// (define-fun-rec name ((a S) (b T)) R body) -> (declare-fun name (S T) R)
			if d, ok := recToDecl(ln); ok {
				b.WriteString(d)
				b.WriteByte('\n')
				continue
			}
		}
		b.WriteString(ln)
		b.WriteByte('\n')
	}
	return b.String()
}

func recToDecl(ln string) (string, bool) {
	sx, _, err := parseSexp(ln)
	if err != nil || len(sx.list) < 5 {
		return "", false
	}
	var sorts []string
	for _, p := range sx.list[2].list {
		if len(p.list) != 2 {
			return "", false
		}
		sorts = append(sorts, sexpString(p.list[1]))
	}
	return fmt.Sprintf("(declare-fun %s (%s) %s)", sx.list[1].atom, strings.Join(sorts, " "), sexpString(sx.list[3])), true
}

func sexpString(s *sexp) string {
	if s.list == nil {
		return s.atom
	}
	var ps []string
	for _, c := range s.list {
		ps = append(ps, sexpString(c))
	}
	return "(" + strings.Join(ps, " ") + ")"
}

// race runs the portfolio; the first definitive answer wins. A ".lite" companion file (weakened query) is raced
// too when present; only its unsat answers count.
func race(file string, timeoutS, seed int, which []SolverSpec) (solveResult, []solveResult) {
	ctx, cancel := context.WithCancel(context.Background())
	defer cancel()
	lite := strings.TrimSuffix(file, ".smt2") + ".lite.smt2"
	_, liteErr := os.Stat(lite)
	n := len(which)
	ch := make(chan solveResult, len(which)+2)
	for _, sp := range which {
		go func(sp SolverSpec) { ch <- runOne(ctx, sp, file, timeoutS, seed) }(sp)
	}
	if liteErr == nil {
		for _, sp := range which {
			if sp.Name == "z3" {
				continue
			}
			n++
			go func(sp SolverSpec) {
				r := runOne(ctx, sp, lite, timeoutS, seed)
				r.solver += "(lite)"
				if r.status == "sat" {
					r.status = "lite-sat" // a model of the weakened query: only a candidate, to be replayed
				} else if r.status != "unsat" {
					r.status = "unknown"
				}
				ch <- r
			}(sp)
		}
	}
	var all []solveResult
	var best solveResult
	best.status = "unknown"
	for i := 0; i < n; i++ {
		r := <-ch
		all = append(all, r)
		if r.status == "unsat" || r.status == "sat" {
			cancel()
			return r, all
		}
		if (best.out == "" || r.status == "unknown") && !strings.HasSuffix(r.solver, "(lite)") {
			best = r
		}
	}
	return best, all
}

type solveCfg struct {
	dir      string
	timeoutS int
	seed     int
	workers  int
	each     bool // thorough: run every solver separately and compare
}

// discharge runs all obligations of all reports.
func discharge(reps []*FuncReport, cfg solveCfg) {
	type job struct {
		rep *FuncReport
		o   *Obl
	}
	var jobs []job
	for _, r := range reps {
		for _, o := range r.Obls {
			jobs = append(jobs, job{r, o})
		}
	}
	ch := make(chan job)
	var wg sync.WaitGroup
	for w := 0; w < cfg.workers; w++ {
		wg.Add(1)
		go func() {
			defer wg.Done()
			for j := range ch {
				txt := oblText(j.rep, j.o, true)
				j.o.SmtSize = len(txt)
				f := filepath.Join(cfg.dir, mangle(j.o.Name)+".smt2")
				if len(f) > 200 {
					f = f[:200] + ".smt2"
				}
				f = uniqueFile(f)
				if err := os.WriteFile(f, []byte(txt), 0o644); err != nil {
					j.o.Status = "error"
					continue
				}
				if j.o.Expect != "sat" {
					if lt := liteText(txt); lt != txt+"\n" && len(lt) < len(txt) {
						os.WriteFile(strings.TrimSuffix(f, ".smt2")+".lite.smt2", []byte(lt), 0o644)
					}
				}
				if cfg.each {
					var sts []string
					var win solveResult
					for _, sp := range solvers {
						r := runOne(context.Background(), sp, f, cfg.timeoutS, cfg.seed)
						sts = append(sts, sp.Name+"="+r.status)
						if (r.status == "sat" || r.status == "unsat") && win.solver == "" {
							win = r
						}
						if (r.status == "sat" || r.status == "unsat") && r.status != win.status {
							win.status = "disagree"
						}
					}
					if win.solver == "" {
						win.status = "unknown"
					}
					j.o.Status, j.o.Solver, j.o.TimeMs, j.o.Model = win.status, strings.Join(sts, ","), win.ms, win.out
				} else {
					to := cfg.timeoutS
					if j.o.Expect == "sat" && to > 2 {
						to = 2 // cover queries are auxiliary: inconclusive after 2 s is not a failure
					}
					r, all := race(f, to, cfg.seed, solvers)
					j.o.Status, j.o.Solver, j.o.TimeMs, j.o.Model = r.status, r.solver, r.ms, r.out
					for _, a := range all {
						if a.status == "lite-sat" {
							j.o.LiteSat = true
						}
					}
				}
				j.o.File = f
			}
		}()
	}
	for _, j := range jobs {
		ch <- j
	}
	close(ch)
	wg.Wait()
}

var ufMu sync.Mutex
var ufSeen = map[string]int{}

func uniqueFile(f string) string {
	ufMu.Lock()
	defer ufMu.Unlock()
	ufSeen[f]++
	if ufSeen[f] == 1 {
		return f
	}
	return fmt.Sprintf("%s.%d.smt2", strings.TrimSuffix(f, ".smt2"), ufSeen[f])
}
