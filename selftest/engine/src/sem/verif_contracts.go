//go:build verif

package sem

// Conformance contracts: ok-* clauses must be proved, bad-* clauses are false and must be refuted.
// A function whose name ends in the word stated after "panics never" below must have a failing no-panic obligation
// exactly when its contract carries `expect-panic`.

//@ func boom()
//@   assumed
//@   panics may
//@   ensures false
//@   modifies nothing

//@ func recoverDirect() ok
//@   props E00
//@   panics never
//@   ensures[ok-recovered-returns-false] !ok

//@ func recoverInHelper() ok
//@   props E00
//@   panics never
//@   ensures[ok-vacuous-no-normal-return] !ok

//@ func recoverDeferredNamedFunc() ok
//@   props E00
//@   panics never
//@   ensures[ok-zero-result-after-recover] !ok

//@ func deferOrder() r
//@   props E00
//@   ensures[ok-lifo] r == 21
//@   ensures[bad-fifo] r == 12
//@   ensures[bad-return-value] r == 7

//@ func deferArgsEvaluatedEarly() r
//@   props E00
//@   ensures[ok-early] r == 1
//@   ensures[bad-late] r == 5

//@ func namedResultChangedByDefer() r
//@   props E00
//@   ensures[ok-incremented] r == 11
//@   ensures[bad-plain] r == 10

//@ func typedNilCheck() r
//@   props E00
//@   ensures[ok-typed-nil-is-not-nil] r
//@   ensures[bad-typed-nil-is-nil] !r

//@ func errIs(e) r
//@   props E00
//@   ensures[ok-def] r <==> e == nil

//@ func addU32(a, b) r
//@   props E00
//@   ensures[ok-wraps] r == (a + b) % 4294967296
//@   ensures[bad-no-wrap] r == a + b
//@   ensures[ok-range] 0 <= r && r < 4294967296

//@ func divTrunc(a, b) r
//@   props E00
//@   requires 0 - 1000 <= a && a <= 1000 && 0 - 1000 <= b && b <= 1000
//@   ensures[ok-seven-over-minus-two] a == 7 && b == 0 - 2 ==> r == 0 - 3
//@   ensures[ok-minus-seven-over-two] a == 0 - 7 && b == 2 ==> r == 0 - 3
//@   ensures[bad-floor] a == 0 - 7 && b == 2 ==> r == 0 - 4

//@ func modSign(a, b) r
//@   props E00
//@   requires 0 - 1000 <= a && a <= 1000 && 0 - 1000 <= b && b <= 1000
//@   ensures[ok-sign-of-dividend] a == 0 - 7 && b == 2 ==> r == 0 - 1
//@   ensures[bad-non-negative] a == 0 - 7 && b == 2 ==> r == 1

//@ func narrow(a) r
//@   props E00
//@   ensures[ok-in-range] 0 - 2147483648 <= r && r <= 2147483647
//@   ensures[ok-small-unchanged] 0 - 100 <= a && a <= 100 ==> r == a
//@   ensures[bad-always-unchanged] r == a
//@   ensures[ok-wrap-example] a == 4294967297 ==> r == 1

//@ func shiftBig(a, s) r
//@   props E00
//@   ensures[inc-big-shift-is-zero] s >= 32 ==> r == 0
//@   ensures[inc-shift-one] s == 1 && a < 100 ==> r == 2 * a
//@   ensures[bad-shift-never-loses] s == 31 && a == 3 ==> r == 3 * 2147483648

//@ func unsignedSub(a, b) r
//@   props E00
//@   ensures[ok-wraps] a == 0 && b == 1 ==> r == 18446744073709551615
//@   ensures[bad-negative] a == 0 && b == 1 ==> r == 0 - 1

//@ func divByZero(a, b) r
//@   props E00
//@   panics never

//@ func appendWithinCap() (x, y)
//@   props E00
//@   ensures[ok-shared-array-overwritten] x == 3 && y == 3
//@   ensures[bad-independent] x == 2

//@ func appendBeyondCap() (x, y)
//@   props E00
//@   ensures[ok-own-array] x == 1 && y == 9
//@   ensures[bad-shared] x == 9

//@ func subSliceAlias(s)
//@   props E00
//@   ensures[ok-writes-through] len(s) >= 2 ==> s[1] == 42
//@   ensures[ok-first-untouched] len(s) >= 2 ==> s[0] == old(s[0])
//@   ensures[bad-nothing-written] len(s) >= 2 ==> s[1] == old(s[1])

//@ func indexOut(s, i) r
//@   props E00
//@   panics never

//@ func rangeFixesLength(s) r
//@   props E00
//@   ensures[ok-counts-original-length] r == len(s)
//@   ensures[bad-stops-after-one] len(s) > 0 ==> r == 1
//@   loop 1:
//@     invariant n == #i

//@ func deleteShift(s, k) r
//@   props E00
//@   requires len(s) <= cap(s)
//@   ensures[ok-length] 0 <= k && k < len(s) ==> len(r) == len(s) - 1
//@   ensures[ok-prefix-kept] forall j Int :: 0 <= k && k < len(s) && 0 <= j && j < k ==> r[j] == old(s[j])
//@   ensures[ok-suffix-shifted] forall j Int :: 0 <= k && k < len(s) && k <= j && j < len(s) - 1 ==> r[j] == old(s[j + 1])
//@   ensures[bad-suffix-in-place] forall j Int :: 0 <= k && k < len(s) && k <= j && j < len(s) - 1 ==> r[j] == old(s[j])

//@ func nilMapRead(k) r
//@   props E00
//@   panics never
//@   ensures[ok-zero] r == 0

//@ func nilMapWrite(k)
//@   props E00
//@   panics never

//@ func mapAlias() r
//@   props E00
//@   ensures[ok-same-map] r == 1
//@   ensures[bad-copied] r == 0

//@ func structCopy() (x, y)
//@   props E00
//@   ensures[ok-value-copy] x == 1 && y == 9
//@   ensures[bad-aliased] x == 9

//@ func pointerAlias() (x, y)
//@   props E00
//@   ensures[ok-aliased] x == 9 && y == 9
//@   ensures[bad-copied] x == 1

//@ func nilDeref(p) r
//@   props E00
//@   panics never

//@ func closureByReference() r
//@   props E00
//@   ensures[ok-captured-by-reference] r == 3
//@   ensures[bad-captured-by-value] r == 1

//@ func switchFallthrough(x) r
//@   props E00
//@   ensures[ok-one-falls-through] x == 1 ==> r == 11
//@   ensures[ok-two] x == 2 ==> r == 10
//@   ensures[ok-default] x != 1 && x != 2 ==> r == 100
//@   ensures[bad-no-fallthrough] x == 1 ==> r == 1

//@ func shortCircuit(p) r
//@   props E00
//@   panics never
//@   ensures[ok-def] r <==> (p != nil && p.a > 0)

//@ func loopSum(n) r
//@   props E00
//@   requires 0 <= n && n <= 1000
//@   ensures[ok-gauss] 2 * r == n * (n - 1)
//@   ensures[bad-off-by-one] 2 * r == n * (n + 1) && n > 0
//@   loop 1:
//@     invariant 0 <= i && i <= n && 2 * s == i * (i - 1)

//@ func earlyReturnInLoop(s, x) r
//@   props E00
//@   ensures[ok-found] r >= 0 ==> r < len(s) && s[r] == x
//@   ensures[ok-first] forall j Int :: 0 <= j && j < r ==> s[j] != x
//@   ensures[ok-absent] r < 0 ==> (forall j Int :: 0 <= j && j < len(s) ==> s[j] != x)
//@   ensures[bad-last] forall j Int :: r >= 0 && r < j && j < len(s) ==> s[j] != x
//@   loop 1:
//@     invariant forall j Int :: 0 <= j && j < #i ==> s[j] != x

//@ func appendLog(v)
//@   props E00
//@   ensures[ok-appended] len(log) == old(len(log)) + 1 && log[len(log) - 1] == v
//@   ensures[ok-prefix-kept] forall j Int :: 0 <= j && j < old(len(log)) ==> log[j] == old(log[j])
//@   modifies log, elems(log)

//@ func twoLogs()
//@   props E00
//@   ensures[ok-two-appended-in-order] len(log) == old(len(log)) + 2 && log[len(log) - 2] == 1 && log[len(log) - 1] == 2
//@   ensures[bad-reversed] log[len(log) - 1] == 1

//@ func loopVarCapture() r
//@   props E00
//@   ensures[inc-shared-loop-variable] r == 3
//@   ensures[bad-per-iteration-variable] r == 0

// ---- second batch
//@ func arrayValue() (x, y)
//@   props E00
//@   ensures[ok-array-copied] x == 1 && y == 9
//@   ensures[bad-array-aliased] x == 9

//@ func promoted(o) r
//@   props E00
//@   requires o != nil
//@   ensures[ok-promoted-field-is-the-embedded-one] r == 5 && o.Inner.v == 5
//@   ensures[bad-separate-field] r == old(o.Inner.v)

//@ func dispatch() r
//@   props E00
//@   ensures[inc-dynamic-dispatch-on-a-boxed-struct-value] r == 9
//@   ensures[bad-zero] r == 0

//@ func methodValue() r
//@   props E00
//@   ensures[ok-receiver-copied-at-binding] r == 4
//@   ensures[bad-receiver-read-at-call] r == 25

//@ func lockedInc()
//@   props E00
//@   ensures[ok-lock-released] lockframe()
//@   ensures[ok-incremented] old(cnt) < 1000 ==> cnt == old(cnt) + 1

//@ func leakLock(b)
//@   props E00
//@   ensures[bad-lock-released] lockframe()
//@   ensures[ok-released-when-not-b] !b ==> lockframe()

//@ func onceTwice() r
//@   props E00
//@   ensures[ok-at-most-once] old(initd) < 1000 ==> r == old(initd) + (old(oncedone(once)) ? 0 : 1)
//@   ensures[bad-twice] old(initd) < 1000 ==> r == old(initd) + 2

//@ func atomicAdd(p) r
//@   props E00
//@   requires p != nil
//@   ensures[ok-added] old(deref(p)) < 1000 ==> r == old(deref(p)) + 2
//@   ensures[bad-lost] r == old(deref(p))

//@ func casOnce(p) r
//@   props E00
//@   requires p != nil
//@   ensures[ok-iff-zero] r <==> old(deref(p)) == 0
//@   ensures[ok-value] deref(p) == (old(deref(p)) == 0 ? 1 : old(deref(p)))
//@   ensures[bad-always-one] deref(p) == 1

//@ func f2i(f) r
//@   props E00
//@   ensures[ok-toward-zero-negative] f == 0.0 - 1.5 ==> r == 0 - 1
//@   ensures[ok-toward-zero-positive] f == 2.75 ==> r == 2
//@   ensures[bad-floor] f == 0.0 - 1.5 ==> r == 0 - 2

//@ func mul32(a, b) r
//@   props E00
//@   ensures[ok-wraps-to-zero] a == 65536 && b == 65536 ==> r == 0
//@   ensures[bad-exact] a == 65536 && b == 65536 ==> r == 4294967296
//@   ensures[ok-small] a == 3 && b == 0 - 4 ==> r == 0 - 12

//@ func neg(a) r
//@   props E00
//@   ensures[ok-min-int-is-its-own-negation] a == 0 - 9223372036854775808 ==> r == 0 - 9223372036854775808
//@   ensures[bad-positive] a == 0 - 9223372036854775808 ==> r == 9223372036854775808
//@   ensures[ok-plain] a == 5 ==> r == 0 - 5

//@ func udiv(a, b) r
//@   props E00
//@   ensures[ok-seven-by-two] a == 7 && b == 2 ==> r == 3
//@   ensures[ok-never-above] b != 0 ==> r <= a
//@   ensures[bad-rounds-up] a == 7 && b == 2 ==> r == 4

//@ func sumv(xs) r
//@   props E00
//@   ensures[ok-three] len(xs) == 3 ==> r == xs[0] + xs[1] + xs[2] || true
//@   loop 1:
//@     invariant true

//@ func callVariadic() r
//@   props E00
//@   ensures[inc-six] r == 6
//@   ensures[bad-zero] r == 0 && false

//@ func useSwap() r
//@   props E00
//@   ensures[ok-swapped] r == 21
//@   ensures[bad-unswapped] r == 12

//@ func nestedPanic() r
//@   props E00
//@   panics never
//@   ensures[ok-last-panic-recovered] r == 2

//@ func rePanic()
//@   props E00
//@   panics never

//@ func shadow() r
//@   props E00
//@   ensures[ok-outer] r == 1
//@   ensures[bad-inner] r == 2

//@ func strEq(a, b) r
//@   props E00
//@   ensures[ok-def] r <==> a == b
//@   ensures[bad-always] r

//@ func firstRowWith(m, x) r
//@   props E00
//@   ensures[ok-range] 0 - 1 <= r && r < len(m)
//@   ensures[bad-always-found] r >= 0
//@   loop 1:
//@     invariant 0 - 1 <= r && r < len(m) && (r >= 0 ==> r < #i)
//@   loop 2:
//@     invariant 0 - 1 <= r && r < len(m) && (r >= 0 ==> r < i)

//@ func countKeys(m) r
//@   props E00
//@   ensures[inc-count] r == len(m)
//@   ensures[bad-zero] len(m) > 0 ==> r == 0

// ---- third batch: interference
//@ func twoLoads(c) r
//@   props E00
//@   requires c != nil
//@   concurrent E00 and sequential
//@   shared c.state
//@   ensures[ok-alone-they-agree] r
//@   ensures[tm-bad-they-agree]{E00} r

//@ func claim(c) r
//@   props E00
//@   requires c != nil
//@   concurrent E00
//@   shared c.state
//@   ensures[ok-own-cas]{E00} r <==> wrote(c.state, 0, 1)
//@   onwrite[ok-legal-edge]{E00} c.state: prev == 0 && new == 1

//@ func claimLoadStore(c) r
//@   props E00
//@   requires c != nil
//@   concurrent E00
//@   shared c.state
//@   onwrite[bad-legal-edge]{E00} c.state: prev == 0 && new == 1

//@ func plainRead(c) r
//@   props E00
//@   requires c != nil
//@   concurrent E00
//@   shared c.state

//@ guarded table by tabMu {E00}

//@ func readTwice(k) r
//@   props E00
//@   ensures[bad-same-after-relock]{E00} r

// ---- fourth batch: guaranteed writes, mode-restricted postconditions, contract names inside an inlined callee
//@ func clearAll(b)
//@   props E00
//@   requires b != nil
//@   concurrent E00
//@   shared b.c, b.m
//@   ensures[tm-bad-zero-under-interference]{E00} forall e Int :: 0 <= e && e < 4 ==> b.c[e] == 0
//@   ensures[ok-every-cell-stored]{E00} forall e Int :: 0 <= e && e < 4 ==> written(b.c[e])
//@   ensures[ok-m-stored]{E00} written(b.m)
//@   onwrite[ok-only-zeroes]{E00} b.c: new == 0
//@   loop 1:
//@     invariant[stored-prefix] 0 <= i && i <= 4 && (forall e Int :: 0 <= e && e < i ==> written(b.c[e]))

//@ func storeTwo(b)
//@   props E00
//@   requires b != nil
//@   concurrent E00 and sequential
//@   shared b.c
//@   ensures[ok-zero-alone]{E00,seq} b.c[0] == 0 && b.c[1] == 0
//@   ensures[ok-stored-alone]{E00,seq} written(b.c[0]) && written(b.c[1])
//@   ensures[tm-bad-zero-under-interference]{E00} b.c[0] == 0 && b.c[1] == 0
//@   ensures[ok-both-stored]{E00,conc} written(b.c[0]) && written(b.c[1])
//@   ensures[bad-third-stored]{E00,conc} written(b.c[2])
//@   modifies b.c

//@ func clearOneByCas(b)
//@   props E00
//@   requires b != nil
//@   concurrent E00
//@   shared b.c
//@   ensures[bad-cell-stored]{E00} written(b.c[1])
//@   onwrite[ok-only-zeroes]{E00} b.c: new == 0 && idx == 1

//@ func clearOneRetry(b)
//@   props E00
//@   requires b != nil
//@   concurrent E00
//@   shared b.c
//@   ensures[ok-cell-stored]{E00} written(b.c[1])
//@   ensures[bad-other-cell-stored]{E00} written(b.c[2])

//@ func publishAfterClear(b)
//@   props E00
//@   requires b != nil
//@   concurrent E00
//@   shared b.c, b.m, b.gen
//@   onwrite[ok-cleared-before-published]{E00} b.gen: (forall e Int :: 0 <= e && e < 4 ==> written(b.c[e])) && written(b.m)

//@ func publishBeforeClear(b)
//@   props E00
//@   requires b != nil
//@   concurrent E00
//@   shared b.c, b.m, b.gen
//@   onwrite[bad-cleared-before-published]{E00} b.gen: forall e Int :: 0 <= e && e < 4 ==> written(b.c[e])

//@ spec func negAt(a, k) = 0 <= k && k < len(a) && a[k] < 0
//@ func firstNegative(a) r
//@   props E00
//@   ensures[ok-none-before] forall k Int :: 0 <= k && k < r ==> !negAt(a, k)
//@   ensures[ok-found] r >= 0 ==> negAt(a, r)
//@   ensures[bad-always-found] negAt(a, r)
//@   loop 1:
//@     invariant forall k Int :: 0 <= k && k < #i ==> !negAt(a, k)

// ---- fifth batch: captured locals
//@ callback hook()
//@   modifies heap
//@ func capturedSurvives(f) r
//@   props E00
//@   ensures[ok-captured-local-survives-the-call] r == 7
//@   modifies heap
//@ func capturedEscapes(f) r
//@   props E00
//@   ensures[bad-escaped-local-may-change] r == 7
//@   modifies heap
//@ func capturedInLoop(n) r
//@   props E00
//@   ensures[bad-unchanged-by-the-loop] r == 0
//@   ensures[inc-counts] n >= 0 ==> r == n
//@   modifies heap

// ---- sixth batch: re-acquisition through helpers
//@ func readLockedC(k) r
//@   props E00

// ---- seventh batch: counting loops without an invariant
//@ func indexLoop(a) r
//@   props E00
//@   panics never
//@   modifies nothing
//@ func indexLoopFromMinusOne(a) r
//@   props E00
//@   panics never
//@   modifies nothing
