package sem

import (
	"sync"
	"sync/atomic"
)

// ---- thread-modular mode: what may change between two atomic accesses
type Cell struct {
	state int32
	stamp uint64
}

// two loads of a shared word need not agree
func twoLoads(c *Cell) bool {
	a := atomic.LoadInt32(&c.state)
	b := atomic.LoadInt32(&c.state)
	return a == b
}

// a successful CAS is this thread's own write
func claim(c *Cell) bool {
	return atomic.CompareAndSwapInt32(&c.state, 0, 1)
}

// load-then-store is not a CAS: the stored-over value is unknown
func claimLoadStore(c *Cell) bool {
	if atomic.LoadInt32(&c.state) == 0 {
		atomic.StoreInt32(&c.state, 1)
		return true
	}
	return false
}

// a plain read of a shared word is a race
func plainRead(c *Cell) int32 {
	return c.state
}

// ---- guarded variables
var tabMu = new(sync.RWMutex)
var table = map[string]int{}

func readLocked(k string) int {
	tabMu.RLock()
	defer tabMu.RUnlock()
	return table[k]
}

func readUnlocked(k string) int {
	return table[k]
}

func writeUnderReadLock(k string) {
	tabMu.RLock()
	table[k] = 1
	tabMu.RUnlock()
}

func writeLocked(k string) {
	tabMu.Lock()
	table[k] = 1
	tabMu.Unlock()
}

// what was read under the lock may have changed by the time the lock is taken again
func readTwice(k string) bool {
	tabMu.RLock()
	a := table[k]
	tabMu.RUnlock()
	tabMu.RLock()
	b := table[k]
	tabMu.RUnlock()
	return a == b
}

func relock(k string) {
	tabMu.Lock()
	table[k] = 2
	tabMu.Lock() // self-deadlock
	tabMu.Unlock()
	tabMu.Unlock()
}

// ---- thread-modular mode: guaranteed writes (written) and mode-restricted postconditions
type Counters struct {
	c   [4]int64
	m   int64
	gen int64
}

// unconditional stores reach every cell whatever the others do
func clearAll(b *Counters) {
	for i := 0; i < 4; i++ {
		atomic.StoreInt64(&b.c[i], 0)
	}
	atomic.StoreInt64(&b.m, 7)
}

// straight-line stores: the one-thread postcondition and the thread-modular one are different clauses
func storeTwo(b *Counters) {
	atomic.StoreInt64(&b.c[0], 0)
	atomic.StoreInt64(&b.c[1], 0)
}

// a compare-and-swap that is not retried may store nothing
func clearOneByCas(b *Counters) {
	if v := atomic.LoadInt64(&b.c[1]); v != 0 {
		atomic.CompareAndSwapInt64(&b.c[1], v, 0)
	}
}

// a retried compare-and-swap returns only after it has stored
func clearOneRetry(b *Counters) {
	for {
		v := atomic.LoadInt64(&b.c[1])
		if atomic.CompareAndSwapInt64(&b.c[1], v, 0) {
			return
		}
	}
}

// the callee's stores are followed through the inlined call
func publishAfterClear(b *Counters) {
	clearAll(b)
	atomic.StoreInt64(&b.gen, 1)
}

func publishBeforeClear(b *Counters) {
	atomic.StoreInt64(&b.gen, 1)
	clearAll(b)
}

// a spec function applied to a bound variable
func firstNegative(a []int) int {
	for i, v := range a {
		if v < 0 {
			return i
		}
	}
	return -1
}

// ---- captured locals: only this function and its own function literals can reach them
type hook func()

var sink func()

// the callee cannot name v or r: both keep what this function stored
func capturedSurvives(f hook) (r int) {
	v := 7
	defer func() { r = v }()
	f()
	return 0
}

// once the literal is stored where others can find it, the callee may run it
func capturedEscapes(f hook) int {
	v := 7
	sink = func() { v = 8 }
	f()
	return v
}

// a literal run inside a loop may change the captured local
func capturedInLoop(n int) int {
	v := 0
	inc := func() { v++ }
	for i := 0; i < n; i++ {
		inc()
	}
	return v
}

// ---- re-acquisition through a helper: sync.RWMutex is not reentrant, not even for readers
func relockThroughHelper(k string) int {
	tabMu.RLock()
	defer tabMu.RUnlock()
	return readLocked(k) // takes the read lock again (inlined: no contract)
}

func readLockedC(k string) int {
	tabMu.RLock()
	defer tabMu.RUnlock()
	return table[k]
}

func relockThroughContract(k string) int {
	tabMu.RLock()
	defer tabMu.RUnlock()
	return readLockedC(k) // known by its contract only
}

// only takes the lock and delegates the guarded access: still subject to the lock discipline
func lockAndDelegate(k string) int {
	tabMu.RLock()
	v := peek(k)
	tabMu.RUnlock()
	return v
}

func peek(k string) int { return table[k] }

// ---- plain counting loops: the index is never below its start
func indexLoop(a []int) int {
	s := 0
	for i := 0; i < len(a); i++ {
		s += a[i]
	}
	return s
}

func indexLoopFromMinusOne(a []int) int {
	s := 0
	for i := -1; i < len(a); i++ {
		s += a[i] // panics in the first iteration
	}
	return s
}

// a helper that reads the guarded map and is called by a function that holds no lock (and is therefore not checked
// itself): the helper is checked on its own and fails
func delegateWithoutLock(k string) int { return peekUnlocked(k) }

func peekUnlocked(k string) int { return table[k] }
