// Package sem is the conformance suite of the verification engine: small functions whose Go semantics are easy to get
// wrong in a verification-condition generator. Every contract clause is labelled ok-* (must be proved) or bad-* (a false
// statement about the code: must be refuted). tools/engine-selftest.sh runs the engine on this package and compares.
package sem

import "errors"

var log []int

func boom() { panic("boom") }

// ---- recover
func recoverDirect() (ok bool) {
	defer func() {
		if r := recover(); r != nil {
			ok = false
		}
	}()
	boom()
	return true
}

func helperRecover() {
	if r := recover(); r != nil { // not called directly by a deferred function: returns nil
		_ = r
	}
}

func recoverInHelper() (ok bool) {
	defer func() {
		helperRecover()
	}()
	boom()
	return true
}

func recoverDeferredNamedFunc() (ok bool) {
	defer helperRecover() // the deferred function itself calls recover: effective
	boom()
	return true
}

// ---- defer
func deferOrder() (r int) {
	x := 0
	defer func() { x = x*10 + 1; r = x }()
	defer func() { x = x*10 + 2 }()
	return 7
}

func deferArgsEvaluatedEarly() (r int) {
	x := 1
	defer func(v int) { r = v }(x)
	x = 5
	return x
}

func namedResultChangedByDefer() (r int) {
	defer func() { r = r + 1 }()
	return 10
}

// ---- interfaces
type T struct{ n int }

func (t *T) Error() string { return "t" }

func typedNil() error {
	var p *T
	return p // a non-nil interface holding a nil pointer
}

func typedNilCheck() bool {
	return typedNil() != nil
}

func errIs(e error) bool {
	return e == nil
}

var sentinel = errors.New("s")

// ---- integers
func addU32(a, b uint32) uint32 { return a + b }

func divTrunc(a, b int64) int64 {
	if b == 0 {
		return 0
	}
	return a / b
}

func modSign(a, b int64) int64 {
	if b == 0 {
		return 0
	}
	return a % b
}

func narrow(a int64) int32 { return int32(a) }

func shiftBig(a uint32, s uint32) uint32 { return a << s }

func unsignedSub(a, b uint64) uint64 { return a - b }

func divByZero(a, b int) int { return a / b }

// ---- slices
func appendWithinCap() (int, int) {
	s := make([]int, 1, 4)
	s[0] = 1
	t := append(s, 2)
	u := append(s, 3) // overwrites t[1]: same backing array
	return t[1], u[1]
}

func appendBeyondCap() (int, int) {
	s := make([]int, 1, 1)
	s[0] = 1
	t := append(s, 2)
	t[0] = 9 // t has its own array
	return s[0], t[0]
}

func subSliceAlias(s []int) {
	if len(s) >= 2 {
		t := s[1:]
		t[0] = 42
	}
}

func indexOut(s []int, i int) int { return s[i] }

func rangeFixesLength(s []int) int {
	n := 0
	for range s {
		s = nil // the range expression was evaluated once
		n++
	}
	return n
}

func deleteShift(s []int, k int) []int {
	if k < 0 || k >= len(s) {
		return s
	}
	return append(s[:k], s[k+1:]...)
}

// ---- maps
func nilMapRead(k string) int {
	var m map[string]int
	return m[k]
}

func nilMapWrite(k string) {
	var m map[string]int
	m[k] = 1
}

func mapAlias() int {
	m := map[string]int{}
	n := m
	n["a"] = 1
	return m["a"]
}

// ---- structs and pointers
type P struct{ a, b int }

func structCopy() (int, int) {
	p := P{1, 2}
	q := p
	q.a = 9
	return p.a, q.a
}

func pointerAlias() (int, int) {
	p := &P{1, 2}
	q := p
	q.a = 9
	return p.a, q.a
}

func nilDeref(p *P) int { return p.a }

// ---- closures
func closureByReference() int {
	x := 1
	f := func() { x = x + 1 }
	f()
	f()
	return x
}

func loopVarCapture() int {
	var fs []func() int
	for i := 0; i < 3; i++ {
		fs = append(fs, func() int { return i })
	}
	return fs[0]() // go 1.13 semantics: one variable for the whole loop -> 3
}

// ---- control flow
func switchFallthrough(x int) int {
	r := 0
	switch x {
	case 1:
		r += 1
		fallthrough
	case 2:
		r += 10
	default:
		r += 100
	}
	return r
}

func shortCircuit(p *P) bool {
	return p != nil && p.a > 0
}

func loopSum(n int) int {
	s := 0
	for i := 0; i < n; i++ {
		s += i
	}
	return s
}

func earlyReturnInLoop(s []int, x int) int {
	for i, v := range s {
		if v == x {
			return i
		}
	}
	return -1
}

// ---- globals and side effects
func appendLog(v int) {
	log = append(log, v)
}

func twoLogs() {
	appendLog(1)
	appendLog(2)
}
