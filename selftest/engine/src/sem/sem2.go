package sem

import (
	"sync"
	"sync/atomic"
)

// ---- arrays are values
func arrayValue() (int, int) {
	a := [3]int{1, 2, 3}
	b := a
	b[0] = 9
	return a[0], b[0]
}

// ---- embedding
type Inner struct{ v int }
type Outer struct {
	Inner
	w int
}

func promoted(o *Outer) int {
	o.v = 5
	return o.Inner.v
}

// ---- interfaces and method values
type Shape interface{ Area() int }
type Sq struct{ s int }

func (q Sq) Area() int { return q.s * q.s }

func dispatch() int {
	var sh Shape = Sq{3}
	return sh.Area()
}

func methodValue() int {
	q := Sq{2}
	f := q.Area // the receiver is copied when the method value is made
	q.s = 5
	return f()
}

// ---- locks
var mu sync.Mutex
var cnt int

func lockedInc() {
	mu.Lock()
	defer mu.Unlock()
	cnt++
}

func leakLock(b bool) {
	mu.Lock()
	if b {
		return
	}
	mu.Unlock()
}

// ---- once
var once sync.Once
var initd int

func onceTwice() int {
	once.Do(func() { initd++ })
	once.Do(func() { initd++ })
	return initd
}

// ---- atomics (one thread)
func atomicAdd(p *int64) int64 {
	atomic.AddInt64(p, 2)
	return atomic.LoadInt64(p)
}

func casOnce(p *int32) bool {
	return atomic.CompareAndSwapInt32(p, 0, 1)
}

// ---- numbers
func f2i(f float64) int64 { return int64(f) }

func mul32(a, b int32) int32 { return a * b }

func neg(a int64) int64 { return -a }

func udiv(a, b uint32) uint32 {
	if b == 0 {
		return 0
	}
	return a / b
}

// ---- calls
func sumv(xs ...int) int {
	s := 0
	for _, x := range xs {
		s += x
	}
	return s
}

func callVariadic() int { return sumv(1, 2, 3) }

func swap(a, b int) (int, int) { return b, a }

func useSwap() int {
	x, y := swap(1, 2)
	return x*10 + y
}

// ---- panics
func nestedPanic() (r int) {
	defer func() {
		recover()
		r = 2
	}()
	defer func() {
		panic("b")
	}()
	panic("a")
}

func rePanic() {
	defer func() {
		if r := recover(); r != nil {
			panic(r)
		}
	}()
	panic("x")
}

// ---- scopes and strings
func shadow() int {
	x := 1
	{
		x := 2
		_ = x
	}
	return x
}

func strEq(a, b string) bool { return a == b }

// ---- labelled control flow
func firstRowWith(m [][]int, x int) int {
	r := -1
outer:
	for i, row := range m {
		for _, v := range row {
			if v == x {
				r = i
				break outer
			}
		}
	}
	return r
}

// ---- map iteration
func countKeys(m map[string]int) int {
	n := 0
	for range m {
		n++
	}
	return n
}
