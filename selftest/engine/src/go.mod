module github.com/alibaba/sentinel-golang/enginetest

go 1.13
