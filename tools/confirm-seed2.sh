#!/bin/sh
# usage: tools/confirm-seed2.sh <worktree> <seed dir> <pkgdir>  — demo must fail with patch.diff applied and pass without it (no git stash)
export GOFLAGS=-mod=mod GOPROXY=off GOSUMDB=off GOTOOLCHAIN=local
W="$1"; S="$2"; P="$3"
cd "$W" || exit 2
git checkout -q -- . ; find . -name zz_seed_demo_test.go -delete
cp "$S/zz_seed_demo_test.go" "$P/"
echo "--- original:";  go test -count=1 -timeout 120s -run TestSeedDemo "./$P/" 2>&1 | tail -1
git apply "$S/patch.diff" || exit 3
echo "--- with change:"; go test -count=1 -timeout 120s -run TestSeedDemo "./$P/" 2>&1 | tail -1
echo "--- existing tests with change:"; go test -count=1 -timeout 300s -skip 'TestSeedDemo|TestHotSpotParamRuleJsonArrayParser' "./$P/" 2>&1 | tail -1
git checkout -q -- . ; rm -f "$P/zz_seed_demo_test.go"
