#!/bin/sh
# Copies /verif/contracts/<a>__<b>.go to /repo/<a>/<b>/verif_contracts.go (the guarded, comment-only hook files).
# With --check only reports differences (exit 1 if any).
cd /verif/contracts || exit 2
rc=0
for f in *.go; do
  d=$(echo "${f%.go}" | sed 's#__#/#g')
  t="/repo/$d/verif_contracts.go"
  if [ "$1" = "--check" ]; then
    cmp -s "$f" "$t" || { echo "differs: $f vs $t"; rc=1; }
  else
    cp "$f" "$t"
  fi
done
exit $rc
