#!/bin/sh
# usage: tools/try-refactor.sh <ID> [offset] — files the behaviour-preserving refactorings a sub-agent wrote for property ID under
# selftest/neutral/ and runs the property's quick check on a patched scratch copy: every one must end with exit 0.
ID="$1"; OFF="${2:-0}"
for n in 1 2 3; do
  src=/tmp/refwt/$ID.out/refactor$n.diff
  [ -s "$src" ] || { echo "$ID r$n: no patch"; continue; }
  m=$((n+OFF)); dst=/verif/selftest/neutral/$ID-r$m.patch
  cp "$src" "$dst"
  sed -n "${n}p" /tmp/refwt/$ID.out/notes.txt > /verif/selftest/neutral/$ID-r$m.txt 2>/dev/null
  res=$(/verif/tools/mutant.sh "$dst" "$ID" 2>&1)
  echo "$ID r$m: $(echo "$res" | grep 'exit=') | $(echo "$res" | grep -c '^VIOLATION') violations, $(echo "$res" | grep -c '^UNDECIDED') undecided $(echo "$res" | grep 'CHECK-ERROR\|FAILED' | head -2 | tr '\n' ' ')"
  echo "$res" | grep '^VIOLATION\|^UNDECIDED' | head -4 | cut -c1-230
done
