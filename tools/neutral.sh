#!/bin/sh
# usage: tools/neutral.sh [ID] — must-pass corpus: every selftest/neutral/<ID>-*.patch is a behaviour-preserving
# refactoring; the property's quick check on the patched copy must exit 0 (UNDECIDED lines are allowed and reported).
HERE=$(cd "$(dirname "$0")/.." && pwd)
n=0; bad=0
for p in "$HERE"/selftest/neutral/${1:-C}*.patch; do
  [ -f "$p" ] || continue
  id=$(basename "$p" | cut -c1-3)
  n=$((n+1))
  res=$("$HERE/tools/mutant.sh" "$p" "$id" 2>&1)
  if echo "$res" | grep -q "hunk.*FAILED\|can't find file to patch"; then echo "NEUTRAL-STALE $(basename $p)"; continue; fi
  if ! echo "$res" | grep -q "^exit=0"; then
    bad=$((bad+1)); echo "NEUTRAL-ALARM $(basename $p): $(echo "$res" | grep '^VIOLATION\|CHECK-ERROR' | head -2 | tr '\n' ' ')"
  fi
done
echo "neutral corpus: $n patches, $bad alarms"
[ $bad -eq 0 ]
