#!/usr/bin/env python3
"""usage: tools/mkmeta.py <seed dir> <property> <breaks> <needs_to_manifest> <history>
Runs the quick check of the property on a scratch copy of /repo with the seed's patch applied (tools/mutant.sh) and
writes <seed dir>/meta.json with the obligations that failed (read from the replay files the run just wrote)."""
import json, os, re, subprocess, sys

seed, prop, breaks, needs, history = sys.argv[1:6]
seed = seed.rstrip("/")
out = subprocess.run(["/verif/tools/mutant.sh", seed + "/patch.diff", prop], capture_output=True, text=True).stdout
det = []
for l in out.splitlines():
    m = re.match(r"VIOLATION property=\S+ replay=(\S+)", l)
    if m and os.path.exists(m.group(1)):
        name = None
        for rl in open(m.group(1), errors="replace"):
            if rl.startswith("obligation:"):
                name = rl.split(":", 1)[1].strip()
                break
        if name is None and "bounded_" in m.group(1):
            name = "stand-in " + os.path.basename(m.group(1))[len("bounded_"):-4]
            for rl in open(m.group(1), errors="replace"):
                mm = re.search(r"check=(\S+)", rl)
                if mm:
                    name += "#" + mm.group(1)
                    break
        det.append(name or os.path.basename(m.group(1)))
    m = re.match(r"UNDECIDED obligation=(\S+)", l)
    if m:
        det.append("(undecided) " + m.group(1))
exitline = [l for l in out.splitlines() if l.startswith("exit=")]
meta = {
    "property": prop,
    "breaks": breaks,
    "needs_to_manifest": needs,
    "source": "written by an independent sub-agent that saw only the property text and a scratch worktree of the library (no access to /verif)",
    "confirmed": "demo (zz_seed_demo_test.go) re-run by tools/confirm-seed2.sh in a scratch worktree of HEAD: passes on the original code, fails with patch.diff applied; existing tests of the package pass with the patch",
    "check_run": "tools/mutant.sh %s/patch.diff %s  (patch applied to a scratch copy of /repo, quick check run against it)" % (os.path.relpath(seed, "/verif"), prop),
    "detected_by": "; ".join(dict.fromkeys(det)) if det else "NOT DETECTED",
    "history": history,
}
json.dump(meta, open(seed + "/meta.json", "w"), indent=1, ensure_ascii=False)
print(os.path.basename(seed), "->", meta["detected_by"][:300], exitline)
