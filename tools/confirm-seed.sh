#!/bin/sh
# usage: tools/confirm-seed.sh <worktree> <pkgdir of the demo>   — confirms the demo fails with the seeded change and passes without it
export GOFLAGS=-mod=mod GOPROXY=off GOSUMDB=off GOTOOLCHAIN=local
W="$1"; P="$2"
cd "$W" || exit 2
echo "--- with change:"; go test -count=1 -run TestSeedDemo "./$P/" 2>&1 | tail -3
git stash push -q -- $(git diff --name-only | grep -v _test.go) && echo "--- original:" && go test -count=1 -run TestSeedDemo "./$P/" 2>&1 | tail -3; git stash pop -q
echo "--- existing tests with change:"; go test -count=1 -skip TestSeedDemo "./$P/..." 2>&1 | tail -3
