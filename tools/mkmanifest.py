#!/usr/bin/env python3
# Regenerates /verif/MANIFEST.json from tools/claims.json (claimed checks) and tools/na.json (not applicable).
import json, os, subprocess
here = os.path.dirname(os.path.dirname(os.path.abspath(__file__)))
claims = json.load(open(os.path.join(here, 'tools', 'claims.json')))
na = json.load(open(os.path.join(here, 'tools', 'na.json')))
ids = [json.loads(l)['id'] for l in open(os.path.join(here, 'properties.jsonl'))]
hooks = [l.strip() for l in open(os.path.join(here, 'tools', 'hook_commits.txt')) if l.strip()] if os.path.exists(os.path.join(here, 'tools', 'hook_commits.txt')) else []
checks = []
for i in ids:
    if i in claims:
        c = claims[i]
        checks.append({
            "property_id": i,
            "quick_cmd": "./check %s" % i,
            "thorough_cmd": "./check %s --tier thorough" % i,
            "evidence_file": "/verif/evidence/%s.json" % i,
            "replay_cmd_template": "./check %s --replay {path}" % i,
            "engine": "vcgo",
            "level_claimed": {"category": c.get("category", "proof"), "text": c["text"], "design_ref": c.get("design_ref", "DESIGN.md section 4, " + i)},
            "level_note": c["note"],
            "technique": c.get("technique", "contract-based deductive verification: WP verification conditions generated from go/ssa of the real code against //@ contracts, discharged by z3/cvc5"),
        })
m = {
    "version": 1,
    "setup_cmd": "cd /verif/vcgo && GOFLAGS=-mod=mod GOPROXY=off GOSUMDB=off GOTOOLCHAIN=local go build -o /verif/bin/vcgo .",
    "hooks": {
        "guard": "verif",
        "enable": "go build -tags verif (the only hooks are comment-only contract files verif_contracts.go guarded by //go:build verif; vcgo loads /repo with -tags=verif)",
        "baseline_off_cmd": "for m in $(cat /w/out/gomods.txt); do MF=$(cd /repo/$m && . /w/out/goenv.sh && gomodflag); (cd /repo/$m && go test $MF -json -vet=off -count=1 -timeout 25m ./...); done",
        "source_commits": hooks,
        "add_only": True,
    },
    "engines": [{"name": "vcgo", "path": "/verif/vcgo", "serves_properties": [c["property_id"] for c in checks],
                 "kind_free_text": "verification-condition generator for Go (go/packages + go/ssa, x/tools v0.29.0): contracts in //@ comment files, weakest preconditions per function, loops cut at invariants, callees by contract, obligations discharged by a z3 5.1 / z3 4.8 / cvc5 portfolio, counterexamples replayed on the real code with go test -overlay"}],
    "checks": checks,
    "not_applicable": [{"property_id": i, "reason": na[i]} for i in ids if i not in claims],
    "notes": "See DESIGN.md. Known findings: /verif/known_findings.txt.",
}
for i in ids:
    if i not in claims and i not in na:
        raise SystemExit("property %s neither claimed nor not_applicable" % i)
json.dump(m, open(os.path.join(here, 'MANIFEST.json'), 'w'), indent=1)
print("MANIFEST.json:", len(checks), "claimed,", len(m["not_applicable"]), "not applicable")
