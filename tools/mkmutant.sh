#!/bin/sh
# usage: tools/mkmutant.sh <name> <file relative to /repo> <sed expression>   -> selftest/mutants/<name>.patch
set -e
N="$1"; F="$2"; E="$3"
T=$(mktemp -d /var/tmp/mk.XXXXXX); trap 'rm -rf $T' EXIT
mkdir -p "$T/a/$(dirname $F)" "$T/b/$(dirname $F)"
cp "/repo/$F" "$T/a/$F"; sed "$E" "/repo/$F" > "$T/b/$F"
if cmp -s "$T/a/$F" "$T/b/$F"; then echo "mutant $N: sed changed nothing"; exit 1; fi
(cd $T && diff -u "a/$F" "b/$F" > "/verif/selftest/mutants/$N.patch" || true)
echo "wrote selftest/mutants/$N.patch"
