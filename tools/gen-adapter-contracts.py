#!/usr/bin/env python3
# Generates /verif/contracts/pkg__adapters__<name>.go: per framework, what "the wrapped handler", "the configured
# fallback", "the default rejection" and the user-supplied extractors are. The protocol itself is adapter_protocol.spec.
import os
def handler(kind, hdr, err):
    return f'''// the wrapped handler
//@ {kind} {hdr}
//@   panics may
//@   always gNextN == old(gNextN) + 1 && gNextEnt == old(gEntN) && gNextLive == old(gLive) && gNextErr == {err}
//@   modifies heap, gNextN, gNextEnt, gNextLive, gNextErr
'''
def reject(kind, hdr):
    return f'''// default rejection
//@ {kind} {hdr}
//@   panics never
//@   ensures gRejN == old(gRejN) + 1
//@   modifies heap, gRejN
'''
def fallback(hdr):
    return f'''// configured fallback (user code: may panic)
//@ callback {hdr}
//@   panics may
//@   always gRejN == old(gRejN) + 1
//@   modifies gRejN
'''
def user(hdr):
    return f'''// user-supplied hook (may panic). Assumed not to write the adapter's option struct (unexported, not reachable from
// user code); its other effects on the heap are irrelevant to the protocol facts.
//@ callback {hdr}
//@   panics may
//@   modifies nothing
'''
A = {
 'gin': ('gin', [handler('extern','(*github.com/gin-gonic/gin.Context).Next(c)','nil'), reject('extern','(*github.com/gin-gonic/gin.Context).AbortWithStatus(c, code)'), fallback('options.blockFallback(c)'), user('options.resourceExtract(c) r')]),
 'echo': ('echo', [handler('callback','github.com/labstack/echo/v4.HandlerFunc(c) err','err'), reject('iface','github.com/labstack/echo/v4.Context.JSON(code, i) err'), fallback('options.blockFallback(c) err'), user('options.resourceExtract(c) r')]),
 'fiber': ('fiber', [handler('extern','(*github.com/gofiber/fiber/v2.Ctx).Next(c) err','err'), reject('extern','(*github.com/gofiber/fiber/v2.Ctx).SendStatus(c, code) err'), fallback('options.blockFallback(c) err'), user('options.resourceExtract(c) r')]),
 'gear': ('gear', ['// gear middleware has no "next": the framework runs the following middleware after this one returns,\n// so nothing in this adapter invokes the wrapped handler (see the known finding for C19).\n', reject('extern','(*github.com/teambition/gear.Context).End(c, code, buf) err'), fallback('options.blockFallback(c) err'), user('options.resourceExtract(c) r')]),
 'go-zero': ('go_zero', [handler('callback','net/http.HandlerFunc(w, r)','nil'), reject('extern','net/http.Error(w, msg, code)'), fallback('options.blockFallback(r) (status, msg)'), user('options.resourceExtract(r) s')]),
 'goframe': ('goframe', [handler('extern','(*github.com/gogf/gf/v2/net/ghttp.middleware).Next(m)','nil'), reject('extern','(*github.com/gogf/gf/v2/net/ghttp.ResponseWriter).WriteHeader(w, code)'), fallback('options.blockFallback(r)'), user('options.resourceExtract(r) s')]),
 'iris': ('iris', [handler('extern','(*github.com/kataras/iris/v12/context.Context).Next(c)','nil'), reject('extern','(*github.com/kataras/iris/v12/context.Context).StatusCode(c, code)'), fallback('options.blockFallback(c)'), user('options.resourceExtract(c) s')]),
 'grpc': ('grpc', [handler('callback','google.golang.org/grpc.UnaryInvoker(ctx, method, req, reply, cc, opts) err','err'),
                   handler('callback','google.golang.org/grpc.Streamer(ctx, desc, cc, method, opts) (cs, err)','err'),
                   handler('callback','google.golang.org/grpc.UnaryHandler(ctx, req) (res, err)','err'),
                   handler('callback','google.golang.org/grpc.StreamHandler(srv, ss) err','err'),
                   '// default rejection: the block error is returned (protocol clause "reserr == the block error")\n',
                   fallback('options.unaryClientBlockFallback(ctx, method, req, cc, b) err'), fallback('options.unaryServerBlockFallback(ctx, req, info, b) (r, err)'),
                   fallback('options.streamClientBlockFallback(ctx, desc, cc, method, b) (cs, err)'), fallback('options.streamServerBlockFallback(srv, ss, info, b) err'),
                   user('options.unaryClientResourceExtract(ctx, method, req, cc) s'), user('options.unaryServerResourceExtract(ctx, req, info) s'),
                   user('options.streamClientResourceExtract(ctx, desc, cc, method) s'), user('options.streamServerResourceExtract(srv, ss, info) s')]),
 'micro': ('micro', [handler('iface','github.com/micro/go-micro/v2/client.Client.Call(ctx, req, rsp, opts) err','err'),
                     handler('iface','github.com/micro/go-micro/v2/client.Client.Stream(ctx, req, opts) (s, err)','err'),
                     handler('callback','github.com/micro/go-micro/v2/server.HandlerFunc(ctx, req, rsp) err','err'),
                     reject('iface','github.com/micro/go-micro/v2/server.Stream.Send(v) err'),
                     fallback('options.clientBlockFallback(ctx, req, b) err'), fallback('options.serverBlockFallback(ctx, req, b) err'),
                     fallback('options.streamClientBlockFallback(ctx, req, b) (s, err)'), fallback('options.streamServerBlockFallback(stream, b) s'),
                     user('options.clientResourceExtract(ctx, req) s'), user('options.serverResourceExtract(ctx, req) s'),
                     user('options.streamClientResourceExtract(ctx, req) s'), user('options.streamServerResourceExtract(stream) s'), user('options.enableOutlier(ctx) b')]),
 'kratos': ('kratos', [handler('callback','github.com/go-kratos/kratos/v2/middleware.Handler(ctx, req) (resp, err)','err'),
                       fallback('options.BlockFallback(ctx, req, b) (r, err)'), user('options.ResourceExtract(ctx, req) s'), user('options.EnableOutlier(ctx) b')]),
}
EXTRA = {
 'echo': '''
//@ func SentinelMiddleware$1$1(c) err
//@   props C19
//@   replay adapter_error_not_traced@pkg/adapters/echo for handler-error-traced
''',
 'fiber': '''
//@ func SentinelMiddleware$1(ctx) err
//@   props C19
//@   replay adapter_error_not_traced@pkg/adapters/fiber for handler-error-traced
''',
 'gear': '''
//@ func SentinelMiddleware$1(ctx) err
//@   props C19
//@   replay gear_exit_before_handler@pkg/adapters/gear for admitted-handler-runs-once
''',
 'micro': '''
// in outlier mode the per-node call wrapper installed here traces callee and error (delegated tracing)
//@ extern github.com/micro/go-micro/v2/client.WithCallWrapper(w) o
//@   panics never
//@   ensures gDelegN == old(gDelegN) + 1
//@   modifies heap, gDelegN

//@ func (c *clientWrapper) Call(ctx, req, rsp, opts) err
//@   props C19
//@   replay micro_outlier_blocked@pkg/adapters/micro for entry-not-nil
//@ func (c *clientWrapper) Stream(ctx, req, opts) (s, err)
//@   props C19
//@   replay micro_outlier_blocked@pkg/adapters/micro for entry-not-nil
//@ func NewStreamWrapper$1(stream) s
//@   props C19
//@   replay micro_stream_wrapper_wrong_field@pkg/adapters/micro for nilfunc
//@   replay micro_stream_exit_before_handler@pkg/adapters/micro for admitted-handler-runs-once
''',
 'kratos': '''
// newOptions installs non-nil defaults for the three hooks; passing a nil function to WithXxx is caller misuse
//@ func SentinelClientMiddleware$1$1(ctx, req) (r, err)
//@   props C19
//@   requires options != nil && options.ResourceExtract != nil && options.BlockFallback != nil && options.EnableOutlier != nil
//@   replay kratos_outlier_blocked@pkg/adapters/kratos for entry-not-nil
//@   replay kratos_outlier_error_no_peer@pkg/adapters/kratos for handler-error-traced
// panics when the context carries no discovery endpoint (documented misuse), before any entry is asked for
//@ func ServiceNameExtract(ctx) s
//@   assumed
//@   panics may
//@   modifies nothing
''',
}
for d,(pkg,parts) in A.items():
    out=f'''//go:build verif

package {pkg}

// Contracts for the {d} adapter (property C19), generated by /verif/tools/gen-adapter-contracts.py.
// They only name this framework's handler invocation, fallback, default rejection and user hooks; every function
// of the package that calls api.Entry is checked against the protocol in /verif/contracts/adapter_protocol.spec.

'''+"\n".join(parts)+EXTRA.get(d,"")
    open(f'/verif/contracts/pkg__adapters__{d}.go','w').write(out)
print("generated", len(A))
