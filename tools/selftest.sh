#!/bin/sh
# usage: tools/selftest.sh <property id> [out.json]
# Must-fail corpus of one property: every selftest/mutants/<ID>-*.patch and seeded/<ID>-*/patch.diff is applied to a
# scratch copy of the repository and the property's quick check is run against it; each must end in a VIOLATION.
ID="$1"; OUT="${2:-/dev/null}"
HERE=$(cd "$(dirname "$0")/.." && pwd)
n=0; det=0; und=""; list=""
for p in "$HERE"/selftest/mutants/"$ID"-*.patch "$HERE"/seeded/"$ID"-*/patch.diff; do
  [ -f "$p" ] || continue
  # a seeded change whose own demo passes on the repaired tree (a later fix: commit made it harmless) is kept for the record only
  [ -f "$(dirname "$p")/OBSOLETE" ] && continue
  n=$((n+1))
  name=$(echo "$p" | sed "s#$HERE/##")
  res=$("$HERE/tools/mutant.sh" "$p" "$ID" 2>&1)
  if echo "$res" | grep -q "hunk.*FAILED\|can't find file to patch"; then
    echo "SELFTEST-STALE property=$ID $name (the patch no longer applies to the current tree)"
    list="$list\"$name: stale (does not apply)\","; continue
  fi
  if echo "$res" | grep -q "^VIOLATION property=$ID "; then
    det=$((det+1)); list="$list\"$name: detected\","
  else
    und="$und $name"; list="$list\"$name: NOT DETECTED\","
    echo "SELFTEST-UNDETECTED property=$ID $name"
  fi
done
echo "must-fail corpus $ID: $det/$n detected"
printf '{"patches": %d, "detected": %d, "results": [%s]}\n' "$n" "$det" "$(echo "$list" | sed 's/,$//')" > "$OUT"
