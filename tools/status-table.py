#!/usr/bin/env python3
# Prints the per-property status table of DESIGN.md section 8.2 from the evidence files, props.json and known_findings.txt.
import json, glob, re, collections
props = json.load(open('/verif/props.json'))['props']
kf = open('/verif/known_findings.txt').read().split('\n')
known = collections.Counter(); fixed = collections.Counter()
for ln in kf:
    m = re.match(r'(known|fixed): property=(C\d+)', ln)
    if m:
        (known if m.group(1) == 'known' else fixed)[m.group(2)] += 1
print('| id | functions under contract | obligations (quick) | covers | bounded stand-ins | known findings | fixed entries |')
print('|----|--------------------------|---------------------|--------|-------------------|----------------|---------------|')
for f in sorted(glob.glob('/verif/evidence/C*.json')):
    e = json.load(open(f)); c = e.get('coverage', {}); pid = e['property_id']
    b = ', '.join(x['name'] for x in (props.get(pid, {}).get('bounded') or [])) or '–'
    nf = c.get('functions_under_contract')
    nf = len(nf) if isinstance(nf, list) else nf
    print('| %s | %s | %s | %s/%s | %s | %d | %d |' % (pid, nf, c.get('discharged'), c.get('cover_sat', '?'), c.get('cover_queries', '?'), b, known[pid], fixed[pid]))
