#!/bin/sh
# usage: tools/mutant.sh <patch.diff> <property id> [extra vcgo args]
# Applies a patch to a scratch copy of /repo (removed afterwards) and runs the property check against it.
set -e
PATCH=$(readlink -f "$1"); ID="$2"; shift 2
export GOFLAGS=-mod=mod GOPROXY=off GOSUMDB=off GOTOOLCHAIN=local
BASE="${TMPDIR:-/var/tmp}"
D=$(mktemp -d "$BASE/verif.mut.XXXXXX")
trap 'rm -rf "$D"' EXIT
rsync -a --exclude .git /repo/ "$D/repo/"
(cd "$D/repo" && patch -p1 -s < "$PATCH")
set +e
VERIF_REPO="$D/repo" /verif/bin/vcgo check -prop "$ID" -repo "$D/repo" -no-evidence "$@"
echo "exit=$?"
