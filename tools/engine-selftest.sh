#!/bin/sh
# usage: tools/engine-selftest.sh [out.json]
# Conformance suite of the verification engine (selftest/engine): small Go functions whose semantics a VC generator
# easily gets wrong (recover only in the deferred function itself, defer order and argument evaluation, typed nil,
# integer wrap / truncation / division, slice aliasing through append and sub-slices, nil maps, value vs pointer
# copies, closures, fallthrough, loops). Clauses labelled ok-* must be proved, bad-* are false and must NOT be
# proved, inc-* are true but outside the engine's reach (either outcome); the no-panic obligation must fail exactly
# for the functions that can panic.
HERE=$(cd "$(dirname "$0")/.." && pwd)
OUT="${1:-/dev/null}"
export GOFLAGS=-mod=mod GOPROXY=off GOSUMDB=off GOTOOLCHAIN=local
RES=$("$HERE/bin/vcgo" check -prop E00 -repo "$HERE/selftest/engine/src" -verif "$HERE/selftest/engine" -no-evidence -v 2>&1)
rm -rf "$HERE/selftest/engine/out"
echo "$RES" | python3 -c '
import re, sys, json
panics = {"divByZero", "indexOut", "nilMapWrite", "nilDeref", "recoverInHelper", "rePanic", "indexLoopFromMinusOne"}
# known incompleteness (a true no-panic claim the engine cannot establish): a panic raised inside a deferred call while
# panicking, recovered by an outer deferred call
incomplete = {("nestedPanic", "nopanic")}
n = bad = 0
problems = []
for l in sys.stdin:
    m = re.match(r"\s+(ok|FAIL)\s+(\S+)#(\S+)", l)
    if not m:
        if "CHECK-ERROR" in l and "obligations generated" not in l:
            problems.append(l.strip())
        continue
    res, fn, ob = m.groups()
    thread_modular = "|thread-modular" in fn
    fn = fn.split(".")[-1].split("|")[0]
    n += 1
    want = None
    lab = re.search(r"\[(.*)\]", ob)
    lab = lab.group(1) if lab else ""
    if ob.startswith("ensures["):
        if lab.startswith("ok-"): want = "ok"
        elif lab.startswith("bad-"): want = "FAIL"
    elif ob.startswith("loop"):
        want = "ok"
    elif ob.startswith("nopanic["):
        want = "FAIL" if fn in panics else "ok"
    elif ob.startswith("frame["):
        want = "ok"
    elif ob.startswith("guard["):
        want = "ok"
        if fn == "readUnlocked" and "read-of-table" in ob: want = "FAIL"
        if fn == "writeUnderReadLock" and "write-of-table" in ob: want = "FAIL"
        if fn == "relock" and "not-already-held#2" in ob: want = "FAIL"
        if fn == "relockThroughHelper" and "not-already-held#2" in ob: want = "FAIL"
        if fn == "relockThroughContract" and "call-of-readLockedC-which-locks" in ob: want = "FAIL"
        if fn == "peekUnlocked" and "read-of-table" in ob: want = "FAIL"
    elif ob.startswith("race["):
        want = "FAIL" if fn == "plainRead" else "ok"
    elif ob.startswith("onwrite["):
        want = "ok" if lab.startswith("ok-") else "FAIL"
    if ob.startswith("ensures[") and lab.startswith("tm-bad-"):
        want = "FAIL" if thread_modular else None
    if (fn, ob.split("[")[0]) in incomplete:
        want = None
    if want and res != want:
        bad += 1
        problems.append("%s#%s: %s, expected %s" % (fn, ob, res, want))
for p in problems:
    print("ENGINE-SELFTEST-FAILED", p)
print("engine conformance: %d obligations, %d unexpected" % (n, len(problems)))
json.dump({"obligations": n, "unexpected": problems}, open(sys.argv[1], "w"))
sys.exit(1 if problems or n < 60 else 0)
' "$OUT"
