#!/bin/sh
# usage: tools/neutral-cross.sh [shard n] — must-pass corpus under the NEIGHBOURING properties: every
# selftest/neutral/<ID>-*.patch is also run under the other properties whose checks verify functions of the packages the
# patch touches (a behaviour-preserving refactoring must not raise an alarm under any of them). Shard k of n: only the
# patches whose ordinal is k modulo n (for running several shards in parallel).
HERE=$(cd "$(dirname "$0")/.." && pwd)
K="${1:-0}"; N="${2:-1}"
props_of() {
  case "$1" in
    core/stat/base/*) echo "C08 C09 C02 C07";;
    core/stat/*) echo "C01 C04 C07 C15 C02";;
    core/base/*) echo "C01 C16 C06 C20";;
    api/*) echo "C01 C06 C16";;
    core/flow/*) echo "C02 C10 C11 C13 C14 C15";;
    core/circuitbreaker/*) echo "C03 C12 C13 C14 C15 C20";;
    core/hotspot/cache/*) echo "C05 C15 C06";;
    core/hotspot/*) echo "C05 C06 C13 C14 C15";;
    core/isolation/*) echo "C04 C13 C15";;
    core/system/*) echo "C07 C13 C15";;
    core/outlier/*) echo "C20 C13 C15";;
    ext/datasource/*) echo "C18";;
    core/log/metric/*) echo "C17";;
    pkg/adapters/*) echo "C19";;
  esac
}
n=0; runs=0; bad=0; i=0
for p in "$HERE"/selftest/neutral/C*.patch; do
  i=$((i+1))
  [ $((i % N)) -eq "$K" ] || continue
  own=$(basename "$p" | cut -c1-3)
  files=$(grep '^+++ ' "$p" | sed 's/^+++ [ab]\///; s/\t.*//')
  ps=""
  for f in $files; do ps="$ps $(props_of "$f")"; done
  ps=$(echo $ps | tr ' ' '\n' | sort -u | grep -v "^$own\$" | tr '\n' ' ')
  n=$((n+1))
  for id in $ps; do
    runs=$((runs+1))
    res=$("$HERE/tools/mutant.sh" "$p" "$id" 2>&1)
    if echo "$res" | grep -q "hunk.*FAILED\|can't find file to patch"; then continue; fi
    if ! echo "$res" | grep -q "^exit=0"; then
      bad=$((bad+1)); echo "NEUTRAL-CROSS-ALARM $(basename $p) under $id: $(echo "$res" | grep '^VIOLATION\|CHECK-ERROR' | head -2 | cut -c1-200 | tr '\n' ' ')"
    fi
  done
done
echo "neutral cross corpus (shard $K/$N): $n patches, $runs runs under neighbouring properties, $bad alarms"
[ $bad -eq 0 ]
