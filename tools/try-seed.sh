#!/bin/sh
# usage: tools/try-seed.sh <ID> <slug>   — files the sub-agent's output under seeded/<ID>-<slug>/ and runs the property check on a patched scratch copy
ID="$1"; SLUG="$2"; SRC="${3:-$1}"; D=/verif/seeded/$ID-$SLUG
mkdir -p $D && cp /tmp/seedwt/$SRC.out/patch.diff /tmp/seedwt/$SRC.out/zz_seed_demo_test.go /tmp/seedwt/$SRC.out/notes.txt $D/
/verif/tools/mutant.sh $D/patch.diff $ID 2>&1 | grep -v "^bounded .* ok$" | grep "VIOLATION\|KNOWN\|quick:\|exit=\|BOUNDED\|bounded\|ERROR" | cut -c1-260
